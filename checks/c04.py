"""C04 — causality and sign (DESIGN 4.C04)."""
from vlib.core import Check
from pyvc.driver import verify_contracts, ENGINE_ASSUMPTIONS
from pyvc import arrays
from contracts import common, single_layer


def run(tier, seed):
    chk = Check("C04", tier, seed, "proof", "./check C04 --tier " + tier)
    cs = [c for c in single_layer.contracts if "C04" in c.props]
    eng = common.new_engine(single_layer.contracts, "C04")
    arrays.install(eng)
    single_layer.install_spec(eng)
    chk.assume(*ENGINE_ASSUMPTIONS)
    verify_contracts(eng, cs, chk)
    from vlib import smt
    smt.close_pool()
    return chk.finish()
