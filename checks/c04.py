"""C04 — causality and sign (DESIGN 4.C04)."""
from vlib.core import Check, guarded
from pyvc.driver import verify_contracts, ENGINE_ASSUMPTIONS
from pyvc import arrays, extio
from contracts import common, single_layer, assembly


def run(tier, seed):
    chk = Check("C04", tier, seed, "proof", "./check C04 --tier " + tier)
    chk.explanation = ("Proved (unbounded): every causality guard returns the literal 0 exactly when the property says so (bilform, "
                       "evaluate, evaluate_exact, potential, kernel, g, time-integrated and doubly time-integrated kernels, the closed "
                       "forms fint_k / spacetime_integrated_kernel_k / spacetime_evaluated_1, the column skip of the pool worker); the "
                       "doubly time-integrated kernel equals the four-term K2 of the property; the assembled matrix is Volterra with "
                       "rows = test and columns = trial. Bounded: sign beyond rounding / strict positivity (floating point).")
    chk.assume(*ENGINE_ASSUMPTIONS)
    eng = common.new_engine(single_layer.contracts, "C04")
    arrays.install(eng)
    single_layer.install_spec(eng)
    verify_contracts(eng, [c for c in single_layer.contracts if "C04" in c.props], chk)
    eng2 = common.new_engine(assembly.contracts, "C04")
    arrays.install(eng2)
    extio.install(eng2)
    assembly.install_spec(eng2)
    verify_contracts(eng2, [c for c in assembly.contracts if "C04" in c.props and c.setup], chk)
    from vlib import smt
    smt.close_pool()
    try:
        from bounded import relational
        guarded(chk, 'bounded part relational.run', relational.run, chk, "C04", tier, seed)
    except ImportError:
        chk.notes.append("bounded sign part (relational harness) not built yet")
    # the assembled matrix must keep its Volterra structure on every assembly path, including the disk cache with histories of
    # other element lists of the same shape (a stale entry is a matrix for another ordering: non-zero acausal entries)
    from bounded import cache_faults
    guarded(chk, 'bounded part cache_faults (matrix paths)', cache_faults.run, chk, tier, seed, "matrix", "C04")
    return chk.finish()
