"""C12 — ideal-arithmetic refinement obligations (contracts) + bounded relational contracts (DESIGN 4.C01/C07/C11/C12)."""
from vlib.core import Check, guarded


def run(tier, seed):
    chk = Check("C12", tier, seed, "other", "./check C12 --tier " + tier)
    try:
        from checks import sl_proved
        guarded(chk, 'proved part sl_proved', sl_proved.add_obligations, chk, "C12", tier, seed)
    except ImportError:
        chk.notes.append("proved ideal-arithmetic clauses not built yet")
    from bounded import relational
    guarded(chk, 'bounded part relational.run', relational.run, chk, "C12", tier, seed)
    return chk.finish()
