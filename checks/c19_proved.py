"""C19 proved part: exit condition of refine_grading (loop invariants over an abstract mesh)."""
from pyvc.driver import verify_contracts, ENGINE_ASSUMPTIONS
from pyvc import arrays, extio
from contracts import common, mesh_loops


def add_obligations(chk, tier, seed):
    chk.assume(*ENGINE_ASSUMPTIONS)
    eng = common.new_engine(mesh_loops.contracts, "C19")
    arrays.install(eng)
    mesh_loops.install(eng)
    verify_contracts(eng, [c for c in mesh_loops.contracts if "C19" in c.props and c.setup], chk)
    from vlib import smt
    smt.close_pool()
