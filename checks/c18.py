"""C18 — curves and piece assignment (DESIGN 4.C18)."""
from vlib.core import Check, guarded
from pyvc.driver import verify_contracts, ENGINE_ASSUMPTIONS
from pyvc import arrays, extio
from contracts import common, curves


def engine(cs):
    eng = common.new_engine(cs, "C18")
    arrays.install(eng)
    extio.install(eng)
    curves.install(eng)
    return eng


def run(tier, seed):
    chk = Check("C18", tier, seed, "proof", "./check C18 --tier " + tier)
    chk.explanation = ("Proved: line(a, b, x_start) is the arc-length parametrisation of the segment (NRA); every root gets the piece that "
                       "contains its whole interval when the space grid contains the break points (1, 2, 4, 6 pieces, symbolic break "
                       "points); the three-elements guard leaves >= 3 elements around a closed curve in every time slab (guard taken: small "
                       "grids executed with the refine_space model; guard not taken: symbolic N_t, N_x). Bounded: the shipped curves and "
                       "constructors in floating point.")
    chk.assume(*ENGINE_ASSUMPTIONS)
    eng = engine(curves.contracts)
    verify_contracts(eng, [c for c in curves.contracts if c.setup], chk)
    eng = engine([c for c in curves.contracts if not c.setup] + [curves.guard_symbolic])
    verify_contracts(eng, [curves.guard_symbolic], chk)
    eng = engine([])
    curves.install_polygon(eng)
    verify_contracts(eng, [curves.polygon_contract, curves.eval_contract], chk)
    from vlib import smt
    smt.close_pool()
    from bounded import curves_rt
    guarded(chk, 'bounded part curves_rt.run', curves_rt.run, chk, tier, seed)
    return chk.finish()
