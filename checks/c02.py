"""C02 — bounded explorer part (DESIGN 4.C02); proved local clauses are added by contracts/mesh.py when present."""
from vlib.core import Check, guarded


def run(tier, seed):
    chk = Check("C02", tier, seed, "exploration", "./check C02 --tier " + tier)
    try:
        from checks import c02_proved
        guarded(chk, 'proved part c02_proved', c02_proved.add_obligations, chk, tier, seed)
    except ImportError:
        chk.notes.append("proved local clauses not built yet")
    from bounded import mesh_explorer
    guarded(chk, 'bounded part mesh_explorer.run', mesh_explorer.run, chk, "C02", tier, seed)
    return chk.finish()
