"""C05 O8: the scheme constructors of src/quadrature.py map every advertised degree to an existing table key whose rule is
exact at least to that degree (Mode S over the integer key arithmetic)."""
from pyvc.driver import verify_contracts, ENGINE_ASSUMPTIONS
from pyvc import arrays
from contracts import common, quadrature


def add_obligations(chk, funcs):
    tabs, schemes = quadrature.scheme_contracts(funcs)
    eng = common.new_engine(tabs, "C05")
    arrays.install(eng)
    eng.spec_funcs.update(quadrature.SPEC)
    verify_contracts(eng, schemes, chk)
    chk.notes.append("gauss_x_quadrature_scheme(N_poly) for even N_poly selects a rule exact only to degree N_poly - 1 (no parity assert in the "
                     "constructor; not part of C05's statement, which is about the tables and the exported lists)")
