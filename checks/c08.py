"""C08 — initial-potential load vector (DESIGN 4.C08)."""
from vlib.core import Check, guarded
from pyvc.driver import verify_contracts, ENGINE_ASSUMPTIONS
from pyvc import arrays, extio
from contracts import common, initial_potential


def add_obligations(chk):
    """the proved part (linform per domain-cell configuration); also discharged by the C03 check, whose load vector consists of calls
    of this routine (link (A2) of its composition)"""
    eng = common.new_engine(initial_potential.contracts, "C08")
    arrays.install(eng)
    extio.install(eng)
    initial_potential.install(eng)
    verify_contracts(eng, [c for c in initial_potential.contracts if c.setup], chk)
    from vlib import smt
    smt.close_pool()


def run(tier, seed):
    chk = Check("C08", tier, seed, "other", "./check C08 --tier " + tier)
    chk.explanation = ("Proved (ideal arithmetic, symbolic coordinates, horizontal and vertical segment x {touch first end, touch second end, "
                       "disjoint}): per domain cell linform returns |cell| * |segment| * sum_i w_i u0(gamma_Q) E(|gamma_Q - gamma_K|^2) with "
                       "the right parametrisations (shared vertex at the origin of the Duffy cube / identical edge), Jacobian factors h^3 and "
                       "diam^2 (d - c), FPI_INV exactly once, and the a == 0 / a > 0 time-integrated kernel; exactly one identical cell. "
                       "Bounded: the digits against the closed forms of problems.py, additivity, linearity, evaluate.")
    chk.assume(*ENGINE_ASSUMPTIONS)
    add_obligations(chk)
    try:
        from bounded import potential_rel
        guarded(chk, 'bounded part potential_rel.run', potential_rel.run, chk, "C08", tier, seed)
    except ImportError:
        chk.notes.append("bounded part (potential_rel) not built yet")
    # the load vector through the disk cache (histories with other element lists of the same length, damaged files)
    from bounded import cache_faults
    guarded(chk, 'bounded part cache_faults.run', cache_faults.run, chk, tier, seed, only="vector", pid="C08")
    return chk.finish()
