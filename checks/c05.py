"""C05 — every tabulated quadrature rule is exact for its advertised class (DESIGN 4.C05).

Mode Q: the real src/quadrature_rules.py is re-read on every run, float literals are replaced
mechanically by exact rationals of the literal *text* (and, second pass, of the double they round
to), the real table functions are executed for every key found in the AST, and every clause of the
contract is handed to z3/cvc5 as a ground or linear real-arithmetic query.
"""
import math
from fractions import Fraction

from vlib import qmode, smt
from vlib.core import Ob, Check, DISCHARGED, FAILED, UNDECIDED, ERROR, GeneratorError, guarded
from vlib.replay import attach

REL = "src/quadrature_rules.py"
MOD = "src.quadrature_rules"
TOL_TEXT = Fraction(1, 10 ** 30)
TOL_DOUBLE_REL = Fraction(1, 10 ** 13)
U = Fraction(1, 2 ** 53)


def harmonic(n):
    return sum(Fraction(1, j) for j in range(1, n + 1))


# family -> (list of classes).  class = (tag, weightfun, upto(key) -> max degree, moment(k))
# written from the docstrings of the table functions (= advertised class) and the property.
def classes_for(fname, key):
    if fname == "log_quadrature_rule":
        p, ql = key
        return [("poly", None, p, lambda k: Fraction(1, k + 1)),
                ("log", "log", ql, lambda k: Fraction(-1, (k + 1) ** 2))]
    if fname == "log_log_quadrature_rule":
        p, ql = key
        return [("poly", None, p, lambda k: Fraction(1, k + 1)),
                ("log", "log", ql, lambda k: Fraction(-1, (k + 1) ** 2)),
                ("log1m", "log1m", ql, lambda k: -harmonic(k + 1) / (k + 1))]
    if fname == "sqrt_quadrature_rule":
        p, ql = key
        return [("poly", None, p, lambda k: Fraction(1, k + 1)),
                ("sqrt", "sqrt", ql, lambda k: Fraction(2, 2 * k + 3))]
    if fname == "sqrtinv_quadrature_rule":
        p, ql = key
        return [("poly", None, p, lambda k: Fraction(1, k + 1)),
                ("sqrtinv", "sqrtinv", ql, lambda k: Fraction(2, 2 * k + 1))]
    if fname == "gauss_sqrtinv_quadrature_rule":
        return [("w=1/sqrt", None, 2 * key - 1, lambda k: Fraction(2, 2 * k + 1))]
    if fname == "gauss_x_quadrature_rule":
        return [("w=x", None, 2 * key - 1, lambda k: Fraction(1, k + 2))]
    if fname == "gauss_log_quadrature_rule":
        return [("w=log", None, 2 * key + 1, lambda k: Fraction(-1, (k + 1) ** 2))]
    raise GeneratorError("no advertised class known for table function " + fname)


EXPORTED = {"LOG_QUAD_RULES": "log_quadrature_rule", "LOG_LOG_QUAD_RULES": "log_log_quadrature_rule",
            "SQRT_QUAD_RULES": "sqrt_quadrature_rule", "SQRTINV_QUAD_RULES": "sqrtinv_quadrature_rule"}


def keyargs(key):
    return key if isinstance(key, tuple) else (key,)


def keystr(key):
    return "key={}".format(key).replace(" ", "")


def enclosure(wf, x):
    """rational [lo,hi] for weightfun(x); returns (lo, hi, side_obligations_smt or None)."""
    if wf == "log":
        return qmode.log_enclosure(x) + (None,)
    if wf == "log1m":
        return qmode.log_enclosure(1 - x) + (None,)
    if wf == "sqrt":
        lo, hi = qmode.sqrt_enclosure(x)
        side = "(assert (not (and (>= {lo} 0.0) (<= (* {lo} {lo}) {x}) (<= {x} (* {hi} {hi})))))".format(
            lo=qmode.q(lo), hi=qmode.q(hi), x=qmode.q(x))
        return lo, hi, side
    if wf == "sqrtinv":
        slo, shi = qmode.sqrt_enclosure(x)
        lo, hi = 1 / shi, 1 / slo
        # lo <= 1/sqrt(x) <= hi  <=>  x*lo^2 <= 1 <= x*hi^2  (lo, hi > 0)
        side = "(assert (not (and (> {lo} 0.0) (<= (* {x} {lo} {lo}) 1.0) (<= 1.0 (* {x} {hi} {hi})))))".format(
            lo=qmode.q(lo), hi=qmode.q(hi), x=qmode.q(x))
        return lo, hi, side
    raise GeneratorError(wf)


def moment_query(nodes, weights, k, wf, m, mode, enc):
    """SMT-LIB text of the *negated* moment obligation."""
    n = len(nodes)
    L = ["(set-logic ALL)"]
    for i in range(n):
        L.append("(define-fun x{} () Real {})".format(i, qmode.q(nodes[i])))
        L.append("(define-fun w{} () Real {})".format(i, qmode.q(weights[i])))
        L.append("(define-fun p{}_0 () Real 1.0)".format(i))
        for j in range(1, k + 1):
            L.append("(define-fun p{i}_{j} () Real (* p{i}_{jm} x{i}))".format(i=i, j=j, jm=j - 1))
    terms, absb, aerr = [], [], []
    for i in range(n):
        if wf is None:
            terms.append("(* w{i} p{i}_{k})".format(i=i, k=k))
            absb.append("(* (abs w{i}) p{i}_{k})".format(i=i, k=k))
        else:
            lo, hi, _ = enc[i]
            L.append("(declare-const s{} Real)".format(i))
            L.append("(assert (and (<= {} s{i}) (<= s{i} {})))".format(qmode.q(lo), qmode.q(hi), i=i))
            terms.append("(* w{i} p{i}_{k} s{i})".format(i=i, k=k))
            A = max(abs(lo), abs(hi))
            absb.append("(* (abs w{i}) p{i}_{k} {A})".format(i=i, k=k, A=qmode.q(A)))
            if wf == "log1m":
                aerr.append("(* (abs w{i}) p{i}_{k} {e})".format(i=i, k=k, e=qmode.q(U * Fraction(10000001, 10000000))))
    S = "(+ 0.0 {})".format(" ".join(terms))
    L.append("(define-fun S () Real {})".format(S))
    L.append("(define-fun m () Real {})".format(qmode.q(m)))
    if mode == "text":
        L.append("(assert (not (and (<= (- S m) {t}) (<= (- m S) {t}))))".format(t=qmode.q(TOL_TEXT)))
    else:
        j = n + k + 6
        G = j * U / (1 - j * U)
        T = "(+ 0.0 {})".format(" ".join(absb))
        E = "(+ 0.0 {})".format(" ".join(aerr)) if aerr else "0.0"
        L.append("(define-fun C () Real (+ (* {} {}) {}))".format(qmode.q(G), T, E))
        L.append("(define-fun R () Real {})".format(qmode.q(TOL_DOUBLE_REL * abs(m))))
        L.append("(assert (not (and (<= (+ (- S m) C) R) (<= (+ (- m S) C) R))))")
    L.append("(check-sat)")
    return "\n".join(L)


def run(tier, seed):
    chk = Check("C05", tier, seed, "proof", "./check C05 --tier " + tier)
    chk.explanation = ("Mode Q: real table code executed over exact rationals for every key enumerated from the "
                       "AST; every clause (returns / lengths / node range / weight sign / moments as written / "
                       "moments in double with IEEE standard-model error bound / exported lists) is an SMT query.")
    chk.assume("A-LOG: |2 atanh y - 2 sum_{j<=n} y^(2j+1)/(2j+1)| <= 2|y|^(2n+3)/((2n+3)(1-y^2)) (textbook); "
               "enclosures cross-checked against mpmath.iv on every run",
               "A-FP: IEEE-754 standard model for + and *, x**k / np.log / np.sqrt within 1 ulp (double clause O6 only)",
               "Fraction(<literal text>) parses decimal literals exactly (CPython fractions module)",
               "advertised class of each family taken from the table functions' docstrings")
    chk.trust("z3 4/5 + cvc5 rational arithmetic", "CPython ast/compile/exec of the transformed module",
              "mpmath interval log (cross-check only)")
    try:
        funcs, lists = qmode.table_keys(REL)
    except GeneratorError as e:
        chk.error(str(e))
        return chk.finish()
    mods = {"text": qmode.load_exact(REL, "text"), "double": qmode.load_exact(REL, "double")}
    import importlib
    import sys
    from vlib.core import REPO
    if REPO not in sys.path:
        sys.path.insert(0, REPO)
    real = importlib.import_module(MOD)
    chk.extraction_drops.append("none of the table code; float literals -> Fraction(text) / Fraction(float(text)) "
                                "({} literals rewritten)".format(mods["text"].__n_float_literals__))
    expected_families = ["log_quadrature_rule", "log_log_quadrature_rule", "sqrt_quadrature_rule",
                         "sqrtinv_quadrature_rule", "gauss_sqrtinv_quadrature_rule",
                         "gauss_x_quadrature_rule", "gauss_log_quadrature_rule"]
    for f in expected_families:
        if f not in funcs:
            chk.error("table function {} no longer exists in {}".format(f, REL))
    queries = []     # (name, text)
    meta = {}
    import mpmath
    mpmath.iv.dps = 60
    n_rules = 0
    for fname in expected_families:
        if fname not in funcs:
            continue
        info = funcs[fname]
        chk.under_contract("{}:{}".format(MOD, fname))
        if info["else_kind"] != "assert-false":
            chk.add(Ob("C05/{}:{}/else/O0-unknown-key-asserts".format(MOD, fname), FAILED, backend="ast",
                       detail=dict(else_kind=info["else_kind"])))
        else:
            chk.add(Ob("C05/{}:{}/else/O0-unknown-key-asserts".format(MOD, fname), DISCHARGED, backend="ast"))
        seen = set()
        for key, lineno in info["keys"]:
            base = "C05/{}:{}/{}".format(MOD, fname, keystr(key))
            if key in seen:
                chk.add(Ob(base + "/O0-key-unique", FAILED, backend="ast", detail=dict(line=lineno,
                           why="duplicate key: this branch is unreachable")))
                continue
            seen.add(key)
            n_rules += 1
            # ---- O1: the path selected by the key returns a pair of tuples (real code, exact module) ----
            res = {}
            ok1 = True
            for mode in ("text", "double"):
                try:
                    r = getattr(mods[mode], fname)(*keyargs(key))
                except BaseException as e:
                    r = e
                res[mode] = r
            r = res["text"]
            shape_ok = (isinstance(r, tuple) and len(r) == 2 and all(isinstance(c, tuple) for c in r))
            o1 = Ob(base + "/O1-returns", DISCHARGED if shape_ok else FAILED, backend="cpython-exhaustive",
                    detail=dict(line=lineno, got=type(r).__name__ if not shape_ok else "pair of tuples"))
            if not shape_ok:
                code = ("from {mod} import {f} as f\nr = f(*{args!r})\nobserved = r\n"
                        "violated = not (isinstance(r, tuple) and len(r) == 2 and all(isinstance(c, tuple) for c in r))\n"
                        ).format(mod=MOD, f=fname, args=keyargs(key))
                attach(o1, code, raises_is_violation=True)
                chk.add(o1)
                continue
            chk.add(o1)
            nodes, weights = r
            dn, dw = res["double"]
            # transform sanity: the exact module rounds to exactly what the real module returns
            try:
                rr = getattr(real, fname)(*keyargs(key))
                same = (tuple(float(x) for x in nodes) == tuple(float(x) for x in rr[0]) and
                        tuple(float(x) for x in weights) == tuple(float(x) for x in rr[1]) and
                        tuple(dn) == tuple(Fraction(float(x)) for x in rr[0]))
            except BaseException as e:
                same = False
            if not same:
                chk.error("{}: exact-literal module disagrees with the real module (transform unsound?)".format(base))
                continue
            # ---- O2..O4 ----
            n = len(nodes)
            lens_ok = (len(nodes) == len(weights) and n >= 1)
            chk.add(Ob(base + "/O2-lengths", DISCHARGED if lens_ok else FAILED, backend="cpython-exhaustive",
                       detail=dict(n_nodes=len(nodes), n_weights=len(weights))))
            if not lens_ok:
                continue
            if not all(isinstance(v, (Fraction, int)) for v in list(nodes) + list(weights)):
                chk.error(base + ": non-numeric table entry")
                continue
            nodes = [Fraction(v) for v in nodes]
            weights = [Fraction(v) for v in weights]
            dn = [Fraction(v) for v in dn]
            dw = [Fraction(v) for v in dw]
            for mode, nn, ww in (("text", nodes, weights), ("double", dn, dw)):
                L = ["(set-logic ALL)"]
                L.append("(assert (not (and {})))".format(" ".join(
                    "(< 0.0 {x}) (< {x} 1.0)".format(x=qmode.q(x)) for x in nn)))
                L.append("(check-sat)")
                queries.append((base + "/O3-nodes-in-(0,1)/" + mode, "\n".join(L)))
                L = ["(set-logic ALL)"]
                L.append("(assert (not (or (and {}) (and {}))))".format(
                    " ".join("(> {} 0.0)".format(qmode.q(w)) for w in ww),
                    " ".join("(< {} 0.0)".format(qmode.q(w)) for w in ww)))
                L.append("(check-sat)")
                queries.append((base + "/O4-weights-one-sign/" + mode, "\n".join(L)))
            # ---- O5 / O6 moments ----
            for tag, wf, upto, mfun in classes_for(fname, key):
                if upto < 0:
                    chk.notes.append("{}: class {} not advertised (degree {})".format(base, tag, upto))
                    continue
                for mode, nn, ww in (("text", nodes, weights), ("double", dn, dw)):
                    enc = None
                    if wf is not None:
                        enc = [enclosure(wf, x) for x in nn]
                        for i, (lo, hi, side) in enumerate(enc):
                            if side is not None:
                                queries.append(("{}/O5e-enclosure/{}/{}/node{}".format(base, tag, mode, i),
                                                "(set-logic ALL)\n" + side + "\n(check-sat)"))
                            if wf in ("log", "log1m"):
                                arg = nn[i] if wf == "log" else 1 - nn[i]
                                iv = mpmath.iv.log(mpmath.iv.mpf(arg.numerator) / mpmath.iv.mpf(arg.denominator))
                                flo = mpmath.iv.mpf(lo.numerator) / mpmath.iv.mpf(lo.denominator)
                                fhi = mpmath.iv.mpf(hi.numerator) / mpmath.iv.mpf(hi.denominator)
                                # ours must be narrow and must intersect mpmath's enclosure
                                if not (hi - lo < Fraction(1, 10 ** 50) and flo.a <= iv.b and fhi.b >= iv.a):
                                    chk.error("{}: log enclosure disagrees with mpmath.iv at node {}".format(base, i))
                    ks = range(0, upto + 1)
                    for k in ks:
                        name = "{}/{}-{}/k={}".format(base, "O5-moment-as-written" if mode == "text" else "O6-moment-double", tag, k)
                        queries.append((name, moment_query(nn, ww, k, wf, mfun(k), mode, enc)))
                        meta[name] = dict(fname=fname, key=key, tag=tag, wf=wf, k=k, mode=mode, m=mfun(k))
    # ---- O7: exported lists ----
    for lname, fname in EXPORTED.items():
        if lname not in lists:
            chk.error("exported list {} not found".format(lname))
            continue
        have = {k for k, _ in funcs.get(fname, dict(keys=[]))["keys"]}
        for pair in lists[lname]:
            name = "C05/{}:{}/{}/O7-listed-pair-available".format(MOD, lname, keystr(pair))
            ok = False
            got = None
            if pair in have:
                try:
                    got = getattr(mods["text"], fname)(*pair)
                    ok = isinstance(got, tuple) and len(got) == 2
                except BaseException as e:
                    got = e
            ob = Ob(name, DISCHARGED if ok else FAILED, backend="cpython-exhaustive",
                    detail=dict(pair=pair, in_table=pair in have))
            if not ok:
                code = ("from {mod} import {f} as f\nraises_is_violation = True\nr = f(*{args!r})\nobserved = r\n"
                        "violated = not (isinstance(r, tuple) and len(r) == 2)\n").format(mod=MOD, f=fname, args=pair)
                attach(ob, code, raises_is_violation=True)
            chk.add(ob)
    # ---- discharge ----
    results = smt.solve_many(queries, opts=dict(z3_timeout=30, cvc5_timeout=60))
    for name, text in [(q[0], q[1]) for q in queries]:
        st, be, dt, info = results[name]
        if st == "unsat":
            chk.add(Ob(name, DISCHARGED, backend=be, seconds=dt))
        elif st == "sat":
            ob = Ob(name, FAILED, backend=be, seconds=dt, model=info)
            md = meta.get(name)
            if md:
                ob.detail = {k: str(v) for k, v in md.items()}
                attach(ob, moment_replay_code(md))
            chk.add(ob)
        elif st == "error":
            chk.add(Ob(name, ERROR, backend=be, seconds=dt, detail=dict(err=str(info))))
        else:
            chk.add(Ob(name, UNDECIDED, backend=be, seconds=dt, detail=dict(reason=str(info))))
    # ---- O8: scheme constructors (Mode S over the integer key arithmetic) ----
    try:
        from checks import c05_schemes
        c05_schemes.add_obligations(chk, funcs)
    except ImportError:
        chk.notes.append("O8 (scheme constructor key map) not built yet")
    # ---- O9: every tabulated rule is delivered unchanged by its scheme constructor (real code, exhaustive over the keys) ----
    guarded(chk, "O9 constructors deliver the tabulated rule", constructor_obligations, chk, funcs)
    chk.vacuity.update(dict(rules=n_rules, queries=len(queries), families=len(funcs)))
    if n_rules < 1:
        chk.error("no table entries found")
    chk.samples.append(dict(rule="log_quadrature_rule key=(1,1)", obligation="sum_i w_i x_i log x_i == -1/4 +- 1e-30",
                            note="nodes/weights are the exact decimals of the source text"))
    smt.close_pool()
    return chk.finish()


CONSTRUCTORS = {   # table function -> (scheme constructor, request for a key)
    "log_quadrature_rule": ("log_quadrature_scheme", lambda k: k),
    "log_log_quadrature_rule": ("log_log_quadrature_scheme", lambda k: k),
    "sqrt_quadrature_rule": ("sqrt_quadrature_scheme", lambda k: k),
    "sqrtinv_quadrature_rule": ("sqrtinv_quadrature_scheme", lambda k: k),
    "gauss_sqrtinv_quadrature_rule": ("gauss_sqrtinv_quadrature_scheme", lambda N: (2 * N - 1,)),
    "gauss_x_quadrature_rule": ("gauss_x_quadrature_scheme", lambda N: (2 * N - 1,)),
    "gauss_log_quadrature_rule": ("gauss_log_quadrature_scheme", lambda N: (2 * N - 1,)),       # N = (N_poly + 1) // 2
}


def constructor_obligations(chk, funcs):
    """For every key of every table the scheme constructor of src/quadrature.py, asked for the degrees that key advertises, must
    hand out exactly the nodes and weights of that key (finite and exhaustive: executed on the real code for each key)."""
    import importlib
    import numpy as np
    Q = importlib.import_module("src.quadrature")
    T = importlib.import_module(MOD)
    for fname, (cname, req) in CONSTRUCTORS.items():
        if fname not in funcs:
            continue
        chk.under_contract("src.quadrature:{}".format(cname))
        for key, _ in funcs[fname]["keys"]:
            args = req(key) if isinstance(key, tuple) else req(key)
            args = args if isinstance(args, tuple) else (args,)
            name = "C05/src.quadrature:{}/{}/O9-constructor-delivers-the-tabulated-rule".format(cname, keystr(key))
            try:
                want = getattr(T, fname)(*(key if isinstance(key, tuple) else (key,)))
                got = getattr(Q, cname)(*args)
                ok = (want is not None and got is not None and np.array_equal(np.asarray(got.points), np.asarray(want[0]))
                      and np.array_equal(np.asarray(got.weights), np.asarray(want[1])))
                detail = {} if ok else dict(request=args, got_points=None if got is None else int(np.size(got.points)),
                                            want_points=None if want is None else len(want[0]))
            except Exception as e:      # noqa
                ok, detail = False, dict(request=args, raised=repr(e)[:200])
            if ok:
                chk.add(Ob(name, DISCHARGED, backend="cpython-exhaustive"))
            else:
                code = ("from src import quadrature as Q, quadrature_rules as T\nimport numpy as np\nraises_is_violation = True\n"
                        "want = T.{f}(*{k!r})\ngot = Q.{c}(*{a!r})\nobserved = dict(got=len(got.points), want=len(want[0]))\n"
                        "violated = not (np.array_equal(got.points, np.array(want[0])) and np.array_equal(got.weights, np.array(want[1])))\n"
                        ).format(f=fname, c=cname, k=key if isinstance(key, tuple) else (key,), a=args)
                ob = Ob(name, FAILED, backend="cpython-exhaustive", detail=detail)
                attach(ob, code, True, bucket="O9")
                chk.add(ob)
            # history clause (bounded: one history per key): an earlier holder of the rule maps it in place to an element, as an
            # element loop would; a later request of the same key must still deliver the tabulated rule
            name2 = "C05/src.quadrature:{}/{}/O10-request-after-an-earlier-holder-rescaled-its-rule-in-place".format(cname, keystr(key))
            hist = ("from src import quadrature as Q, quadrature_rules as T\nimport numpy as np\nraises_is_violation = True\n"
                    "first = Q.{c}(*{a!r})\n"
                    "for arr, (mul, add) in ((first.points, (0.125, 0.75)), (first.weights, (0.125, 0.0))):\n"
                    "    try:\n        arr *= mul; arr += add\n    except (TypeError, ValueError):\n        pass\n"
                    "want = T.{f}(*{k!r})\ngot = Q.{c}(*{a!r})\n"
                    "observed = dict(first_weight_sum=float(np.sum(got.weights)), tabulated=float(np.sum(want[1])))\n"
                    "violated = not (np.array_equal(got.points, np.array(want[0])) and np.array_equal(got.weights, np.array(want[1])))\n"
                    ).format(f=fname, c=cname, k=key if isinstance(key, tuple) else (key,), a=args)
            env = {}
            try:
                exec(hist, env)
                bad, det = bool(env["violated"]), env.get("observed")
            except Exception as e:      # noqa
                bad, det = True, dict(raised=repr(e)[:200])
            if not bad:
                chk.add_bounded("constructor request after an earlier holder rescaled its rule in place", 1, 1,
                                "one history per (constructor, key): request, in-place affine rescale of the returned arrays, request",
                                "the second request delivers exactly the tabulated nodes and weights", [name2])
            else:
                ob = Ob(name2, FAILED, kind="bounded", backend="cpython (history: request, in-place rescale, request)", detail=det)
                attach(ob, hist, True, bucket="O10")
                chk.add(ob)


def moment_replay_code(md):
    """Independent re-evaluation on the real source: parse the literal text from the real file with
    mpmath at 80 digits (text mode) or call the real function in doubles (double mode)."""
    return '''
import ast, mpmath, inspect
from {mod} import {f} as f
import {mod} as M
mpmath.mp.dps = 90
src = open(M.__file__).read()
tree = ast.parse(src)
fn = [n for n in tree.body if isinstance(n, ast.FunctionDef) and n.name == {f!r}][0]
key = {key!r}
def find(node):
    cur = [s for s in node.body if isinstance(s, ast.If)][-1]
    while True:
        if ast.literal_eval(cur.test.comparators[0]) == key:
            return cur
        cur = cur.orelse[0]
br = find(fn)
ret = [s for s in br.body if isinstance(s, (ast.Return, ast.Expr))][0].value
def lit(e):
    if isinstance(e, ast.UnaryOp):
        return -lit(e.operand)
    return mpmath.mpf(ast.get_source_segment(src, e))
nodes = [lit(e) for e in ret.elts[0].elts]
weights = [lit(e) for e in ret.elts[1].elts]
if {mode!r} == 'double':
    nodes = [mpmath.mpf(float(x)) for x in nodes]; weights = [mpmath.mpf(float(x)) for x in weights]
wf = {wf!r}
phi = dict(log=mpmath.log, log1m=lambda x: mpmath.log(1 - x), sqrt=mpmath.sqrt, sqrtinv=lambda x: 1 / mpmath.sqrt(x)).get(wf, lambda x: 1)
k = {k}
S = sum(w * x**k * phi(x) for x, w in zip(nodes, weights))
m = mpmath.mpf({mn}) / mpmath.mpf({md})
err = abs(S - m)
observed = dict(sum=mpmath.nstr(S, 40), moment=mpmath.nstr(m, 40), abs_err=mpmath.nstr(err, 5))
violated = (err > mpmath.mpf(10) ** -30) if {mode!r} == 'text' else (err > mpmath.mpf(10) ** -13 * abs(m))
'''.format(mod=MOD, f=md["fname"], key=md["key"], wf=md["wf"], k=md["k"], mode=md["mode"],
           mn=md["m"].numerator, md=md["m"].denominator)
