"""C14 — Slobodeckij seminorm quadratures: exact on polynomials, invariant (DESIGN 4.C14).

Mode Q: the real Slobodeckij constructor and the real seminorm_* bodies (src/norms.py) are executed on exact
rationals (table literals as written; the Gauss-Legendre nodes that numpy computes at run time enter as the exact
rationals of their doubles) for every order and every pair of monomials in the exactness range; the polarised
value is compared with the closed form by z3.
"""
import math
import multiprocessing as mp
import os
from fractions import Fraction

from vlib import qmode, smt
from vlib.core import Ob, Check, DISCHARGED, FAILED, UNDECIDED, ERROR, GeneratorError, guarded
from vlib.replay import attach, settle_crash

REL = Fraction(1, 10 ** 12)


def B12(p, q):
    """int int (x^p - y^p)(x^q - y^q) / (x - y)^2 over [0,1]^2"""
    return sum(Fraction(1, (i + j + 1) * (p + q - 1 - i - j)) for i in range(p) for j in range(q))


def _beta32(n):
    """Beta(n + 1, 3/2) = n! / prod_{k=0..n} (k + 3/2)"""
    r = Fraction(math.factorial(n))
    for k in range(n + 1):
        r /= (k + Fraction(3, 2))
    return r


def B14(p, q):
    """int int (x^p - y^p)(x^q - y^q) / |x - y|^(3/2) over [0,1]^2  (|x-y|^(1/2) x^m y^n integrates to
    (Beta(n+1,3/2) + Beta(m+1,3/2)) / (m + n + 5/2))"""
    tot = Fraction(0)
    for i in range(p):
        for j in range(q):
            m, n = i + j, p + q - 2 - i - j
            tot += (_beta32(n) + _beta32(m)) / (m + n + Fraction(5, 2))
    return tot


def exact_package():
    import numpy as np
    P = qmode.load_exact_package("text")
    if not getattr(P, "_leg_patched", False):
        orig = np.polynomial.legendre.leggauss

        def lg(n):
            x, w = orig(n)
            return (np.array([Fraction(float(v)) for v in x], dtype=object),
                    np.array([Fraction(float(v)) for v in w], dtype=object))

        class Leg:
            leggauss = staticmethod(lg)

        class Poly:
            legendre = Leg

        class NPX:
            polynomial = Poly

            def __getattr__(self, k):
                return getattr(np, k)
        P.quadrature.np = NPX()

        class NPN:
            """numpy proxy for the exact copy of src/norms.py: np.allclose cannot compare object arrays of Fractions"""
            @staticmethod
            def allclose(a, b, *args, **kw):
                return bool(np.allclose(np.array(a, dtype=float), np.array(b, dtype=float), *args, **kw))

            def __getattr__(self, k):
                return getattr(np, k)
        P.norms.np = NPN()
        P._leg_patched = True
    return P


INTERVALS = [(Fraction(0), Fraction(1)), (Fraction(1, 3), Fraction(1, 3) + Fraction(1, 4)), (Fraction(-2), Fraction(2)),
             (Fraction(7), Fraction(7) + Fraction(9, 16)), (Fraction(100), Fraction(1000))]


def task(args):
    kind, N, tier = args
    P = exact_package()
    S = P.norms.Slobodeckij(N if kind == "h14" else 1, N if kind == "h12" else 1)
    out = []
    D = (N - 1) // 2
    fn = S.seminorm_h_1_2 if kind == "h12" else S.seminorm_h_1_4
    closed = B12 if kind == "h12" else B14
    meth = "seminorm_h_1_2" if kind == "h12" else "seminorm_h_1_4"
    base = "C14/src.norms:Slobodeckij.{}/N={}".format(meth, N)
    W = S.semi_1_2_weights if kind == "h12" else S.semi_1_4_weights
    out.append((base + "/weights-positive", "pos", min(W), None, None))
    ivs = INTERVALS[:2] if tier == "quick" else INTERVALS
    for (a, b) in ivs:
        h = b - a
        if kind == "h14" and math.isqrt(h.numerator) ** 2 * 1 != h.numerator or kind == "h14" and math.isqrt(h.denominator) ** 2 != h.denominator:
            continue   # h**(1/2) is evaluated in floating point; keep it exact (perfect squares only)
        scale = Fraction(1) if kind == "h12" else Fraction(math.isqrt(h.numerator), math.isqrt(h.denominator))
        mono = lambda p: (lambda x, p=p: ((x - a) / h) ** p)
        Qd = {}
        for p in range(D + 1):
            Qd[p] = Fraction(fn(mono(p), a, b))
        for p in range(D + 1):
            for q in range(p, D + 1):
                if p == q:
                    val = Qd[p]
                else:
                    both = lambda x, p=p, q=q: ((x - a) / h) ** p + ((x - a) / h) ** q
                    val = (Fraction(fn(both, a, b)) - Qd[p] - Qd[q]) / 2
                want = closed(p, q) * scale
                ref = scale * (closed(p, p) * closed(q, q))      # squared Cauchy-Schwarz scale
                out.append(("{}/[{},{}]/exact-on-polynomials/x^{}*x^{}".format(base, a, b, p, q), "polar", val, want, ref))
        # quadratic scaling Q(c f) = c^2 Q(f), c = -3/2
        if D >= 1:
            c = Fraction(-3, 2)
            val = Fraction(fn(lambda x: c * mono(D)(x), a, b))
            out.append(("{}/[{},{}]/scales-quadratically".format(base, a, b), "eq", val, c * c * Qd[D], None))
    return out


def curve_task(args):
    """the curve-aware H^{1/2} variant on a straight segment with rational unit direction equals the flat one"""
    N, tier = args
    import numpy as np
    P = exact_package()
    S = P.norms.Slobodeckij(1, N)
    out = []
    D = (N - 1) // 2
    base = "C14/src.norms:Slobodeckij.seminorm_h_1_2/N={}".format(N)
    for (dx, dy, px, py) in [(Fraction(3, 5), Fraction(4, 5), Fraction(1), Fraction(-2)), (Fraction(0), Fraction(-1), Fraction(1, 2), Fraction(3))]:
        def gamma(x):
            return np.array([px + x * dx, py + x * dy], dtype=object)
        a, b = Fraction(1, 2), Fraction(2)
        for p in range(min(D, 3) + 1):
            flat = Fraction(S.seminorm_h_1_2(lambda x, p=p: x ** p, a, b))
            curv = Fraction(S.seminorm_h_1_2(lambda x_hat, g, p=p: x_hat ** p, a, b, gamma))
            out.append(("{}/curve-aware-equals-flat-on-straight-segment/dir=({},{})/x^{}".format(base, dx, dy, p), "eq", curv, flat, None))
    return out


def pw_task(args):
    """two-piece variant on two *collinear* straight pieces (angle 180 degrees): must equal the flat seminorm on the union"""
    N, tier = args
    import numpy as np
    P = exact_package()
    S = P.norms.Slobodeckij(1, N)
    out = []
    D = (N - 1) // 2
    base = "C14/src.norms:Slobodeckij.seminorm_h_1_2_pw/N={}".format(N)
    cases = [((Fraction(3, 5), Fraction(4, 5)), Fraction(1, 2), Fraction(2), Fraction(3), Fraction(15, 4)),
             ((Fraction(0), Fraction(1)), Fraction(0), Fraction(1), Fraction(1), Fraction(5, 4))]
    for (dx, dy), a1, b1, a2, b2 in (cases if tier == "thorough" else cases[:1]):
        p0 = np.array([[Fraction(1)], [Fraction(-2)]], dtype=object)
        d = np.array([[dx], [dy]], dtype=object)

        def g1(x):
            return p0 + (x - a1) * d

        def g2(y):
            return p0 + (b1 - a1) * d + (y - a2) * d
        for p in range(D + 1):
            def f(xh, g, p=p):
                s_ = (xh - a1) if g is g1 else (b1 - a1) + (xh - a2)
                return s_ ** p
            v = Fraction(S.seminorm_h_1_2_pw(f, a1, b1, g1, a2, b2, g2))
            w = Fraction(S.seminorm_h_1_2(lambda s_, p=p: s_ ** p, Fraction(0), (b1 - a1) + (b2 - a2)))
            out.append(("{}/collinear-pieces-equal-flat-on-union/dir=({},{})/s^{}".format(base, dx, dy, p), "eq", v, w, None))
    return out


def sym_task(args):
    """for-all-intervals clause: the real bodies executed with *indeterminates* a, h (sympy symbols) and an uninterpreted
    integrand F.  seminorm(f; a, a + h) must equal h^s * seminorm(f o phi; 0, 1), phi(s) = a + h s (s = 0 for H^1/2, 1/2 for
    H^1/4), as an identity of rational functions in (a, h, F(.)): then exactness on [0,1] (Mode Q above) transports to every
    interval, because f o phi is a polynomial of the same degree and the exact seminorms scale in the same way.  A comparison,
    clamp or threshold on a quantity that depends on a or h cannot be evaluated on indeterminates and is reported as a failure of
    the clause (with a double-precision replay at extreme scales)."""
    kind, N, tier = args
    import numpy as np
    import sympy
    P = exact_package()
    a = sympy.Symbol("a", real=True)
    h = sympy.Symbol("h", positive=True)
    F = sympy.Function("F")
    fv = np.frompyfunc(lambda x: F(sympy.sympify(x)), 1, 1)
    out = []
    if kind in ("h12", "h14"):
        S = P.norms.Slobodeckij(N if kind == "h14" else 1, N if kind == "h12" else 1)
        fn = S.seminorm_h_1_2 if kind == "h12" else S.seminorm_h_1_4
        meth = "seminorm_h_1_2" if kind == "h12" else "seminorm_h_1_4"
        name = "C14/src.norms:Slobodeckij.{}/N={}/for-all-a,h,f: value on [a,a+h] == h^{} * value of f(a + h s) on [0,1]".format(
            meth, N, "0" if kind == "h12" else "(1/2)")
        try:
            lhs = fn(lambda x: fv(x), a, a + h)
            rhs = fn(lambda s_: fv(a + h * s_), sympy.Integer(0), sympy.Integer(1))
            d = sympy.expand(lhs - rhs) if kind == "h12" else sympy.expand(lhs / h ** 0.5 - rhs)
            out.append((name, "sym", d == 0, None if d == 0 else str(d)[:300], None))
        except TypeError as e:
            out.append((name, "sym", False, "the body is not pure arithmetic in a + h*points: {}".format(str(e)[:200]), None))
    else:
        # curve-aware H^1/2 on a straight unit-speed segment with symbolic base point and direction == flat variant
        S = P.norms.Slobodeckij(1, N)
        dx, dy, px, py = sympy.symbols("dx dy px py", real=True)
        name = ("C14/src.norms:Slobodeckij.seminorm_h_1_2/N={}/for-all-a,h,f,straight unit-speed segments: curve-aware value == flat "
                "value".format(N))

        def gamma(x):
            return np.array([px + x * dx, py + x * dy], dtype=object)
        try:
            lhs = S.seminorm_h_1_2(lambda x_hat, g: fv(x_hat), a, a + h, gamma)
            rhs = S.seminorm_h_1_2(lambda x: fv(x), a, a + h)
            d = sympy.simplify(sympy.expand(lhs).subs(dy ** 2, 1 - dx ** 2) - rhs)
            if d != 0:
                d = sympy.simplify(sympy.together(lhs).subs(dy, sympy.sqrt(1 - dx ** 2)) - rhs)
            out.append((name, "sym", d == 0, None if d == 0 else str(d)[:300], None))
        except TypeError as e:
            out.append((name, "sym", False, "the body is not pure arithmetic in gamma(a + h*points): {}".format(str(e)[:200]), None))
    return out


SCALE_REPLAY = '''
import numpy as np
from src.norms import Slobodeckij
worst = 0.0
observed = []
for N in (5, 11, 15, 21):
    S12, S14 = Slobodeckij(1, N), Slobodeckij(N, 1)
    D = (N - 1) // 2
    for a in (0.0, 0.75, -3.0):
        for h in (1e-12, 1e-9, 1e-6, 1e-3, 2e-3, 1.0, 1e3, 1e6):
            if abs(a) > 0 and h < 1e-6 * abs(a):
                continue        # a + h s loses the digits of s in double precision: not the routine's fault
            f = lambda x: ((x - a) / h) ** D + 0.5 * ((x - a) / h)
            g = lambda s: s ** D + 0.5 * s
            for S, meth, sc in ((S12, "seminorm_h_1_2", 1.0), (S14, "seminorm_h_1_4", h ** 0.5)):
                v = getattr(S, meth)(f, a, a + h)
                w = sc * getattr(S, meth)(g, 0.0, 1.0)
                rel = abs(v - w) / abs(w)
                if rel > 1e-9:
                    observed.append((meth, N, a, h, float(v), float(w), rel))
violated = len(observed) > 0
observed = observed[:5]
'''


def _safe(fn_args):
    fn, args = fn_args
    try:
        return args, fn(args)
    except BaseException as e:
        import traceback
        return args, "{}: {}\n{}".format(type(e).__name__, e, traceback.format_exc()[-600:])


def run(tier, seed):
    chk = Check("C14", tier, seed, "proof", "./check C14 --tier " + tier)
    chk.explanation = ("Mode Q: real Slobodeckij constructor and seminorm bodies executed over exact rationals for every order; the routine is "
                       "a quadratic form in the point values, so exactness on all polynomials of degree <= (N-1)/2 is equivalent to the "
                       "polarised identities B_N(x^p, x^q) == B(x^p, x^q), p, q <= (N-1)/2, each a ground SMT obligation against the rational "
                       "closed form; positivity of the weights, quadratic scaling, translation/scaling to other intervals and the "
                       "curve-aware variant on straight segments are obligations on the same data.")
    chk.assume("closed forms: H^1/2: sum_{i<p,j<q} 1/((i+j+1)(p+q-1-i-j)); H^1/4: sum (Beta(n+1,3/2)+Beta(m+1,3/2))/(m+n+5/2), "
               "from (x^p-y^p)/(x-y) = sum x^i y^(p-1-i) (hand derivation, listed as trusted)",
               "Gauss-Legendre nodes come from numpy at run time and enter as the exact rationals of their doubles (hence 1e-12, not 1e-30)",
               "h**(1/2) in seminorm_h_1_4 is a floating-point power: intervals restricted to perfect-square lengths so that it is exact",
               "all intervals [a,b]: the real bodies are also executed on indeterminates (a, h) with an uninterpreted integrand; the scaling "
               "identity value(f; a, a+h) == h^s value(f o phi; 0, 1) is discharged by sympy (computer algebra as back end, not SMT); with "
               "the mathematical scaling of the exact seminorms (trusted) it transports the [0,1] exactness to every interval",
               "double-precision rounding of a + h*points for |a| >> h is outside the exact-arithmetic statement")
    chk.trust("z3 rational arithmetic", "CPython fractions / numpy object arrays")
    add_obligations(chk, tier, seed)
    guarded(chk, 'bounded part seminorm call histories', history_clauses, chk)
    from bounded import corner_ref
    guarded(chk, 'bounded part corner_ref.run', corner_ref.run, chk, tier, seed)
    return chk.finish()


def add_obligations(chk, tier, seed):
    """the proved part (Mode Q + symbolic-interval clauses) of the seminorm routines; also run by the C09 check, whose patch values are
    calls of these routines (a change inside a callee is noticed only by the callee's own contract)"""
    orders12 = list(range(1, 22, 2))
    orders14 = list(range(1, 24, 2))
    tasks = [(task, ("h12", N, tier)) for N in orders12] + [(task, ("h14", N, tier)) for N in orders14]
    tasks += [(sym_task, ("h12", N, tier)) for N in orders12] + [(sym_task, ("h14", N, tier)) for N in orders14]
    tasks += [(sym_task, ("curve", N, tier)) for N in ((3, 7) if tier == "quick" else (3, 7, 11, 15))]
    tasks += [(curve_task, (N, tier)) for N in ((3, 7, 11) if tier == "quick" else orders12)]
    tasks += [(pw_task, (N, tier)) for N in ((3, 7, 11, 21) if tier == "quick" else orders12)]
    chk.under_contract("src.norms:Slobodeckij.__init__", "src.norms:Slobodeckij.seminorm_h_1_2", "src.norms:Slobodeckij.seminorm_h_1_4")
    ctx = mp.get_context("fork")
    with ctx.Pool(min(16, os.cpu_count() or 4)) as pool:
        results = list(pool.imap_unordered(_safe, tasks, 1))
    queries, meta = [], {}
    for args, res in results:
        if isinstance(res, str):
            ob = Ob("C14/src.norms:Slobodeckij/{}/constructs-and-evaluates".format(args), FAILED, backend="cpython-exhaustive",
                    detail=dict(error=res))
            N = args[1] if isinstance(args[0], str) else args[0]
            attach(ob, "from src.norms import Slobodeckij\nraises_is_violation = True\nS = Slobodeckij({n}, {m})\n"
                       "v = S.seminorm_h_1_4(lambda x: x, 0., 1.); w = S.seminorm_h_1_2(lambda x: x, 0., 1.)\nviolated = False\n".format(
                           n=N, m=min(N, 21)), True)
            settle_crash(ob)
            chk.add(ob)
            continue
        for name, kind, val, want, ref in res:
            if kind == "sym":
                if val:
                    chk.add(Ob(name, DISCHARGED, backend="sympy-expand (polynomial identity in a, h over uninterpreted F)"))
                else:
                    ob = Ob(name, FAILED, backend="sympy-expand", detail=dict(reason=want))
                    attach(ob, SCALE_REPLAY, bucket="sym")
                    if str(want).startswith("the body is not pure arithmetic"):
                        # the body could not be executed on indeterminates (a comparison on a scale-dependent quantity, or merely a
                        # construct outside symbolic execution such as a preallocated buffer): a violation only when the replay over
                        # extreme scales finds a failing interval on the real code, otherwise undecided
                        settle_crash(ob, bucket="sym")
                    chk.add(ob)
                continue
            if kind == "pos":
                text = "(set-logic ALL)\n(assert (not (> {} 0.0)))\n(check-sat)".format(qmode.q(val))
            elif kind == "eq":
                tol = REL * abs(want) if want != 0 else Fraction(1, 10 ** 13)
                text = "(set-logic ALL)\n(assert (not (and (<= (- {v} {w}) {t}) (<= (- {w} {v}) {t}))))\n(check-sat)".format(
                    v=qmode.q(val), w=qmode.q(want), t=qmode.q(tol))
            else:
                # |val - want| <= 1e-12 * sqrt(B(p,p) B(q,q))   <=>   (val - want)^2 <= 1e-24 * ref   (ref = squared scale)
                if ref == 0:
                    text = "(set-logic ALL)\n(assert (not (and (<= (- {v} {w}) {t}) (<= (- {w} {v}) {t}))))\n(check-sat)".format(
                        v=qmode.q(val), w=qmode.q(want), t=qmode.q(Fraction(1, 10 ** 13)))
                else:
                    text = "(set-logic ALL)\n(assert (not (<= (* (- {v} {w}) (- {v} {w})) (* {r} {t}))))\n(check-sat)".format(
                        v=qmode.q(val), w=qmode.q(want), r=qmode.q(ref), t=qmode.q(REL * REL))
            queries.append((name, text))
            meta[name] = (args, val, want)
    out = smt.solve_many(queries)
    for name, text in queries:
        st, be, dt, info = out[name]
        if st == "unsat":
            chk.add(Ob(name, DISCHARGED, backend=be, seconds=dt))
        elif st == "sat":
            args, val, want = meta[name]
            ob = Ob(name, FAILED, backend=be, seconds=dt, detail=dict(got=float(val), want=float(want) if want is not None else None))
            attach(ob, replay_code(name))
            chk.add(ob)
        else:
            chk.add(Ob(name, UNDECIDED if st != "error" else ERROR, backend=be, seconds=dt, detail=dict(info=str(info)[:200])))
    chk.vacuity = dict(orders_h12=orders12, orders_h14=orders14, ground_obligations=len(queries))
    chk.under_contract("src.norms:Slobodeckij.seminorm_h_1_2_pw")
    smt.close_pool()


HISTORY_CODE = '''
import numpy as np
from src.norms import Slobodeckij
from src.parametrization import UnitSquare, Circle
bad = []
f = lambda x: 1.0 + x + 0.5 * x ** 2
def fresh(n4, n2, meth, *args):
    return getattr(Slobodeckij(n4, n2), meth)(*args)
cases = [("seminorm_h_1_4", (f, 0.25, 1.5)), ("seminorm_h_1_2", (f, 0.25, 1.5)), ("seminorm_h_1_4", (f, 2.0, 2.0625)), ("seminorm_h_1_2", (f, 2.0, 2.0625))]
# (1) several objects of different orders alive at once, interleaved calls, repeated calls: every value == the value from a new object
objs = [Slobodeckij(5, 9), Slobodeckij(11), Slobodeckij(9, 5), Slobodeckij(5, 9)]
orders = [(5, 9), (11, 11), (9, 5), (5, 9)]
for rnd in range(2):
    for meth, args in (cases if rnd == 0 else cases[::-1]):
        for S, (n4, n2) in zip(objs, orders):
            v = getattr(S, meth)(*args)
            if v != fresh(n4, n2, meth, *args):
                bad.append(("value-depends-on-other-objects-or-earlier-calls", meth, (n4, n2), args[1:], float(v)))
# (2) an integrand that itself evaluates a seminorm with the SAME object (re-entrant use)
S = Slobodeckij(7)
inner14, inner12 = S.seminorm_h_1_4(f, 2.0, 2.75), S.seminorm_h_1_2(f, 2.0, 2.75)
for meth, inner_meth, inner in (("seminorm_h_1_4", "seminorm_h_1_2", inner12), ("seminorm_h_1_2", "seminorm_h_1_4", inner14),
                                ("seminorm_h_1_2", "seminorm_h_1_2", inner12), ("seminorm_h_1_4", "seminorm_h_1_4", inner14)):
    plain = getattr(S, meth)(f, 0.25, 1.5)
    def g(x, S=S, inner_meth=inner_meth):
        w = getattr(S, inner_meth)(f, 2.0, 2.75)
        return f(x) * (w / w)
    nested = getattr(S, meth)(g, 0.25, 1.5)
    if abs(nested - plain) > 1e-12 * abs(plain):
        bad.append(("nested-use-of-one-object", meth, inner_meth, float(nested), float(plain)))
# (3) an integrand may keep the node array it was given; later calls do not change it
kept = []
S.seminorm_h_1_2(lambda x: (kept.append(x), f(x))[1], 0.25, 1.5)
snaps = [np.array(k, copy=True) for k in kept]
S.seminorm_h_1_2(f, 3.0, 4.0); S.seminorm_h_1_4(f, 3.0, 4.0)
if not all(np.array_equal(k, s0) for k, s0 in zip(kept, snaps)):
    bad.append(("node-array-handed-to-the-integrand-changed-by-a-later-call",))
# (4) curve-aware and two-piece variants: repeated / interleaved calls on two curves
sq, ci = UnitSquare(), Circle()
fg = lambda x, gamma: 1.0 + gamma(x)[0] * 0.5 + gamma(x)[1] ** 2
def curve_vals(S):
    return (S.seminorm_h_1_2(fg, 0.25, 0.75, sq.pw_gamma[0]), S.seminorm_h_1_2(fg, 0.25, 0.75, ci.pw_gamma[0]),
            S.seminorm_h_1_2_pw(fg, 0.5, 1.0, sq.pw_gamma[0], 1.0, 1.5, sq.pw_gamma[1]))
ref = curve_vals(Slobodeckij(9))
S9 = Slobodeckij(9)
for k in range(2):
    got = curve_vals(S9)[::-1][::-1] if k == 0 else tuple(reversed(tuple(reversed(curve_vals(S9)))))
    if got != ref:
        bad.append(("curve-aware-value-depends-on-earlier-calls", k, tuple(map(float, got)), tuple(map(float, ref))))
# (5) parametrisations come and go while one Slobodeckij object lives on: a curved piece is used and dropped, then a newly built
# straight segment (which may get the dropped object's address) is evaluated over the same interval
from src.parametrization import line, circle
import gc
Slong = Slobodeckij(9)
fgl = lambda x, gamma: 1.0 + x + 0.5 * x ** 2
rng = np.random.RandomState(3)
for trial in range(12):
    a_, b_ = 0.25, 0.25 + 0.5 * (1 + trial % 3)
    r = 0.3 + 0.2 * (trial % 4)
    def curved(x, r=r):
        return np.array([r * np.cos(np.asarray(x) / r), r * np.sin(np.asarray(x) / r)])
    Slong.seminorm_h_1_2(fgl, a_, b_, curved)
    del curved
    gc.collect()
    p0 = rng.uniform(-3, 3, size=2)
    ang = rng.uniform(0, 2 * np.pi)
    seg, _ = line(p0, p0 + 4.0 * np.array([np.cos(ang), np.sin(ang)]))
    got = Slong.seminorm_h_1_2(fgl, a_, b_, seg)
    want = Slobodeckij(9).seminorm_h_1_2(fgl, a_, b_, seg)
    if got != want:
        bad.append(("value-depends-on-a-parametrisation-that-no-longer-exists", trial, float(got), float(want)))
    del seg
observed = bad[:6]
violated = len(bad) > 0
'''


def history_clauses(chk):
    """bounded run-time clauses on the real code (doubles): the seminorm routines are functions of their arguments -- several
    Slobodeckij objects alive at once, interleaved and repeated calls, nested use of one object, kept node arrays"""
    from vlib.replay import run_replay
    res = run_replay(HISTORY_CODE, True)
    name = "C14/bounded/src.norms:Slobodeckij/values-independent-of-other-objects-earlier-calls-and-nested-use"
    if res.get("violated"):
        chk.add(Ob(name, FAILED, kind="bounded", backend="runtime-contract", detail=dict(observed=res.get("observed"), error=res.get("error")),
                   replay=dict(code=HISTORY_CODE, raises_is_violation=True, outcome=res, confirmed=True)))
    else:
        chk.add(Ob(name, DISCHARGED, kind="bounded", backend="runtime-contract"))
    chk.add_bounded("seminorm call histories", 2 * 4 * 4 + 4 + 1 + 2, 4,
                    "four objects of orders (5,9), (11,11), (9,5), (5,9); intervals [0.25,1.5], [2,2.0625]; nested use on [2,2.75]; unit square and circle pieces",
                    "every value == the value from a newly constructed object (bitwise); nested == plain (1e-12); kept node arrays unchanged", [name])


def replay_code(name):
    """double-precision replay on the real module for the unit-interval diagonal clauses"""
    return '''
import re, math
from fractions import Fraction
import sys
sys.path.insert(1, "/verif")
from checks import c14
from src.norms import Slobodeckij
name = {name!r}
m = re.search(r"Slobodeckij\\.(seminorm_h_1_[24])/N=(\\d+)/\\[(.*?),(.*?)\\]/exact-on-polynomials/x\\^(\\d+)\\*x\\^(\\d+)", name)
violated = False
observed = "clause has no double-precision replay"
if m:
    meth, N, a, b, p, q = m.group(1), int(m.group(2)), Fraction(m.group(3)), Fraction(m.group(4)), int(m.group(5)), int(m.group(6))
    S = Slobodeckij(N if meth.endswith("4") else 1, N if meth.endswith("2") else 1)
    fa, fb, h = float(a), float(b), float(b - a)
    f = getattr(S, meth)
    mono = lambda k: (lambda x: ((x - fa) / h) ** k)
    Qp, Qq = f(mono(p), fa, fb), f(mono(q), fa, fb)
    val = Qp if p == q else (f(lambda x: mono(p)(x) + mono(q)(x), fa, fb) - Qp - Qq) / 2
    closed = c14.B12 if meth.endswith("2") else c14.B14
    scale = 1.0 if meth.endswith("2") else math.sqrt(h)
    want = float(closed(p, q)) * scale
    ref = math.sqrt(float(closed(p, p) * closed(q, q))) * scale
    observed = dict(got=float(val), want=want, rel=abs(val - want) / max(ref, 1e-300))
    violated = abs(val - want) > 1e-11 * max(ref, 1e-13)
'''.format(name=name)
