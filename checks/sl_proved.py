"""Proved (ideal-arithmetic) clauses shared by C01 / C07 / C11 / C12."""
from pyvc.driver import verify_contracts, ENGINE_ASSUMPTIONS
from pyvc import arrays, extio
from contracts import common, sl_integrate


def add_obligations(chk, prop, tier, seed):
    chk.assume(*ENGINE_ASSUMPTIONS)
    if prop in ("C01", "C11", "C12"):
        eng = common.new_engine(sl_integrate.contracts, prop)
        arrays.install(eng)
        sl_integrate.install(eng)
        sl_integrate.install_bilform_spec(eng)
        verify_contracts(eng, [c for c in sl_integrate.contracts if prop in c.props and c.setup], chk)
    if prop in ("C01", "C11"):
        eng = common.new_engine(sl_integrate.stk_contracts, prop)
        sl_integrate.install(eng)
        verify_contracts(eng, [c for c in sl_integrate.stk_contracts if prop in c.props and c.setup], chk)
    if prop == "C01":
        # the value of an entry also rests on the analytic double time integration (four-term K2) and on the closed-form
        # wrappers f(b,d) - f(b,c) + f(a,c) - f(a,d) of the straight-side path: the same contracts as under C04
        from contracts import single_layer
        eng = common.new_engine(single_layer.contracts, prop)
        arrays.install(eng)
        single_layer.install_spec(eng)
        want = ("double_time_integrated_kernel", "spacetime_integrated_kernel_1", "spacetime_integrated_kernel_2",
                "spacetime_integrated_kernel_3", "spacetime_integrated_kernel_4", ":sign")
        verify_contracts(eng, [c for c in single_layer.contracts if c.setup and c.target.endswith(want)], chk)
    if prop == "C07":
        from contracts import sl_evaluate
        eng = common.new_engine(sl_evaluate.contracts, prop)
        arrays.install(eng)
        sl_integrate.install(eng)
        sl_evaluate.install(eng)
        verify_contracts(eng, [c for c in sl_evaluate.contracts if prop in c.props and c.setup], chk)
    from vlib import smt
    smt.close_pool()
