"""C19 — bounded explorer part (DESIGN 4.C19); proved local clauses are added by contracts/mesh.py when present."""
from vlib.core import Check, guarded


def run(tier, seed):
    chk = Check("C19", tier, seed, "other", "./check C19 --tier " + tier)
    try:
        from checks import c19_proved
        guarded(chk, 'proved part c19_proved', c19_proved.add_obligations, chk, tier, seed)
    except ImportError:
        chk.notes.append("proved local clauses not built yet")
    from bounded import mesh_explorer
    guarded(chk, 'bounded part mesh_explorer.run', mesh_explorer.run, chk, "C19", tier, seed)
    return chk.finish()
