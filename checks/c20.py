"""C20 — h-h/2 and hierarchical estimators equal their definitions (DESIGN 4.C20)."""
from vlib.core import Check, guarded
from pyvc.driver import verify_contracts, ENGINE_ASSUMPTIONS
from pyvc import arrays, extio
from pyvc.engine import Ext
from contracts import common, estimators


def engine(contracts):
    eng = common.new_engine(contracts, "C20")
    arrays.install(eng)
    extio.install(eng)
    estimators.install(eng)
    eng.externals["np"].fn["linalg"] = Ext("linalg", {"solve": Ext("solve", estimators.solve_ext)})
    return eng


def run(tier, seed):
    chk = Check("C20", tier, seed, "proof", "./check C20 --tier " + tier)
    chk.explanation = ("Proved for element lists of ANY length (loop invariant over the coarse list, quarters identified by their position "
                       "in the flattened list, DOT terms over the shared dimension) and again fully unfolded for N = 2: the virtual quartering produces, "
                       "in this order, the (time half k//2, space half k%2) quarters carrying the parent's piece; the hierarchical "
                       "indicators equal (e_t + e_ts/2, e_s + e_ts/2) with e_psi = |<g - M0u0 - V Phi, psi>|^2 / <V psi, psi> for the three "
                       "geometrically defined two-level functions; the h-h/2 value equals sqrt(d^T A d) for d = fine Galerkin solution minus "
                       "the piecewise-constant extension. Bounded: agreement with an independent computation on a really bisected mesh.")
    chk.assume(*ENGINE_ASSUMPTIONS)
    eng = engine(estimators.contracts)
    verify_contracts(eng, [c for c in estimators.contracts if c.setup], chk)
    eng = engine(estimators.hier_contracts)
    verify_contracts(eng, [c for c in estimators.hier_contracts if c.setup], chk)
    eng = engine(estimators.hh2_contracts)
    verify_contracts(eng, [c for c in estimators.hh2_contracts if c.setup], chk)
    from contracts import hier_n
    for cs in (hier_n.hier_contracts, hier_n.hh2_contracts):
        eng = common.new_engine(cs, "C20")
        arrays.install(eng)
        extio.install(eng)
        hier_n.install(eng)
        verify_contracts(eng, [c for c in cs if c.setup], chk)
    from contracts import prolongate
    eng = common.new_engine(prolongate.contracts, "C20")
    arrays.install(eng)
    extio.install(eng)
    prolongate.install(eng)
    verify_contracts(eng, prolongate.contracts, chk)
    from vlib import smt
    smt.close_pool()
    try:
        from bounded import estimator_rel
        guarded(chk, 'bounded part estimator_rel.run_c20', estimator_rel.run_c20, chk, tier, seed)
        guarded(chk, 'bounded part estimator_rel.run_prolongate', estimator_rel.run_prolongate, chk, tier, seed)
    except ImportError:
        chk.notes.append("bounded comparison with real bisection not built yet")
    return chk.finish()
