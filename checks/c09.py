"""C09 — Sobolev and weighted-L2 indicators (DESIGN 4.C09)."""
from vlib.core import Check, guarded
from pyvc.driver import verify_contracts, ENGINE_ASSUMPTIONS
from pyvc import arrays, extio
from contracts import common, error_estimator


def run(tier, seed):
    chk = Check("C09", tier, seed, "other", "./check C09 --tier " + tier)
    chk.explanation = ("Proved (ideal arithmetic): every seminorm call made for a space patch receives a connected arc inside one piece "
                       "(same-piece branch) or two meeting pieces (two-piece branch), ordered left/right through the seam; time patches use the "
                       "union in time and the intersection in space on one piece; the weighted-L2 pair equals (h_t^-1/2, h_x^-1) times the "
                       "squared L2 norm. Bounded: indicator values against rotated/reflected twins, pool vs serial, symmetry shortcut vs full "
                       "evaluation.")
    chk.assume(*ENGINE_ASSUMPTIONS)
    eng = common.new_engine(error_estimator.contracts, "C09")
    arrays.install(eng)
    extio.install(eng)
    error_estimator.install(eng)
    verify_contracts(eng, [c for c in error_estimator.contracts if c.setup], chk)
    eng2 = common.new_engine(error_estimator.accumulation_contracts, "C09")
    arrays.install(eng2)
    extio.install(eng2)
    error_estimator.install_accumulation(eng2)
    verify_contracts(eng2, [c for c in error_estimator.accumulation_contracts if c.setup], chk)
    from contracts import estimator_init
    eng3 = common.new_engine(estimator_init.contracts, "C09")
    arrays.install(eng3)
    extio.install(eng3)
    estimator_init.install(eng3)
    guarded(chk, 'proved part estimator_init', verify_contracts, eng3, [c for c in estimator_init.contracts if c.setup], chk)
    from vlib import smt
    smt.close_pool()
    # the patch values are calls of the Slobodeckij routines: their contracts (C14: exactness on [0,1], scaling identity for all
    # (a, h), curve-aware == flat) are part of what C09 relies on; a change inside them is only visible to their own obligations
    from checks import c14
    chk.assume("callee contracts of src.norms:Slobodeckij (C14's proved clauses) are re-discharged in this check")
    guarded(chk, 'proved part seminorm routines (contracts of C14)', c14.add_obligations, chk, tier, seed)
    guarded(chk, 'bounded part seminorm call histories (C14)', c14.history_clauses, chk)
    try:
        from bounded import estimator_rel
        guarded(chk, 'bounded part estimator_rel.run_c09', estimator_rel.run_c09, chk, tier, seed)
    except ImportError:
        chk.notes.append("bounded relational part for C09 not built yet")
    return chk.finish()
