from checks import c02_proved


def add_obligations(chk, tier, seed):
    c02_proved.add_obligations(chk, tier, seed, prop="C10")
