"""C17 — assembly paths, schedules, cache (DESIGN 4.C17)."""
from vlib.core import Check, guarded
from pyvc.driver import verify_contracts, ENGINE_ASSUMPTIONS
from pyvc import arrays, extio
from contracts import common, assembly


def build_engine(prop):
    eng = common.new_engine(assembly.contracts, prop)
    arrays.install(eng)
    extio.install(eng)
    assembly.install_spec(eng)
    return eng


def run(tier, seed):
    chk = Check("C17", tier, seed, "proof", "./check C17 --tier " + tier)
    chk.explanation = ("Proved (unbounded): each of the inline / serial / pool paths of bilform_matrix and linform_vector establishes "
                       "forall i, j: result[i, j] == bilform(trial_j, test_i) (rows = test, columns = trial) resp. result[j] == linform(elems[j]) "
                       "by quantified loop invariants; the cache protocol (load raises or returns the file under the canonical key; "
                       "save stores the postcondition matrix under the canonical key; no exception escapes) is proved over an abstract "
                       "file store. Bounded: bitwise equality on the real code over fault classes and worker counts.")
    eng = build_engine("C17")
    cs = [c for c in assembly.contracts if "C17" in c.props]
    chk.assume(*ENGINE_ASSUMPTIONS)
    verify_contracts(eng, cs, chk)
    from vlib import smt
    smt.close_pool()
    from bounded import cache_faults
    guarded(chk, 'bounded part cache_faults.run', cache_faults.run, chk, tier, seed)
    return chk.finish()
