"""C16 — domain quadtree (DESIGN 4.C16)."""
from vlib.core import Check, guarded


def run(tier, seed):
    chk = Check("C16", tier, seed, "exploration", "./check C16 --tier " + tier)
    try:
        from checks import c16_proved
        guarded(chk, 'proved part c16_proved', c16_proved.add_obligations, chk, tier, seed)
    except ImportError:
        chk.notes.append("proved local clauses not built yet")
    from bounded import initial_explorer
    guarded(chk, 'bounded part initial_explorer.run', initial_explorer.run, chk, tier, seed)
    from bounded import bdr_via_curve
    guarded(chk, 'bounded part bdr_via_curve.run', bdr_via_curve.run, chk, tier, seed)
    return chk.finish()
