"""C03 — Galerkin orthogonality (DESIGN 4.C03)."""
from vlib.core import Check, GeneratorError, guarded
from pyvc.driver import verify_contracts, ENGINE_ASSUMPTIONS
from pyvc import arrays, extio
from pyvc.engine import Ext
from contracts import common, estimators, driver


def run(tier, seed):
    chk = Check("C03", tier, seed, "other", "./check C03 --tier " + tier)
    chk.explanation = ("Proved (ideal arithmetic, all values symbolic; driver statements with two elements, the residual closure additionally for element lists of arbitrary length): the driver statements extracted from example.py give "
                       "rhs == -<M0u0,1_i> + <g,1_i>, mat rows = test / columns = trial, Phi solves the system, and the estimator's residual "
                       "equals sum_j Phi_j (V 1_j) + M0u0 - g pointwise with the same element order and a harmless causality skip; by linearity "
                       "of the element mean and the consistency contracts of C07/C01/C08 the residual has zero mean per element. Bounded: the "
                       "number itself on the shipped problem x domain combinations.")
    chk.assume(*ENGINE_ASSUMPTIONS)
    eng = common.new_engine(driver.contracts, "C03")
    arrays.install(eng)
    extio.install(eng)
    estimators.install(eng)
    driver.install(eng)
    eng.externals["np"].fn["linalg"] = Ext("linalg", {"solve": Ext("solve", estimators.solve_ext)})
    try:
        driver.extract_driver(eng)
        chk.extraction_drops.append("example.py __main__ loop body: kept {picked} statements (mat, rhs and its updates, Phi, residual), dropped "
                                    "{dropped} (printing, gmsh dumps, timing, trace error, estimators, rate tables, marking/refinement)".format(
                                        **eng.ghost_extraction))
        verify_contracts(eng, [c for c in driver.contracts if c.setup], chk)
    except GeneratorError as e:
        chk.error(str(e))
    # the residual closure for element lists of arbitrary length (loop invariant over a recursive partial-sum spec function)
    from contracts import residual_n
    eng = common.new_engine(residual_n.contracts, "C03")
    arrays.install(eng)
    extio.install(eng)
    residual_n.install(eng)
    guarded(chk, 'proved part residual_n', verify_contracts, eng, [c for c in residual_n.contracts if c.setup], chk)
    # the extracted driver statements for an element list of arbitrary length (callee contracts; the residual call is linked to
    # the contract above through its arguments)
    def driver_n():
        eng2 = common.new_engine(residual_n.driver_contracts, "C03")
        arrays.install(eng2)
        extio.install(eng2)
        residual_n.install_driver(eng2)
        driver.extract_driver(eng2)
        verify_contracts(eng2, [c for c in residual_n.driver_contracts if c.setup], chk)
    guarded(chk, 'proved part driver_n', driver_n)

    def data():
        from contracts import problems_data
        eng3 = common.new_engine(problems_data.contracts, "C03")
        arrays.install(eng3)
        extio.install(eng3)
        problems_data.install(eng3)
        verify_contracts(eng3, problems_data.contracts, chk)
    guarded(chk, 'proved part problems_data', data)
    # (A1) the matrix entries themselves: bilform / __integrate under the contracts of C01 (tiling, rule premise, orientation;
    # any change of bilform's value for some pair of elements breaks the consistency that C03 composes)
    from checks import sl_proved
    guarded(chk, 'proved part bilform (contracts of C01)', sl_proved.add_obligations, chk, "C01", tier, seed)
    # link (A2): the load vector is InitialOperator.linform per element; its contract (C08's proved clauses) is discharged here too
    from checks import c08
    guarded(chk, 'proved part linform (contracts of C08)', c08.add_obligations, chk)
    from vlib import smt
    smt.close_pool()
    try:
        from bounded import potential_rel
        guarded(chk, 'bounded part potential_rel.run', potential_rel.run, chk, "C03", tier, seed)
    except ImportError:
        chk.notes.append("bounded part (potential_rel) not built yet")
    return chk.finish()
