"""C16 proved local clauses."""
from pyvc.driver import verify_contracts, ENGINE_ASSUMPTIONS
from pyvc import arrays
from contracts import common, initial_mesh_local


def add_obligations(chk, tier, seed):
    chk.assume(*ENGINE_ASSUMPTIONS)
    eng = common.new_engine([], "C16")
    arrays.install(eng)
    initial_mesh_local.install(eng)
    verify_contracts(eng, initial_mesh_local.contracts, chk)
    # one descent step of refine_msh_bdr (cut at the body of its while loop), with InitialMesh.refine replaced by its contract
    from contracts import initial_bdr
    eng2 = common.new_engine(initial_bdr.contracts, "C16")
    arrays.install(eng2)
    initial_bdr.install(eng2)
    verify_contracts(eng2, [c for c in initial_bdr.contracts if c.setup], chk)
    from vlib import smt
    smt.close_pool()
