"""C16 proved local clauses."""
from pyvc.driver import verify_contracts, ENGINE_ASSUMPTIONS
from pyvc import arrays
from contracts import common, initial_mesh_local


def add_obligations(chk, tier, seed):
    chk.assume(*ENGINE_ASSUMPTIONS)
    eng = common.new_engine([], "C16")
    arrays.install(eng)
    initial_mesh_local.install(eng)
    verify_contracts(eng, initial_mesh_local.contracts, chk)
    from vlib import smt
    smt.close_pool()
