"""C06 proved part: the marking loop (isotropic) as a cut of dorfler_refine_isotropic."""
from pyvc.driver import verify_contracts, ENGINE_ASSUMPTIONS
from pyvc import arrays, extio
from contracts import common, mesh_loops


def add_obligations(chk, tier, seed):
    chk.assume(*ENGINE_ASSUMPTIONS)
    eng = common.new_engine(mesh_loops.contracts, "C06")
    arrays.install(eng)
    extio.install(eng)
    mesh_loops.install(eng)
    mesh_loops.install_dorfler(eng)
    verify_contracts(eng, [c for c in mesh_loops.contracts if "C06" in c.props and c.setup], chk)
    eng2 = common.new_engine(mesh_loops.contracts, "C06")
    arrays.install(eng2)
    extio.install(eng2)
    mesh_loops.install(eng2)
    mesh_loops.install_aniso(eng2)
    verify_contracts(eng2, [mesh_loops.aniso_contract], chk)
    from vlib import smt
    smt.close_pool()
