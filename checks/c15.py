"""C15 — derived quadrature schemes preserve measure and polynomial exactness (DESIGN 4.C15).

Mode Q (finite, exhaustive per rule): the real constructors and the real `integrate` of src/quadrature.py are
executed on numpy object arrays of exact rationals (literals of src/quadrature_rules.py as written); every
(base rule, constructor / mirror combination, monomial) yields a ground rational obligation for z3.
Mode S (all boxes, all rules): contracts on integrate / mirror / constructors, see contracts/quadrature.py.
"""
import itertools
import multiprocessing as mp
import os
from fractions import Fraction

from vlib import qmode, smt
from vlib.core import Ob, Check, DISCHARGED, FAILED, UNDECIDED, ERROR, GeneratorError, REPO, guarded
from vlib.replay import attach, settle_crash

TOL = Fraction(1, 10 ** 27)
ZERO, ONE = Fraction(0), Fraction(1)

FAMILIES = {"log": ("log_quadrature_rule", "log_quadrature_scheme"),
            "log_log": ("log_log_quadrature_rule", "log_log_quadrature_scheme"),
            "sqrt": ("sqrt_quadrature_rule", "sqrt_quadrature_scheme"),
            "sqrtinv": ("sqrtinv_quadrature_rule", "sqrtinv_quadrature_scheme")}


def monomials(dim, deg):
    for e in itertools.product(range(deg + 1), repeat=dim):
        if sum(e) <= deg:
            yield e


def mono_fun(e):
    if len(e) == 1:
        return lambda x: x ** e[0]
    if len(e) == 2:
        return lambda x: x[0] ** e[0] * x[1] ** e[1]
    return lambda x: x[0] ** e[0] * x[1] ** e[1] * x[2] ** e[2]


def exact(e):
    r = Fraction(1)
    for k in e:
        r /= (k + 1)
    return r


def mirror_exact(e, flips):
    """integral over the unit cube of prod (x_d or 1 - x_d)^e_d is the same as without flips"""
    return exact(e)


def task(args):
    """one (family, key): run the real constructors in exact arithmetic, return list of (name, S, m, tol)"""
    fam, key, tier = args
    P = qmode.load_exact_package("text")
    Q = P.quadrature
    out = []
    base = getattr(Q, FAMILIES[fam][1])(*key)
    p = key[0]
    n = len(base.weights)
    tag = "C15/src.quadrature:{}/{}{}".format("{}", fam, str(key).replace(" ", ""))

    def rec(cons, clause, S, m):
        out.append((tag.format(cons) + "/" + clause, S, m))

    # 1-D: weights sum, exactness, mirror
    rec("QuadScheme1D", "weights-sum-to-measure", sum(base.weights), ONE)
    for e in monomials(1, p):
        rec("QuadScheme1D.integrate", "exact/x^{}".format(e[0]), base.integrate(mono_fun(e), ZERO, ONE), exact(e))
        rec("QuadScheme1D.mirror", "exact/x^{}".format(e[0]), base.mirror().integrate(mono_fun(e), ZERO, ONE), exact(e))
    mm = base.mirror().mirror()
    rec("QuadScheme1D.mirror", "mirror-twice-gives-back-points", sum(abs(a - b) for a, b in zip(mm.points, base.points)), ZERO)
    rec("QuadScheme1D.mirror", "mirror-keeps-weights", sum(abs(a - b) for a, b in zip(base.mirror().weights, base.weights)), ZERO)
    # 2-D tensor and mirrors
    p2 = Q.ProductScheme2D(base)
    rec("ProductScheme2D", "weights-sum-to-measure", sum(p2.weights), ONE)
    variants = {"id": p2, "mirror_x": p2.mirror_x(), "mirror_y": p2.mirror_y(), "mirror_x.mirror_y": p2.mirror_x().mirror_y()}
    for vname, sch in variants.items():
        for e in monomials(2, p):
            if vname != "id" and tier == "quick" and sum(e) not in (p, p - 1, 0, 1):
                continue
            rec("ProductScheme2D." + vname, "exact/x^{}y^{}".format(*e), sch.integrate(mono_fun(e), ZERO, ONE, ZERO, ONE), exact(e))
    m2 = p2.mirror_x().mirror_x()
    rec("QuadScheme2D.mirror_x", "mirror-twice-gives-back-points",
        sum(abs(a - b) for a, b in zip(m2.points.flatten(), p2.points.flatten())), ZERO)
    m2 = p2.mirror_y().mirror_y()
    rec("QuadScheme2D.mirror_y", "mirror-twice-gives-back-points",
        sum(abs(a - b) for a, b in zip(m2.points.flatten(), p2.points.flatten())), ZERO)
    rec("QuadScheme2D.mirror_x", "touches-only-x", sum(abs(a - b) for a, b in zip(p2.mirror_x().points[1], p2.points[1])), ZERO)
    rec("QuadScheme2D.mirror_y", "touches-only-y", sum(abs(a - b) for a, b in zip(p2.mirror_y().points[0], p2.points[0])), ZERO)
    # 2-D Duffy
    if p >= 1:
        dn = Q.DuffyScheme2D(p2, symmetric=False)
        ds = Q.DuffyScheme2D(p2, symmetric=True)
        rec("DuffyScheme2D[symmetric=False]", "weights-sum-to-measure", sum(dn.weights), ONE)
        rec("DuffyScheme2D[symmetric=True]", "weights-sum-to-measure", sum(ds.weights), ONE)
        for vname, sch in {"id": dn, "mirror_x": dn.mirror_x(), "mirror_y": dn.mirror_y()}.items():
            for e in monomials(2, p - 1):
                if vname != "id" and tier == "quick" and sum(e) not in (p - 1, p - 2, 0):
                    continue
                rec("DuffyScheme2D[symmetric=False]." + vname, "exact/x^{}y^{}".format(*e),
                    sch.integrate(mono_fun(e), ZERO, ONE, ZERO, ONE), exact(e))
        for e in monomials(2, p - 1):
            if e[0] > e[1]:
                continue
            f = lambda x, e=e: x[0] ** e[0] * x[1] ** e[1] + x[0] ** e[1] * x[1] ** e[0]
            rec("DuffyScheme2D[symmetric=True]", "agrees-with-nonsymmetric-on-symmetric/x^{}y^{}+x^{}y^{}".format(e[0], e[1], e[1], e[0]),
                ds.integrate(f, ZERO, ONE, ZERO, ONE) - dn.integrate(f, ZERO, ONE, ZERO, ONE), ZERO)
            rec("DuffyScheme2D[symmetric=True]", "exact-on-symmetric/x^{}y^{}+x^{}y^{}".format(e[0], e[1], e[1], e[0]),
                ds.integrate(f, ZERO, ONE, ZERO, ONE), 2 * exact(e))
    # 3-D (bounded by node count: n^3 nodes x monomials in exact arithmetic)
    n3max = 5 if tier == "quick" else 9
    if n <= n3max or (fam, key) == ("log", (12, 12)):
        p3 = Q.ProductScheme3D(base)
        deg3 = p if n <= n3max else (2 if tier == "quick" else 4)
        rec("ProductScheme3D", "weights-sum-to-measure", sum(p3.weights), ONE)
        for e in monomials(3, deg3):
            rec("ProductScheme3D", "exact/x^{}y^{}z^{}".format(*e), p3.integrate(mono_fun(e), ZERO, ONE, ZERO, ONE, ZERO, ONE), exact(e))
        # a box with end points exactly 0 and with negative coordinates (the affine map must treat 0 as a number like any other)
        F = type(ONE)
        rec("ProductScheme3D", "box[1,2]x[0,1]x[-1,0]/measure",
            p3.integrate(lambda x: 0 * x[0] + ONE, F(1), F(2), F(0), F(1), F(-1), F(0)), ONE)
        if deg3 >= 1:
            rec("ProductScheme3D", "box[1,2]x[0,1]x[-1,0]/exact/z", p3.integrate(lambda x: x[2], F(1), F(2), F(0), F(1), F(-1), F(0)), F(-1, 2))
            rec("ProductScheme3D", "box[-2,-1]x[-1,0]x[3,4]/exact/y", p3.integrate(lambda x: x[1], F(-2), F(-1), F(-1), F(0), F(3), F(4)), F(-1, 2))
        # node positions of the mirrors, for every order in which the mirrors are requested from one scheme object
        # (the lazily cached mirrors must not alias each other)
        for order in itertools.permutations(("mirror_x", "mirror_y", "mirror_z")):
            q3 = Q.ProductScheme3D(base)
            got = {mn: getattr(q3, mn)() for mn in order}
            for mn in order:      # ask again: must return the same rule
                got[mn + "#2"] = getattr(q3, mn)()
            for mn, sch in got.items():
                cidx = "xyz".index(mn[7])
                dev = ZERO
                for c in range(3):
                    want = (ONE - q3.points[c]) if c == cidx else q3.points[c]
                    dev += sum(abs(a - b) for a, b in zip(sch.points[c], want))
                dev += sum(abs(a - b) for a, b in zip(sch.weights, q3.weights))
                rec("QuadScheme3D." + mn[:8], "reflects-only-its-coordinate/request-order={}/{}".format("".join(o[7] for o in order), mn), dev, ZERO)
        for order in itertools.permutations(("mirror_x", "mirror_y")):
            q2 = Q.ProductScheme2D(base)
            got = {mn: getattr(q2, mn)() for mn in order}
            for mn in order:
                got[mn + "#2"] = getattr(q2, mn)()
            for mn, sch in got.items():
                cidx = "xy".index(mn[7])
                dev = ZERO
                for c in range(2):
                    want = (ONE - q2.points[c]) if c == cidx else q2.points[c]
                    dev += sum(abs(a - b) for a, b in zip(sch.points[c], want))
                dev += sum(abs(a - b) for a, b in zip(sch.weights, q2.weights))
                rec("QuadScheme2D." + mn[:8], "reflects-only-its-coordinate/request-order={}/{}".format("".join(o[7] for o in order), mn), dev, ZERO)
        # chained mirrors on a scheme whose mirrors were all requested before (the returned mirror must be a scheme of its own,
        # with empty caches: s.mirror_a().mirror_b() reflects both coordinates of s)
        for dim, ctor, names in ((3, Q.ProductScheme3D, ("mirror_x", "mirror_y", "mirror_z")), (2, Q.ProductScheme2D, ("mirror_x", "mirror_y"))):
            qs = ctor(base)
            for mn in names:
                getattr(qs, mn)()
            for ma in names:
                for mb in names:
                    sch = getattr(getattr(qs, ma)(), mb)()
                    flip = {"xyz".index(ma[7])} ^ {"xyz".index(mb[7])}      # the same coordinate twice: back to the original
                    dev = ZERO
                    for c in range(dim):
                        want = (ONE - qs.points[c]) if c in flip else qs.points[c]
                        dev += sum(abs(a - b) for a, b in zip(sch.points[c], want))
                    dev += sum(abs(a - b) for a, b in zip(sch.weights, qs.weights))
                    rec("QuadScheme{}D.{}".format(dim, mb), "chained-after-all-mirrors-were-cached/{}.{}".format(ma, mb), dev, ZERO)
        for mname in ("mirror_x", "mirror_y", "mirror_z"):
            sch = getattr(p3, mname)()
            e = (min(deg3, 1), min(deg3, 1), 0) if deg3 >= 2 else (0, 0, 0)
            rec("QuadScheme3D." + mname, "exact/x^{}y^{}z^{}".format(*e), sch.integrate(mono_fun(e), ZERO, ONE, ZERO, ONE, ZERO, ONE), exact(e))
            back = getattr(sch, mname)()
            rec("QuadScheme3D." + mname, "mirror-twice-gives-back-points",
                sum(abs(a - b) for a, b in zip(back.points.flatten(), p3.points.flatten())), ZERO)
        if p >= 2:
            dt = Q.DuffySchemeTouch3D(p3)
            di = Q.DuffySchemeIdentical3D(p3, symmetric_xy=False)
            dis = Q.DuffySchemeIdentical3D(p3, symmetric_xy=True)
            rec("DuffySchemeTouch3D", "weights-sum-to-measure", sum(dt.weights), ONE)
            rec("DuffySchemeIdentical3D[symmetric_xy=False]", "weights-sum-to-measure", sum(di.weights), ONE)
            rec("DuffySchemeIdentical3D[symmetric_xy=True]", "weights-sum-to-measure", sum(dis.weights), ONE)
            for e in monomials(3, min(deg3, p) - 2 if n <= n3max else max(0, deg3 - 2)):
                rec("DuffySchemeTouch3D", "exact/x^{}y^{}z^{}".format(*e), dt.integrate(mono_fun(e), ZERO, ONE, ZERO, ONE, ZERO, ONE), exact(e))
                rec("DuffySchemeIdentical3D[symmetric_xy=False]", "exact/x^{}y^{}z^{}".format(*e),
                    di.integrate(mono_fun(e), ZERO, ONE, ZERO, ONE, ZERO, ONE), exact(e))
                f = lambda x, e=e: x[0] ** e[0] * x[1] ** e[1] * x[2] ** e[2] + x[0] ** e[1] * x[1] ** e[0] * x[2] ** e[2]
                rec("DuffySchemeIdentical3D[symmetric_xy=True]", "agrees-on-xy-symmetric/x^{}y^{}z^{}".format(*e),
                    dis.integrate(f, ZERO, ONE, ZERO, ONE, ZERO, ONE) - di.integrate(f, ZERO, ONE, ZERO, ONE, ZERO, ONE), ZERO)
    return out


def run(tier, seed):
    chk = Check("C15", tier, seed, "proof", "./check C15 --tier " + tier)
    chk.explanation = ("Mode Q: real constructors/integrate of src/quadrature.py executed on exact rationals for every tabulated base rule with "
                       "a polynomial class; each (rule, constructor/mirror combination, monomial) is a ground rational SMT obligation "
                       "(unit cube). Mode S: integrate == vol * DOT(f o affine, weights) for all boxes and all rules, mirrors are "
                       "involutions touching one coordinate, tensor/Duffy index laws.")
    chk.assume("Fraction arithmetic of CPython / numpy object arrays is exact (Mode Q executes the real constructors on dtype=object)",
               "literals are those of the source text (table accuracy 1e-30 is C05's claim); tolerance here 1e-27",
               "A-AFFINE: the affine pull-back of a polynomial of total degree d is a polynomial of total degree d (unit-cube "
               "exactness + the proved affine/scaling law give exactness on every box)",
               "3-D schemes: exhaustive monomial check only for base rules with <= {} nodes; log(12,12) (the rule used by the "
               "initial operator) up to a reduced degree (bounded, stated)".format(5 if tier == "quick" else 9))
    chk.trust("z3 rational arithmetic", "CPython fractions, numpy object-array arithmetic")
    try:
        funcs, lists = qmode.table_keys("src/quadrature_rules.py")
    except GeneratorError as e:
        chk.error(str(e))
        return chk.finish()
    tasks = []
    for fam, (rule_fn, scheme_fn) in FAMILIES.items():
        if rule_fn not in funcs:
            chk.error("table function {} missing".format(rule_fn))
            continue
        for key, _ in funcs[rule_fn]["keys"]:
            if key[0] < 0:
                continue
            tasks.append((fam, key, tier))
    for cons in ("QuadScheme1D", "QuadScheme2D", "ProductScheme2D", "DuffyScheme2D", "QuadScheme3D", "ProductScheme3D",
                 "DuffySchemeIdentical3D", "DuffySchemeTouch3D"):
        chk.under_contract("src.quadrature:" + cons)
    tasks.sort(key=lambda t: -t[1][0])
    ctx = mp.get_context("fork")
    results = []
    with ctx.Pool(min(16, os.cpu_count() or 4)) as pool:
        for res in pool.imap_unordered(_safe_task, tasks, 1):
            results.append(res)
    queries = []
    meta = {}
    for (t, res) in results:
        if isinstance(res, str):
            # the real constructor raised: obligation "constructs" fails
            ob = Ob("C15/src.quadrature:{}{}/constructs-and-integrates".format(t[0], str(t[1]).replace(" ", "")), FAILED,
                    backend="cpython-exhaustive", detail=dict(error=res))
            attach(ob, "from src.quadrature import *\nraises_is_violation=True\ns = {}(*{!r})\np2 = ProductScheme2D(s)\n"
                       "d = DuffyScheme2D(p2, symmetric=False)\nviolated = False\n".format(FAMILIES[t[0]][1], t[1]), True)
            settle_crash(ob)
            chk.add(ob)
            continue
        for name, S, m in res:
            text = "(set-logic ALL)\n(assert (not (and (<= (- {S} {m}) {t}) (<= (- {m} {S}) {t}))))\n(check-sat)".format(
                S=qmode.q(S), m=qmode.q(m), t=qmode.q(TOL))
            queries.append((name, text))
            meta[name] = (t, S, m)
    out = smt.solve_many(queries, opts=dict(no_cvc5=False))
    for name, text in queries:
        st, be, dt, info = out[name]
        if st == "unsat":
            chk.add(Ob(name, DISCHARGED, backend=be, seconds=dt))
        elif st == "sat":
            t, S, m = meta[name]
            ob = Ob(name, FAILED, backend=be, seconds=dt, detail=dict(rule=str(t[:2]), got=float(S), want=float(m), err=float(abs(S - m))))
            attach(ob, replay_code(name, t))
            chk.add(ob)
        else:
            chk.add(Ob(name, UNDECIDED if st != "error" else ERROR, backend=be, seconds=dt, detail=dict(info=str(info)[:200])))
    chk.vacuity = dict(base_rules=len(tasks), ground_obligations=len(queries))
    # Mode S part
    try:
        from contracts import quadrature as cq
        cq.add_obligations(chk)
    except ImportError:
        chk.notes.append("Mode S contracts for src.quadrature not built yet")
    smt.close_pool()
    guarded(chk, 'bounded part re-entrancy of integrate', reentrancy_clauses, chk)
    return chk.finish()


REENTRANCY_CODE = '''
import copy
import numpy as np
from src.quadrature import (gauss_quadrature_scheme, log_quadrature_scheme, ProductScheme2D, DuffyScheme2D, ProductScheme3D,
                            DuffySchemeIdentical3D, DuffySchemeTouch3D)
g5, g7 = gauss_quadrature_scheme(5), gauss_quadrature_scheme(7)
p2 = ProductScheme2D(g5)
schemes2 = {"product(gauss5)": p2, "product(gauss5).mirror_y": p2.mirror_y(), "product(log(4,4) mirrored, gauss5)":
            ProductScheme2D(log_quadrature_scheme(4, 4).mirror(), g5), "duffy(non-symmetric)": DuffyScheme2D(ProductScheme2D(g7), symmetric=False),
            "duffy(non-symmetric).mirror_x": DuffyScheme2D(ProductScheme2D(g7), symmetric=False).mirror_x(),
            "duffy(symmetric).mirror_x.mirror_y": DuffyScheme2D(ProductScheme2D(g7), symmetric=True).mirror_x().mirror_y()}
p3 = ProductScheme3D(g5)
schemes3 = {"product3d(gauss5)": p3, "duffy-identical-3d": DuffySchemeIdentical3D(ProductScheme3D(g5), symmetric_xy=False),
            "duffy-touch-3d": DuffySchemeTouch3D(ProductScheme3D(g5)), "product3d.mirror_z": p3.mirror_z()}
bad = []
Q, K = (0.25, 1.5, -1.0, 0.5), (2.0, 2.75, 0.125, 1.0)
Q3, K3 = Q + (0.5, 1.25), K + (-2.0, -1.5)
def close(a, b):
    return abs(a - b) <= 1e-12 * max(1.0, abs(a), abs(b))
def mono2(i, j):
    return lambda x: x[0] ** i * x[1] ** j
def mono3(i, j, k):
    return lambda x: x[0] ** i * x[1] ** j * x[2] ** k
# (1) an integrand that itself integrates with the SAME scheme object (iterated integral over a pair of boxes): value == product
for name, s in schemes2.items():
    for (i, j), (k, l) in (((0, 0), (0, 0)), ((1, 0), (0, 1)), ((1, 1), (1, 0))):
        outer, inner = s.integrate(mono2(i, j), *Q), s.integrate(mono2(k, l), *K)
        def f(x, s=s, i=i, j=j, k=k, l=l):
            vals = mono2(i, j)(x)
            w = s.integrate(mono2(k, l), *K)
            return vals * w if isinstance(vals, np.ndarray) and vals.shape == np.shape(mono2(i, j)(x)) else vals * w
        def f_late(x, s=s, i=i, j=j, k=k, l=l):                 # inner integral first, then the outer nodes are read
            w = s.integrate(mono2(k, l), *K)
            return mono2(i, j)(x) * w
        for tag, fn in (("nodes-read-first", f), ("nodes-read-after-the-inner-integral", f_late)):
            it = s.integrate(fn, *Q)
            if not close(it, outer * inner):
                bad.append((name, "iterated-integral/" + tag, (i, j, k, l), it, outer * inner))
for name, s in schemes3.items():
    for (i, j, k) in ((0, 0, 0), (1, 0, 1)):
        outer, inner = s.integrate(mono3(i, j, k), *Q3), s.integrate(mono3(k, i, j), *K3)
        def f3(x, s=s, i=i, j=j, k=k):
            w = s.integrate(mono3(k, i, j), *K3)
            return mono3(i, j, k)(x) * w
        it = s.integrate(f3, *Q3)
        if not close(it, outer * inner):
            bad.append((name, "iterated-integral", (i, j, k), it, outer * inner))
# 1-D
for name, s in (("gauss5", g5), ("log(4,4).mirror", log_quadrature_scheme(4, 4).mirror())):
    outer, inner = s.integrate(lambda x: x ** 2, 0.25, 1.5), s.integrate(lambda x: x, 2.0, 2.75)
    it = s.integrate(lambda x, s=s: x ** 2 * s.integrate(lambda y: y, 2.0, 2.75), 0.25, 1.5)
    if not close(it, outer * inner):
        bad.append((name, "iterated-integral-1d", (), it, outer * inner))
# (2) an integrand may keep the node array it was given: a later integrate call on the same scheme, on a copy.copy of it or on its
# mirror does not change it
for name, s in list(schemes2.items()) + list(schemes3.items()):
    kept = []
    box1, box2 = (Q, K) if name in schemes2 else (Q3, K3)
    s.integrate(lambda x: (kept.append(x), np.ones(np.shape(x)[-1]))[1], *box1)
    snap = np.array(kept[0], dtype=float, copy=True)
    s.integrate(lambda x: np.ones(np.shape(x)[-1]), *box2)
    copy.copy(s).integrate(lambda x: np.ones(np.shape(x)[-1]), *box2)
    if not np.array_equal(np.asarray(kept[0], dtype=float), snap):
        bad.append((name, "node-array-handed-to-the-integrand-changed-by-a-later-call", (), None, None))
observed = [b[:3] + tuple(None if v is None else float(v) for v in b[3:]) for b in bad[:6]]
violated = len(bad) > 0
'''


def reentrancy_clauses(chk):
    """bounded run-time clauses on the real code (doubles): the rules stay the rules while they are in use -- nested integrate calls
    on one scheme object (iterated integrals over pairs of boxes, as the singular-pair code does) and integrands that keep their
    node array"""
    from vlib.replay import run_replay
    res = run_replay(REENTRANCY_CODE, True)
    name = "C15/bounded/src.quadrature/integrate-is-re-entrant-and-does-not-share-its-node-array"
    if res.get("violated"):
        chk.add(Ob(name, FAILED, kind="bounded", backend="runtime-contract", detail=dict(observed=res.get("observed"), error=res.get("error")),
                   replay=dict(code=REENTRANCY_CODE, raises_is_violation=True, outcome=res, confirmed=True)))
    elif res.get("error"):
        chk.add(Ob(name, UNDECIDED, kind="bounded", backend="runtime-contract", detail=dict(error=str(res.get("error"))[:400])))
    else:
        chk.add(Ob(name, DISCHARGED, kind="bounded", backend="runtime-contract"))
    chk.add_bounded("integrate re-entrancy", 6 * 6 + 4 * 2 + 2 + 10, 4,
                    "6 two-dimensional, 4 three-dimensional, 2 one-dimensional derived schemes; monomials within the exactness range; boxes "
                    "(0.25,1.5)x(-1,0.5)[x(0.5,1.25)] and (2,2.75)x(0.125,1)[x(-2,-1.5)]",
                    "iterated integral with one scheme object == product of the two integrals (1e-12); a kept node array is unchanged by later calls",
                    [name])


def _safe_task(t):
    try:
        return t, task(t)
    except BaseException as e:
        import traceback
        return t, "{}: {}".format(type(e).__name__, e) + traceback.format_exc()[-400:]


def replay_code(name, t, tier="quick"):
    """re-run the same clause on the real code in double precision (tolerance 1e-10: a clause that fails at 1e-27
    because of a wrong formula fails at 1e-10 as well; a clause that only fails below 1e-10 is reported
    without a failing double-precision input)"""
    return '''
import sys
sys.path.insert(1, "/verif")
from checks import c15
from vlib import qmode
res = c15.task(({fam!r}, {key!r}, {tier!r}))
hit = [(n, float(abs(S - m))) for n, S, m in res if n == {name!r}]
observed = hit
violated = any(err > 1e-27 for n, err in hit)
'''.format(fam=t[0], key=t[1], name=name, tier=t[2])
