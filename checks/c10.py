"""C10 — bounded explorer part (DESIGN 4.C10); proved local clauses are added by contracts/mesh.py when present."""
from vlib.core import Check, guarded


def run(tier, seed):
    chk = Check("C10", tier, seed, "exploration", "./check C10 --tier " + tier)
    try:
        from checks import c10_proved
        guarded(chk, 'proved part c10_proved', c10_proved.add_obligations, chk, tier, seed)
    except ImportError:
        chk.notes.append("proved local clauses not built yet")
    from bounded import mesh_explorer
    guarded(chk, 'bounded part mesh_explorer.run', mesh_explorer.run, chk, "C10", tier, seed)
    return chk.finish()
