"""C02 / C10 proved local clauses (lazily initialised heap shapes)."""
from pyvc.driver import verify_contracts, ENGINE_ASSUMPTIONS
from pyvc import arrays
from contracts import common, mesh_local


def add_obligations(chk, tier, seed, prop="C02"):
    chk.assume(*ENGINE_ASSUMPTIONS)
    eng = common.new_engine([], prop)
    arrays.install(eng)
    mesh_local.install(eng)
    verify_contracts(eng, [c for c in mesh_local.contracts if prop in c.props], chk)
    from vlib import smt
    smt.close_pool()
