#!/bin/bash
# re-run every registered quick check on the current /repo tree and rewrite /verif/evidence (run before committing)
cd /verif
for P in $(.venv/bin/python -c "import json; print(' '.join(c['property_id'] for c in json.load(open('MANIFEST.json'))['checks']))"); do
  ./check $P --tier quick > /tmp/refresh_$P.log 2>&1; e=$?
  echo "$P exit=$e $(tail -1 /tmp/refresh_$P.log | cut -c1-160)"
done
.venv/bin/python - <<'PY'
import json, jsonschema, glob
sch = json.load(open('/root/.vp/EVIDENCE.schema.json'))
for f in sorted(glob.glob('evidence/*.json')):
    e = json.load(open(f))
    try:
        jsonschema.validate(e, sch)
        c = e['coverage']
        ok = (e['level'] != 'proof') or c['obligations'] == c['discharged']
        print(f, 'valid', '' if ok else 'PROOF-COUNT-MISMATCH')
    except Exception as ex:
        print(f, 'INVALID', str(ex)[:100])
PY
