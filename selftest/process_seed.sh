#!/bin/bash
# usage: selftest/process_seed.sh <PID> [worktree]   -- confirm a sub-agent's seeded change and run our check against it
set -u
export VERIF_EVIDENCE_DIR=$(mktemp -d /tmp/stbem_evid.XXXXXX)
trap 'rm -rf "$VERIF_EVIDENCE_DIR"' EXIT
P=$1; WT=${2:-/tmp/wt_seed_$P}; TAG=${3:-$P}
D=/verif/seeded/$TAG
mkdir -p $D
cp $WT/SEED/patch.diff $WT/SEED/demo.py $WT/SEED/meta.json $D/ 2>/dev/null
# keep only the source diff (no SEED files)
S=$(mktemp -d /tmp/stbem_seedchk.XXXXXX)
rsync -a --exclude .git --exclude SEED /repo/ $S/
mkdir -p $S/SEED; cp $D/demo.py $S/SEED/
( cd $S && timeout 900 /venv/bin/python SEED/demo.py >/dev/null 2>&1 ); PRISTINE=$?
( cd $S && patch -p1 -s < $D/patch.diff ) || { echo "patch does not apply"; }
( cd $S && timeout 900 /venv/bin/python SEED/demo.py > $S/demo_out.txt 2>&1 ); MUT=$?
TESTS=$( cd $S && timeout 1800 /venv/bin/python -m pytest -q -p no:cacheprovider --timeout=900 --continue-on-collection-errors 2>&1 | tail -1 )
echo "demo pristine exit=$PRISTINE mutant exit=$MUT tests(mutant): $TESTS"
tail -3 $S/demo_out.txt | cut -c1-200
# our check against the patched scratch copy (STBEM_REPO; /repo itself stays untouched so that concurrent runs are not disturbed;
# SEED_IN_REPO=1 applies the patch to /repo instead and undoes it straight afterwards)
rm -rf $S/SEED $S/demo_out.txt
if [ "${SEED_IN_REPO:-0}" = "1" ]; then
  git -C /repo apply $D/patch.diff && ( cd /verif && timeout 3000 ./check $P --tier quick > $D/check_output.txt 2>&1; echo "check exit=$?" | tee -a $D/check_output.txt ); git -C /repo checkout -- .
else
  ( cd /verif && STBEM_REPO=$S timeout 3000 ./check $P --tier quick > $D/check_output.txt 2>&1; echo "check exit=$?" | tee -a $D/check_output.txt )
fi
rm -rf $S
grep -c "^VIOLATION" $D/check_output.txt; grep "^VIOLATION" $D/check_output.txt | head -3 | cut -c1-250; tail -2 $D/check_output.txt | cut -c1-250
git -C /repo status --short | head -3
