#!/bin/bash
# usage: selftest/mut.sh <property> <file relative to repo> <python-regex> <replacement> [count]
# copies /repo to a scratch dir outside /repo and /verif, applies one edit, runs the check there, removes the copy.
set -u
export VERIF_EVIDENCE_DIR=$(mktemp -d /tmp/stbem_evid.XXXXXX)
trap 'rm -rf "$VERIF_EVIDENCE_DIR"' EXIT
P=$1; F=$2; PAT=$3; REP=$4; CNT=${5:-1}
S=$(mktemp -d /tmp/stbem_mut.XXXXXX)
rsync -a --exclude .git /repo/ "$S/"
/verif/.venv/bin/python - "$S/$F" "$PAT" "$REP" "$CNT" <<'PY'
import re, sys
p, pat, rep, cnt = sys.argv[1], sys.argv[2], sys.argv[3], int(sys.argv[4])
s = open(p).read()
n = len(re.findall(pat, s))
s2, k = re.subn(pat, rep, s, count=cnt)
assert k >= 1, "pattern not found"
open(p, "w").write(s2)
print("mutated", p, "occurrences", n, "replaced", k)
PY
cd /verif && STBEM_REPO="$S" ./check "$P" --tier quick 2>&1 | grep -v "^KNOWN" | tail -${TAILN:-4}
echo "exit=${PIPESTATUS[0]}"
rm -rf "$S"
