"""Small pure functions exercising the Python semantics that pyvc's translator has to get right.  They are executed both by
CPython and by the symbolic executor (selftest/engine_diff.py): for random concrete inputs exactly one explored path condition
must hold and its result term must evaluate to CPython's result."""


def lex_le(a, b, c, d):
    if (a, b) <= (c, d):
        return 1
    return 0


def lex_lt3(a, b, c, d, e, f):
    if (a, b, c) < (d, e, f):
        return 1
    return 0


def floordiv_mod(n, m):
    if m == 0:
        return 0
    return (n // m) * 1000 + (n % m)


def chained(a, b, c):
    if a < b <= c:
        return 1
    elif a == b != c:
        return 2
    return 3


def shortcircuit(a, b):
    if a != 0 and 10 // a > b:
        return 1
    if a == 0 or b // a == 2:
        return 2
    return 3


def loops(n, a):
    s = 0
    for i in range(4):
        if i == a:
            continue
        if s > n:
            break
        s += i + 1
    k = 0
    while k < 3:
        k += 1
        if k == a:
            break
    return s * 10 + k


def closure(a, b):
    def f(x):
        return x * a + b
    g = lambda y: f(y) - f(0)
    return g(3) + (f(1) if a > b else -f(1))


def sign_like(x, y):
    if x == y: return 0
    if x < y: return -1
    return 1


def nested_tuple(a, b):
    t = (a, b)
    u = (b, a)
    r = 0
    if t == u:
        r += 1
    if t != (0, 0):
        r += 2
    x, y = u
    return r * 100 + (x - y)


def absminmax(a, b, c):
    return abs(a - b) + min(a, b, c) * 2 - max(a, c)


def power(a):
    return a ** 3 - a ** 2 + (a ** 0)


def boolarith(a, b):
    x = int(a < b) + int(not (a < b))
    return x + (1 if (a > 0) ^ (b > 0) else 0)


CASES = [
    (lex_le, "iiii"), (lex_lt3, "iiiiii"), (floordiv_mod, "ii"), (chained, "iii"), (shortcircuit, "ii"), (loops, "ii"),
    (closure, "ii"), (sign_like, "ii"), (nested_tuple, "ii"), (absminmax, "iii"), (power, "i"), (boolarith, "ii"),
]


def boolop_value(a, b):
    c = a or b
    d = a and b
    return c * 7 + d


CASES.append((boolop_value, "ii"))
