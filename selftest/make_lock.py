#!/usr/bin/env python3
"""writes contracts/obligations.lock from the evidence files of a clean run on the pinned (fixed) tree"""
import glob, json, os
V = os.path.dirname(os.path.dirname(os.path.abspath(__file__)))
lock = {}
for f in sorted(glob.glob(os.path.join(V, "evidence", "*.json"))):
    e = json.load(open(f))
    per = e["coverage"].get("obligations_per_function", {})
    if per:
        lock[e["property_id"]] = per
json.dump(lock, open(os.path.join(V, "contracts", "obligations.lock"), "w"), indent=1, sort_keys=True)
print({k: sum(v.values()) for k, v in lock.items()})
