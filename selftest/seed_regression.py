#!/usr/bin/env python3
"""Regression over the sub-agents' seeded changes kept in /verif/seeded/<tag>/patch.diff: each patch is applied to a scratch copy
of /repo (outside /repo and /verif, removed afterwards), the quick check of its property runs against the copy (STBEM_REPO), and
the verdict is recorded in selftest/seed_results.json.  Every seed must end with exit 1 and at least one VIOLATION line."""
import json
import os
import shutil
import subprocess
import sys
import tempfile
from concurrent.futures import ThreadPoolExecutor

HERE = os.path.dirname(os.path.abspath(__file__))
VERIF = os.path.dirname(HERE)


def run_one(tag):
    prop = tag.split("_")[0]
    scratch = tempfile.mkdtemp(prefix="stbem_seedreg_")
    evid = tempfile.mkdtemp(prefix="stbem_evid_")
    try:
        subprocess.run(["rsync", "-a", "--exclude", ".git", "/repo/", scratch + "/"], check=True)
        p = subprocess.run(["patch", "-p1", "-s", "-i", os.path.join(VERIF, "seeded", tag, "patch.diff")], cwd=scratch,
                           capture_output=True, text=True)
        if p.returncode != 0:
            return dict(tag=tag, prop=prop, ok=False, verdict="patch does not apply: " + (p.stdout + p.stderr)[:200])
        env = dict(os.environ, STBEM_REPO=scratch, VERIF_EVIDENCE_DIR=evid, VERIF_REPLAY_DIR=evid, PYVC_MAX_REPLAYS="2")
        r = subprocess.run([os.path.join(VERIF, "check"), prop, "--tier", "quick"], capture_output=True, text=True, env=env, timeout=6000)
        viol = [l for l in r.stdout.splitlines() if l.startswith("VIOLATION")]
        kinds = sorted({"bounded" if "_bounded_" in l else "proved" for l in viol})
        noinput = sum(1 for l in viol if l.rstrip().endswith("no-failing-input-found"))
        summary = [l for l in r.stdout.splitlines() if " tier=quick " in l]
        return dict(tag=tag, prop=prop, exit=r.returncode, violations=len(viol), without_input=noinput, caught_by=kinds,
                    ok=bool(r.returncode == 1 and viol), summary=(summary[-1] if summary else r.stdout[-300:]))
    finally:
        shutil.rmtree(scratch, ignore_errors=True)
        shutil.rmtree(evid, ignore_errors=True)


def main():
    tags = sorted(d for d in os.listdir(os.path.join(VERIF, "seeded")) if os.path.exists(os.path.join(VERIF, "seeded", d, "patch.diff")))
    only = set(sys.argv[1:])
    if only:
        tags = [t for t in tags if t in only or t.split("_")[0] in only]
    with ThreadPoolExecutor(max_workers=3) as ex:
        res = list(ex.map(run_one, tags))
    rp = os.path.join(HERE, "seed_results.json")
    if only and os.path.exists(rp):          # partial run: merge into the recorded results
        old = {r["tag"]: r for r in json.load(open(rp))}
        old.update({r["tag"]: r for r in res})
        json.dump([old[k] for k in sorted(old)], open(rp, "w"), indent=1)
    else:
        json.dump(res, open(rp, "w"), indent=1)
    for r in res:
        print("{tag} exit={exit} violations={violations} (without input {without_input}) caught_by={caught_by} {s}".format(
            s="OK" if r["ok"] else "NOT-CAUGHT", **{**dict(exit="-", violations=0, without_input=0, caught_by=[]), **r}))
    bad = [r for r in res if not r["ok"]]
    print("{} seeds, {} not caught".format(len(res), len(bad)))
    return 1 if bad else 0


if __name__ == "__main__":
    sys.exit(main())
