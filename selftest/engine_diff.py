#!/usr/bin/env python3
"""Differential test of pyvc's symbolic executor against CPython (DESIGN 1.3): for every function of selftest/engine_cases.py
all paths are explored symbolically; for random concrete inputs exactly one path condition must be satisfied and the path's
result term must evaluate to what CPython returns.  Exit 0 = agreement on every sampled input."""
import os
import random
import sys

HERE = os.path.dirname(os.path.abspath(__file__))
VERIF = os.path.dirname(HERE)
sys.path.insert(0, VERIF)

import z3  # noqa: E402

from pyvc.engine import Contract, to_z3  # noqa: E402
from contracts import common  # noqa: E402
from selftest import engine_cases  # noqa: E402


def main(seed=0, n_inputs=300):
    rng = random.Random(seed)
    bad = 0
    total = 0
    for fn, sig in engine_cases.CASES:
        eng = common.new_engine([], "ENGINE")
        eng.repo = VERIF
        names = fn.__code__.co_varnames[:fn.__code__.co_argcount]
        paths = []

        def setup(e, names=names):
            return [dict(label="", args={n: z3.Int(n) for n in names})]

        def hook(e, env, result, paths=paths):
            paths.append((list(e.pc), result))
        c = Contract("selftest.engine_cases:" + fn.__name__, setup=setup, ensures=["True"], post_hook=hook)
        eng.verify(c)
        # paths that ended in an obligation-only exit are not recorded; division obligations are guarded in the cases
        for _ in range(n_inputs):
            vals = [rng.randint(-6, 6) for _ in names]
            want = fn(*vals)
            hits = []
            for pc, res in paths:
                s = z3.Solver()
                for cnd in pc:
                    s.add(cnd)
                for n, v in zip(names, vals):
                    s.add(z3.Int(n) == v)
                if s.check() == z3.sat:
                    m = s.model()
                    r = res if not isinstance(res, z3.ExprRef) else m.eval(res, model_completion=True)
                    if isinstance(r, z3.ExprRef):
                        r = r.as_long() if z3.is_int_value(r) else (z3.is_true(r) if z3.is_bool(r) else float(r.as_fraction()))
                    hits.append(r)
            total += 1
            if len(hits) != 1 or hits[0] != want:
                bad += 1
                if bad <= 10:
                    print("MISMATCH", fn.__name__, vals, "cpython:", want, "paths satisfied:", hits)
        print("{:14s} paths={:3d} inputs={} ok".format(fn.__name__, len(paths), n_inputs))
    print("engine differential test: {} inputs, {} mismatches".format(total, bad))
    return 1 if bad else 0


if __name__ == "__main__":
    sys.exit(main(int(sys.argv[1]) if len(sys.argv) > 1 else 0))
