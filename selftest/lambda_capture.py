#!/usr/bin/env python3
"""Regression for an unsoundness found while extending C20 to any N (round 11): nested DOT terms (an array whose element function
itself contains a DOT, e.g. (d^T A) d) were built with ONE bound name, so the inner lambda captured the outer index and
sum_r d_r A[r, c] became sum_r d_r A[r, r].  Bound names now depend on the nesting depth of the construction."""
import sys
import z3
sys.path.insert(0, "/verif")
from pyvc.arrays import NArr, DOT, mk_lambda   # noqa: E402

A = z3.Function("A", z3.IntSort(), z3.IntSort(), z3.RealSort())
d = z3.Function("d", z3.IntSort(), z3.RealSort())
n = z3.Int("n")
dv = NArr(n, lambda i: d(i))
row = NArr(n, lambda c: DOT(n, dv.lam(), mk_lambda(lambda r: A(r, c))))      # (d^T A)[c]
outer = row.lam()
diag = mk_lambda(lambda c: DOT(n, dv.lam(), mk_lambda(lambda r: A(r, r))))   # what the captured version denoted
c0 = z3.Int("c0")
ok = not z3.simplify(z3.Select(outer, c0)).eq(z3.simplify(z3.Select(diag, c0)))   # the two must be different terms
s2 = z3.Solver()
s2.add(z3.Select(outer, c0) != DOT(n, dv.lam(), mk_lambda(lambda r: A(r, c0))))
ok = ok and s2.check() == z3.unsat
print("lambda capture regression:", "ok" if ok else "FAILED")
sys.exit(0 if ok else 1)
