#!/usr/bin/env python3
"""Self-test of the checks: every mutant of selftest/mutants.json is applied to a scratch copy of /repo (outside /repo and
/verif, removed afterwards), the named check's quick command runs against it, and the verdict is compared with `expect`
(1 = must report a violation, 0 = neutral edit, must stay quiet). Writes selftest/results.json."""
import json
import os
import re
import shutil
import subprocess
import sys
import tempfile
from concurrent.futures import ThreadPoolExecutor

HERE = os.path.dirname(os.path.abspath(__file__))
VERIF = os.path.dirname(HERE)


def run_one(m):
    scratch = tempfile.mkdtemp(prefix="stbem_selftest_")
    evid = tempfile.mkdtemp(prefix="stbem_evid_")
    try:
        subprocess.run(["rsync", "-a", "--exclude", ".git", "/repo/", scratch + "/"], check=True)
        p = os.path.join(scratch, m["file"])
        s = open(p).read()
        s2, k = re.subn(m["pat"], m["rep"].replace("\\n", "\n"), s, count=1)
        if k != 1:
            return dict(m, verdict="pattern-not-found", ok=False)
        open(p, "w").write(s2)
        env = dict(os.environ, STBEM_REPO=scratch, VERIF_EVIDENCE_DIR=evid, VERIF_REPLAY_DIR=evid, PYVC_MAX_REPLAYS="2")
        r = subprocess.run([os.path.join(VERIF, "check"), m["prop"], "--tier", "quick"], capture_output=True, text=True, env=env,
                           timeout=3000)
        viol = [l for l in r.stdout.splitlines() if l.startswith("VIOLATION")]
        kinds = sorted({"bounded" if "_bounded_" in l else "proved" for l in viol})
        ok = (r.returncode == 1 and viol) if m["expect"] == 1 else (r.returncode == 0 and not viol)
        return dict(id=m["id"], prop=m["prop"], expect=m["expect"], exit=r.returncode, violations=len(viol), caught_by=kinds,
                    first=(viol[0][:220] if viol else ""), ok=bool(ok), note=m.get("note", ""))
    finally:
        shutil.rmtree(scratch, ignore_errors=True)
        shutil.rmtree(evid, ignore_errors=True)


def main():
    muts = json.load(open(os.path.join(HERE, "mutants.json")))
    only = set(sys.argv[1:])
    if only:
        muts = [m for m in muts if m["id"] in only or m["prop"] in only]
    with ThreadPoolExecutor(max_workers=3) as ex:
        res = list(ex.map(run_one, muts))
    rp = os.path.join(HERE, "results.json")
    if only and os.path.exists(rp):          # partial run: merge into the recorded results
        old = {r["id"]: r for r in json.load(open(rp))}
        old.update({r["id"]: r for r in res})
        json.dump([old[k] for k in sorted(old)], open(rp, "w"), indent=1)
    else:
        json.dump(res, open(rp, "w"), indent=1)
    bad = [r for r in res if not r["ok"]]
    for r in res:
        print("{id} {prop} expect={expect} exit={exit} caught_by={caught_by} {s}".format(s="OK" if r["ok"] else "UNEXPECTED", **{**dict(exit="-", caught_by=[], expect="-"), **r}))
    print("{} mutants, {} unexpected".format(len(res), len(bad)))
    return 1 if bad else 0


if __name__ == "__main__":
    sys.exit(main())
