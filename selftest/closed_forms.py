#!/usr/bin/env python3
"""Cross-check of the hand-derived closed forms that C14 trusts (checks/c14.py: B12, B14), by two independent routes:

  B12(p, q) = int_0^1 int_0^1 (x^p - y^p)(x^q - y^q) / (x - y)^2 dy dx      -- sympy: cancel the polynomial quotient, integrate exactly
  B14(p, q) = int_0^1 int_0^1 (x^p - y^p)(x^q - y^q) / |x - y|^(3/2) dy dx   -- mpmath: Duffy substitution y = x s on the triangle
                                                                               y < x (x 2 by symmetry), 40 digits, tolerance 1e-25

Run: PYTHONPATH=/verif:/repo .venv/bin/python selftest/closed_forms.py   (not part of a registered check; result quoted in DESIGN.md)"""
import sys
from fractions import Fraction

import mpmath
import sympy

sys.path.insert(0, "/verif")
from checks import c14  # noqa: E402

x, y = sympy.symbols("x y")
bad = 0
n12 = n14 = 0
for p in range(0, 11):
    for q in range(p, 11):
        integrand = sympy.cancel((x ** p - y ** p) * (x ** q - y ** q) / (x - y) ** 2)
        val = sympy.integrate(sympy.integrate(integrand, (y, 0, 1)), (x, 0, 1))
        want = c14.B12(p, q)
        n12 += 1
        if sympy.Rational(want.numerator, want.denominator) != val:
            bad += 1
            print("B12 mismatch", p, q, val, want)
mpmath.mp.dps = 40
for p in range(0, 12):
    for q in range(p, 12):
        if p == 0 or q == 0:
            want, val = Fraction(0), mpmath.mpf(0)
        else:
            # on y = x s, 0 < s < 1: (x^p - y^p)(x^q - y^q) |x - y|^(-3/2) dy = x^(p+q-1/2) (1 - s^p)(1 - s^q) (1 - s)^(-3/2) ds
            inner = mpmath.quad(lambda s: (1 - s ** p) * (1 - s ** q) * (1 - s) ** mpmath.mpf(-1.5), [0, 1])
            val = 2 * inner / (p + q + mpmath.mpf(1) / 2)
            want = c14.B14(p, q)
        n14 += 1
        w = mpmath.mpf(want.numerator) / want.denominator
        if abs(val - w) > mpmath.mpf(10) ** -25 * max(1, abs(w)):
            bad += 1
            print("B14 mismatch", p, q, val, w)
print("closed forms: {} B12 values (exact, sympy), {} B14 values (1e-25, mpmath), {} mismatches".format(n12, n14, bad))
sys.exit(1 if bad else 0)
