"""C16 -- bounded exhaustive explorer of the REAL domain quadtree `src/initial_mesh.py`.

The real classes (`InitialMesh`, `Element`, `Vertex`, constructors `UnitSquare`, `PiSquare`,
`LShape`) are driven in lock-step with an independent reference model (`RefMesh`, pure integer
arithmetic on dyadic cells, imports nothing of the repository) and an executable invariant
`well_formed(mesh, domain)` is evaluated on the real object after every operation.

Three parts (all seeded, all bounds measured and reported through `chk.add_bounded`):

 (a) refine-bfs      breadth-first search over ALL sequences of `mesh.refine(leaf)` up to a depth
                     bound, states deduplicated by their canonical leaf set;
 (b) refine-random   long seeded random histories of `refine(leaf)` mixed with `uniform_refine()`;
 (c) boundary        `refine_msh_bdr(v0, v1)` for every dyadic segment [k/2^l,(k+1)/2^l] of every
                     unit piece of the boundary (whole side for the pi square), both orientations,
                     end points as tuple / list / (2,1) array, on fresh and on pre-refined meshes.

Canonical coordinates.  A coordinate x of a mesh vertex is mapped to the integer X = x/unit * 2^30
(unit = 1 for the unit square and the L-shape, pi for the pi square).  For unit = 1 this is EXACT
(`float.as_integer_ratio`; the real code only halves sums of dyadic numbers, which binary floating
point does without rounding), a coordinate that is not a dyadic number with denominator <= 2^30 is
reported.  For unit = pi the real coordinates are rounded multiples of pi/2^k; there X is the
nearest integer and |x - X*pi/2^30| <= 1e-12*pi is required.  After that every clause is decided
in integer arithmetic.  A cell is (level, i, j) = the square [i,i+1]x[j,j+1] * unit/2^level.

Scenario (JSON-able, replayable):  {"domain": d, "ops": [op, ...]}  with
    ["refine", level, i, j]                 mesh.refine(the leaf that is that cell)
    ["uniform"]                             mesh.uniform_refine()
    ["bdr", piece, l, k, orient, kind]      mesh.refine_msh_bdr(P_k, P_{k+1}) (swapped if orient=1),
                                            end points given as kind in tuple|list|array
`replay(scenario, clause)` re-executes a scenario and tells whether `clause` is violated after
(or while executing) its LAST operation.

Clauses (obligation names C16/bounded/<domain>/<clause>, domain in unit|pi|lshape):
  invariant on the real object (`well_formed`, after every operation of every part):
    tiling, balance, vertex-unique, leaf-bookkeeping, levels, nbrs-map
  operations:
    refine-completes                 refine(leaf) returns (no exception, no time-out)
    refine-matches-reference         leaves / all elements / vertex set equal the reference's (2:1 closure as a
                                     least fixed point), also after uniform_refine and refine_msh_bdr
    uniform-refine-completes         uniform_refine() on a mesh whose leaves all have the same level
    uniform-refine-graded-completes  uniform_refine() on a graded mesh (kept apart: the repository only ever
                                     calls it on uniform meshes; on graded ones the outcome depends on the
                                     iteration order of a set of objects)
  boundary targeting:
    bdr-terminates (returns normally within the guard), bdr-returns-leaf-with-that-edge,
    bdr-exactly-one-leaf, bdr-endpoints-retrievable

Interface for the check:  run(chk, tier, seed).
CLI for debugging:        python -m bounded.initial_explorer quick|thorough [seed]
"""
import contextlib
import hashlib
import math
import multiprocessing
import os
import random
import signal
import sys
import threading
import time
import traceback
from fractions import Fraction

from vlib.core import REPO, VERIF, Check, Ob, DISCHARGED, FAILED, UNDECIDED

if not sys.path or sys.path[0] != REPO:
    sys.path.insert(0, REPO)

import numpy as np  # noqa: E402

import src.initial_mesh as IM  # noqa: E402

if not os.path.realpath(IM.__file__).startswith(os.path.realpath(REPO) + os.sep):
    raise ImportError("src.initial_mesh was imported from {} and not from the repository root {}".format(
        IM.__file__, REPO))

PID = "C16"
DOMAINS = ("unit", "pi", "lshape")
CTOR_NAME = {"unit": "UnitSquare", "pi": "PiSquare", "lshape": "LShape"}
ROOTS = {"unit": ((0, 0),), "pi": ((0, 0),), "lshape": ((0, -1), (0, 0), (-1, 0))}
# boundary polygons (counter-clockwise or clockwise, does not matter) in units of the root size
CORNERS = {"unit": ((0, 0), (1, 0), (1, 1), (0, 1)),
           "pi": ((0, 0), (1, 0), (1, 1), (0, 1)),
           "lshape": ((0, 0), (0, -1), (1, -1), (1, 0), (1, 1), (0, 1), (-1, 1), (-1, 0))}
LOG_SCALE = 30
SCALE = 1 << LOG_SCALE
PI_RTOL = 1e-12
KINDS = ("tuple", "list", "array")

WF_CLAUSES = ("tiling", "balance", "vertex-unique", "leaf-bookkeeping", "levels", "nbrs-map")
OP_CLAUSES = ("refine-completes", "refine-matches-reference", "uniform-refine-completes",
              "uniform-refine-graded-completes")
BDR_CLAUSES = ("bdr-terminates", "bdr-returns-leaf-with-that-edge", "bdr-exactly-one-leaf",
               "bdr-endpoints-retrievable")
ALL_CLAUSES = WF_CLAUSES + OP_CLAUSES + BDR_CLAUSES
# clauses whose violation depends on the iteration order of a set of objects (hash = address)
ORDER_DEPENDENT = ("uniform-refine-graded-completes",)
# Observed but NOT part of C16's statement (which quantifies over sequences of cell refinements and the boundary
# targeting): uniform_refine() on an already graded mesh can abort with an AssertionError in bisect_edge (the mesh
# stays well formed).  Reported as a note in the evidence, never as a violation of C16.
OUTSIDE_STATEMENT = ("uniform-refine-graded-completes",)

GUARD_REFINE, GUARD_UNIFORM, GUARD_BDR = 10.0, 30.0, 5.0
UNIFORM_DEPTH = 2        # BFS states up to this depth additionally get one uniform_refine()
PAIRWISE_MAX = 120       # up to this many leaves tiling and balance are also decided by the all-pairs definition
MAX_RANDOM_LEVEL = 20    # random histories do not refine leaves of this level (canonical scale is 2^30)


# ------------------------------------------------------------------------------------------------
# canonical coordinates
# ------------------------------------------------------------------------------------------------
class Bad(Exception):
    """A coordinate / element of the real mesh that has no canonical dyadic form."""


def canon(x, domain):
    """x (real-mesh coordinate) -> integer x/unit*2^30; exact for unit/lshape, 1e-12 for pi."""
    if domain == "pi":
        u = float(x) / math.pi * SCALE
        if not math.isfinite(u):
            raise Bad("non-finite coordinate {!r}".format(x))
        n = round(u)
        if abs(u - n) > PI_RTOL * SCALE:
            raise Bad("coordinate {!r} is not within 1e-12*pi of a multiple of pi/2^{}".format(x, LOG_SCALE))
        return n
    try:
        n, d = x.as_integer_ratio()
    except AttributeError:
        fr = Fraction(x)
        n, d = fr.numerator, fr.denominator
    except (OverflowError, ValueError):
        raise Bad("non-finite coordinate {!r}".format(x))
    if SCALE % d:
        raise Bad("coordinate {!r} is not dyadic with denominator <= 2^{}".format(x, LOG_SCALE))
    return n * (SCALE // d)


def cell_box(cell):
    l, i, j = cell
    s = SCALE >> l
    return (i * s, j * s, (i + 1) * s, (j + 1) * s)


def box_cell(box):
    """(X0,Y0,X1,Y1) -> (level,i,j); raises Bad when not an aligned dyadic square."""
    x0, y0, x1, y1 = box
    s = x1 - x0
    if s <= 0 or y1 - y0 != s:
        raise Bad("not-square: box {} has sides {} x {}".format(box, x1 - x0, y1 - y0))
    if s > SCALE or SCALE % s or (SCALE // s) & (SCALE // s - 1):
        raise Bad("not-dyadic-size: side {}/2^{} is not 2^-level".format(s, LOG_SCALE))
    l = (SCALE // s).bit_length() - 1
    if x0 % s or y0 % s:
        raise Bad("not-aligned: box {} is not aligned to its own size".format(box))
    return (l, x0 // s, y0 // s)


def cell_root(cell):
    l, i, j = cell
    return (i >> l, j >> l)


def share_edge_piece(a, b):
    """Two boxes share a piece of positive length of an edge (geometric edge adjacency)."""
    if a[2] == b[0] or a[0] == b[2]:
        if min(a[3], b[3]) - max(a[1], b[1]) > 0:
            return True
    if a[3] == b[1] or a[1] == b[3]:
        if min(a[2], b[2]) - max(a[0], b[0]) > 0:
            return True
    return False


def overlap_positive(a, b):
    return max(a[0], b[0]) < min(a[2], b[2]) and max(a[1], b[1]) < min(a[3], b[3])


# ------------------------------------------------------------------------------------------------
# reference model (independent of src.initial_mesh)
# ------------------------------------------------------------------------------------------------
class RefMesh:
    """Set of leaf cells + set of all cells ever created.  `refine` is the least fixed point of the
    2:1 rule: the set R of leaves that have to be split is the smallest set containing the target
    such that every leaf that shares a positive-length edge piece with a member c of R and has a
    lower level than c is in R too; R is split coarsest first."""

    def __init__(self, domain, leaves=None, cells=None):
        self.domain = domain
        if leaves is None:
            leaves = [(0, i, j) for i, j in ROOTS[domain]]
        self.leaves = {c: cell_box(c) for c in leaves}
        self.cells = set(self.leaves) if cells is None else set(cells)

    def copy(self):
        r = RefMesh.__new__(RefMesh)
        r.domain, r.leaves, r.cells = self.domain, dict(self.leaves), set(self.cells)
        return r

    def key(self):
        return tuple(sorted(self.leaves))

    def is_uniform(self):
        return len({c[0] for c in self.leaves}) == 1

    def max_level(self):
        return max(c[0] for c in self.leaves)

    def covering(self, cell):
        """The leaf that contains `cell` (cell itself or an ancestor), or None."""
        l, i, j = cell
        for k in range(l + 1):
            c = (l - k, i >> k, j >> k)
            if c in self.leaves:
                return c
        return None

    def required(self, cell):
        assert cell in self.leaves, "reference: {} is not a leaf".format(cell)
        need, work = {cell}, [cell]
        while work:
            c = work.pop()
            cb = self.leaves[c]
            for n, nb in self.leaves.items():
                if n[0] < c[0] and n not in need and share_edge_piece(cb, nb):
                    need.add(n)
                    work.append(n)
        return need

    def split(self, cell):
        l, i, j = cell
        del self.leaves[cell]
        kids = [(l + 1, 2 * i, 2 * j), (l + 1, 2 * i + 1, 2 * j), (l + 1, 2 * i + 1, 2 * j + 1),
                (l + 1, 2 * i, 2 * j + 1)]
        for k in kids:
            self.leaves[k] = cell_box(k)
            self.cells.add(k)
        return kids

    def refine(self, cell):
        for c in sorted(self.required(cell)):
            kids = self.split(c)
        return kids  # target has the highest level of R, hence is split last

    def uniform(self):
        for c in sorted(self.leaves):
            if c in self.leaves:
                self.refine(c)

    def vertex_keys(self):
        out = set()
        for c in self.cells:
            x0, y0, x1, y1 = cell_box(c)
            out.update(((x0, y0), (x1, y0), (x1, y1), (x0, y1)))
        return out


# ------------------------------------------------------------------------------------------------
# boundary pieces / segments
# ------------------------------------------------------------------------------------------------
def pieces(domain):
    """Unit pieces of the boundary as (start, end) in units of the root size (whole sides for pi)."""
    c = CORNERS[domain]
    return [(c[n], c[(n + 1) % len(c)]) for n in range(len(c))]


def segment(domain, piece, l, k):
    """End points of segment k at level l of boundary piece `piece`.
    -> (p0, p1, K0, K1, cell): python-number points, canonical integer points, the level-l cell of the
    domain that has the segment as an edge."""
    (sx, sy), (ex, ey) = pieces(domain)[piece]
    dx, dy, n = ex - sx, ey - sy, 1 << l
    assert 0 <= k < n
    s = SCALE >> l
    pts, keys, units = [], [], []
    for t in (k, k + 1):
        nx, ny = sx * n + dx * t, sy * n + dy * t          # integer multiples of unit/2^l
        units.append((nx, ny))
        keys.append((nx * s, ny * s))
        if domain == "pi":
            pts.append((nx * math.pi / n, ny * math.pi / n))  # n = 2^l: k = n gives math.pi exactly
        else:
            pts.append((nx / n, ny / n))                      # exact
    (ax, ay), (bx, by) = units
    if ay == by:   # horizontal segment, cells above / below
        i = min(ax, bx)
        cand = [(l, i, ay), (l, i, ay - 1)]
    else:
        j = min(ay, by)
        cand = [(l, ax, j), (l, ax - 1, j)]
    inside = [c for c in cand if cell_root(c) in ROOTS[domain]]
    assert len(inside) == 1, "segment is not on the boundary"
    return pts[0], pts[1], keys[0], keys[1], inside[0]


def as_input(pt, kind):
    x, y = pt
    if kind == "tuple":   # python ints where integral, like the repository's own calls `(1, 0.5)`
        return tuple(int(v) if float(v).is_integer() else v for v in (x, y))
    if kind == "list":
        return [float(x), float(y)]
    return np.array([[float(x)], [float(y)]])


# ------------------------------------------------------------------------------------------------
# view of the REAL mesh + the executable invariant
# ------------------------------------------------------------------------------------------------
class View:
    __slots__ = ("problems", "leaf_cells", "elem_cells", "vertex_keys", "n_leaves")

    def first(self):
        for c in WF_CLAUSES:
            if self.problems.get(c):
                return c, self.problems[c][0]
        return None


def _vkey(v, domain, cache):
    k = cache.get(id(v))
    if k is None:
        k = (canon(v.x, domain), canon(v.y, domain))
        cache[id(v)] = k
    return k


def elem_box(elem, domain, cache=None):
    cache = {} if cache is None else cache
    if len(elem.vertices) != 4:
        raise Bad("not-square: element has {} vertices".format(len(elem.vertices)))
    k = [_vkey(v, domain, cache) for v in elem.vertices]
    if not (k[0][1] == k[1][1] and k[1][0] == k[2][0] and k[2][1] == k[3][1] and k[3][0] == k[0][0]):
        raise Bad("not-axis-parallel: vertices {} are not (SW,SE,NE,NW) of a rectangle".format(
            [v.xy for v in elem.vertices]))
    return (k[0][0], k[0][1], k[2][0], k[2][1])


def inspect(mesh, domain, max_msgs=3):
    """Evaluate every clause of the invariant on the real object.  Never raises for a malformed
    mesh: whatever goes wrong is a message under the clause that was being evaluated."""
    P = {c: [] for c in WF_CLAUSES}

    def bad(clause, msg):
        if len(P[clause]) < max_msgs:
            P[clause].append(msg)

    view = View()
    view.problems = P
    cache = {}
    elements = list(mesh.elements)
    leafset = mesh.leaf_elements

    # ---- leaf-bookkeeping: leaves = elements that are nobody's parent -------------------------
    ids = {}
    for n, e in enumerate(elements):
        if id(e) in ids:
            bad("leaf-bookkeeping", "duplicate-element: elements[{}] is elements[{}]".format(n, ids[id(e)]))
        ids[id(e)] = n
    nkids = {}
    for e in elements:
        p = e.parent
        if p is not None:
            if id(p) not in ids:
                bad("leaf-bookkeeping", "foreign-parent: parent of {!r} is not in mesh.elements".format(e))
            nkids[id(p)] = nkids.get(id(p), 0) + 1
    derived = [e for e in elements if id(e) not in nkids]
    for pid_, n in nkids.items():
        if n != 4:
            bad("leaf-bookkeeping", "children-count: element {!r} has {} children".format(
                elements[ids[pid_]] if pid_ in ids else "?", n))
    try:
        leaf_ids = {id(e) for e in leafset}
        if len(leaf_ids) != len(leafset):
            bad("leaf-bookkeeping", "duplicate-leaf: leaf_elements holds an element twice")
    except TypeError as e:
        leaf_ids = set()
        bad("leaf-bookkeeping", "leaf_elements-not-iterable: {}".format(e))
    der_ids = {id(e) for e in derived}
    if leaf_ids != der_ids:
        extra = [repr(e) for e in leafset if id(e) not in der_ids][:3]
        missing = [repr(e) for e in derived if id(e) not in leaf_ids][:3]
        bad("leaf-bookkeeping", "leaf-set-mismatch: leaf_elements has non-leaves {} and lacks childless "
            "elements {}".format(extra, missing))

    # ---- geometry of every element -----------------------------------------------------------
    elem_cells = {}
    for e in elements:
        try:
            elem_cells[id(e)] = box_cell(elem_box(e, domain, cache))
        except Bad as ex:
            elem_cells[id(e)] = None
            clause = "tiling" if id(e) in der_ids or id(e) in leaf_ids else "levels"
            bad(clause, str(ex) + " [element {!r}]".format(e))
    view.elem_cells = elem_cells

    # ---- levels -------------------------------------------------------------------------------
    for e in elements:
        c = elem_cells[id(e)]
        p = e.parent
        if p is None:
            if e.level != 0:
                bad("levels", "root-level: parentless element {!r} has level {}".format(e, e.level))
        else:
            if e.level != p.level + 1:
                bad("levels", "level-step: {!r} has level {} but its parent has level {}".format(
                    e, e.level, p.level))
            pc = elem_cells.get(id(p))
            if c is not None and pc is not None and (c[0] - 1, c[1] >> 1, c[2] >> 1) != pc:
                bad("levels", "not-a-quadrant: cell {} of {!r} is not a quadrant of its parent's cell {}".format(
                    c, e, pc))
        if c is not None and c[0] != e.level:
            bad("levels", "size-level: {!r} has size root/2^{} but level {}".format(e, c[0], e.level))
        if c is not None and p is None and (c[0] != 0 or (c[1], c[2]) not in ROOTS[domain]):
            bad("levels", "root-cell: parentless element {!r} is not a root square of the domain".format(e))

    # ---- tiling (leaves taken from mesh.leaf_elements AND cross-checked with the derived ones) --
    leaf_cells = {}
    leaves = list(leafset) if leaf_ids else []
    if leaf_ids != der_ids:   # judge the tiling on both notions of "leaf"
        leaves = leaves + [e for e in derived if id(e) not in leaf_ids]
    area = 0
    for e in leaves:
        c = elem_cells.get(id(e))
        if c is None:
            if id(e) not in elem_cells:
                bad("tiling", "foreign-leaf: leaf {!r} is not in mesh.elements".format(e))
            continue
        if cell_root(c) not in ROOTS[domain] or c[0] < 0:
            bad("tiling", "outside-domain: leaf {!r} lies outside the domain".format(e))
        if c in leaf_cells:
            bad("tiling", "overlap: two leaves occupy the same square {!r}".format(e))
            continue
        leaf_cells[c] = e
        area += (SCALE >> c[0]) ** 2
    for (l, i, j), e in leaf_cells.items():
        for k in range(1, l + 1):
            a = (l - k, i >> k, j >> k)
            if a in leaf_cells:
                bad("tiling", "overlap: leaf {!r} lies inside leaf {!r}".format(e, leaf_cells[a]))
                break
    total = len(ROOTS[domain]) * SCALE * SCALE
    if area != total:
        bad("tiling", "area: leaves cover {}/{} of the domain area".format(Fraction(area, total).numerator,
                                                                         Fraction(area, total).denominator))
    cells = list(leaf_cells)
    boxes = [cell_box(c) for c in cells]
    jumps = []
    if len(cells) <= PAIRWISE_MAX:   # definitional cross-check of tiling and balance, all pairs of leaves
        nb = len(boxes)
        for a in range(nb):
            ax0, ay0, ax1, ay1 = boxes[a]
            la = cells[a][0]
            for b in range(a + 1, nb):
                bx0, by0, bx1, by1 = boxes[b]
                if ax1 < bx0 or bx1 < ax0 or ay1 < by0 or by1 < ay0:
                    continue   # closures disjoint
                if overlap_positive(boxes[a], boxes[b]):
                    bad("tiling", "overlap: leaves {!r} and {!r} overlap (pairwise test)".format(
                        leaf_cells[cells[a]], leaf_cells[cells[b]]))
                elif abs(la - cells[b][0]) > 1 and share_edge_piece(boxes[a], boxes[b]):
                    jumps.append((a, b))
    view.leaf_cells = leaf_cells
    view.n_leaves = len(leaf_cells)

    # ---- balance ------------------------------------------------------------------------------
    for (l, i, j), e in leaf_cells.items():
        for di, dj in ((1, 0), (-1, 0), (0, 1), (0, -1)):
            ni, nj = i + di, j + dj
            for k in range(2, l + 1):   # a leaf two or more levels coarser across that edge
                a = (l - k, ni >> k, nj >> k)
                if a in leaf_cells:
                    bad("balance", "level-jump: leaf {!r} (level {}) is edge-adjacent to leaf {!r} (level {})".format(
                        e, l, leaf_cells[a], l - k))
                    break
    for a, b in jumps:
        bad("balance", "level-jump: leaves {!r} and {!r} share an edge piece, levels {} and {} "
            "(pairwise test)".format(leaf_cells[cells[a]], leaf_cells[cells[b]], cells[a][0], cells[b][0]))

    # ---- vertex-unique ---------------------------------------------------------------------------
    seen, vkeys = {}, set()
    vids = {}
    for n, v in enumerate(mesh.vertices):
        vids[id(v)] = n
        if v.idx != n:
            bad("vertex-unique", "idx: vertices[{}].idx == {}".format(n, v.idx))
        try:
            k = _vkey(v, domain, cache)
        except Bad as ex:
            bad("vertex-unique", "coordinate: {} [vertex {}]".format(ex, n))
            continue
        if k in seen:
            bad("vertex-unique", "duplicate: vertices[{}] and vertices[{}] both are {!r}".format(seen[k], n, v))
        seen[k] = n
        vkeys.add(k)
        try:
            ok = (tuple(v.xy) == (v.x, v.y) and v.xy_np.shape == (2, 1)
                  and float(v.xy_np[0, 0]) == float(v.x) and float(v.xy_np[1, 0]) == float(v.y))
        except Exception:
            ok = False
        if not ok:
            bad("vertex-unique", "xy-fields: vertices[{}] has x,y={!r} xy={!r} xy_np={!r}".format(
                n, (v.x, v.y), v.xy, getattr(v, "xy_np", None)))
    for e in elements:
        for v in e.vertices:
            if id(v) not in vids:
                bad("vertex-unique", "foreign-vertex: vertex {!r} of {!r} is not in mesh.vertices".format(v, e))
    view.vertex_keys = vkeys

    # ---- nbrs-map -------------------------------------------------------------------------------
    nbrs = mesh.nbrs
    for (a, b), el in nbrs.items():
        if not any(p is a and q is b for p, q in el.edges):
            bad("nbrs-map", "not-an-edge: nbrs[({!r},{!r})] = {!r} does not have that edge".format(a, b, el))
        if id(el) not in ids:
            bad("nbrs-map", "foreign-element: nbrs[({!r},{!r})] is not in mesh.elements".format(a, b))
    for e in elements:
        for a, b in e.edges:
            if nbrs.get((a, b)) is not e:
                bad("nbrs-map", "missing: nbrs[edge ({!r},{!r}) of {!r}] is {!r}".format(a, b, e, nbrs.get((a, b))))
    for (p, q), (a, b) in mesh.parent_edge.items():
        try:
            kp, kq, ka, kb = (_vkey(v, domain, cache) for v in (p, q, a, b))
            mid = ((ka[0] + kb[0]) // 2, (ka[1] + kb[1]) // 2)
            ok = (p is a and kq == mid) or (q is b and kp == mid)
        except Bad:
            ok = False
        if not ok:
            bad("nbrs-map", "parent-edge: parent_edge[({!r},{!r})] = ({!r},{!r}) is not a half of it".format(p, q, a, b))
    return view


def well_formed(mesh, domain):
    """{} when every clause holds on the real object, else {clause: [messages]}."""
    return {c: m for c, m in inspect(mesh, domain).problems.items() if m}


# ------------------------------------------------------------------------------------------------
# watchdog
# ------------------------------------------------------------------------------------------------
class GuardTimeout(BaseException):
    pass


@contextlib.contextmanager
def guard(seconds):
    """Wall-clock guard around one call into the repository (SIGALRM; main thread of the process)."""
    if threading.current_thread() is not threading.main_thread():
        yield
        return

    def handler(signum, frame):
        raise GuardTimeout()
    old = signal.signal(signal.SIGALRM, handler)
    signal.setitimer(signal.ITIMER_REAL, seconds)
    try:
        yield
    finally:
        signal.setitimer(signal.ITIMER_REAL, 0)
        signal.signal(signal.SIGALRM, old)


def _exc_text(e):
    if isinstance(e, GuardTimeout):
        return "timeout"
    tb = traceback.extract_tb(e.__traceback__)
    where = ""
    for fr in reversed(tb):
        if "initial_mesh" in fr.filename:
            where = " at initial_mesh.py:{} `{}`".format(fr.lineno, (fr.line or "").strip()[:80])
            break
    return "{}{}: {}".format(type(e).__name__, where, str(e)[:200])


# ------------------------------------------------------------------------------------------------
# lock-step runner
# ------------------------------------------------------------------------------------------------
class Runner:
    """Real mesh + reference, advanced together by scenario operations."""

    def __init__(self, domain):
        self.domain = domain
        self.mesh = getattr(IM, CTOR_NAME[domain])()
        self.ref = RefMesh(domain)
        self.ops = []
        self.dead = None        # reason why the scenario cannot be continued
        self.view = None
        self.evaluated = []     # clauses evaluated by the last apply()
        self.skipped = None     # reason the last op was out of the operation's domain
        self.last_scenario = {"domain": domain, "ops": []}   # scenario up to and including the last op

    # -- helpers --------------------------------------------------------------------------------
    def scenario(self):
        return {"domain": self.domain, "ops": [list(o) for o in self.ops]}

    def find_leaf(self, cell):
        if self.view is not None:
            return self.view.leaf_cells.get(tuple(cell))
        cache = {}
        for e in self.mesh.leaf_elements:
            try:
                if box_cell(elem_box(e, self.domain, cache)) == tuple(cell):
                    return e
            except Bad:
                pass
        return None

    def check_state(self, compare=True):
        """well_formed + comparison with the reference -> [(clause, message)]."""
        fails = []
        try:
            v = inspect(self.mesh, self.domain)
        except Exception as e:   # a checker crash is never a pass
            self.view = None
            self.evaluated += list(WF_CLAUSES)
            return [("leaf-bookkeeping", "checker-raised: {}".format(_exc_text(e)))]
        self.view = v
        self.evaluated += list(WF_CLAUSES)
        for c in WF_CLAUSES:
            for m in v.problems[c][:1]:
                fails.append((c, m))
        if compare:
            self.evaluated.append("refine-matches-reference")
            real, ref = set(v.leaf_cells), set(self.ref.leaves)
            if real != ref:
                fails.append(("refine-matches-reference",
                              "leaves: real-only cells {} reference-only cells {}".format(
                                  sorted(real - ref)[:4], sorted(ref - real)[:4])))
                self.dead = "real mesh and reference diverged"
            else:
                allc = [c for c in v.elem_cells.values() if c is not None]
                if len(allc) != len(set(allc)) or set(allc) != self.ref.cells:
                    fails.append(("refine-matches-reference",
                                  "elements: {} real elements, {} distinct cells, reference has {}".format(
                                      len(v.elem_cells), len(set(allc)), len(self.ref.cells))))
                expect = self.ref.vertex_keys()
                if v.vertex_keys != expect or len(self.mesh.vertices) != len(expect):
                    fails.append(("refine-matches-reference",
                                  "vertices: {} real vertices, {} distinct, reference expects {} "
                                  "(corners of all cells)".format(len(self.mesh.vertices), len(v.vertex_keys),
                                                                  len(expect))))
        return fails

    def resync(self):
        """Re-seat the reference on the real state (only after an operation for which the property
        does not fix the result, i.e. an aborted uniform_refine on a graded mesh)."""
        v = self.view
        if v is None or v.first() is not None:
            self.dead = "real mesh malformed, cannot re-seat the reference"
            return
        self.ref = RefMesh(self.domain, leaves=list(v.leaf_cells),
                           cells=[c for c in v.elem_cells.values() if c is not None])
        self.dead = None
        # replace the history by a pure refine history that generates the same leaf set, so that
        # whatever is found later has a deterministic replay
        sim, ops = RefMesh(self.domain), []
        for c in sorted(self.ref.cells - set(self.ref.leaves)):
            if c in sim.leaves:
                ops.append(["refine"] + list(c))
                sim.refine(c)
        if set(sim.leaves) != set(self.ref.leaves):
            self.dead = "state after the aborted uniform_refine is not a balanced refinement"
            return
        self.ops = ops

    # -- operations -----------------------------------------------------------------------------
    def apply(self, op, check=True):
        """Execute one scenario operation on real mesh and reference.  -> [(clause, message)]"""
        assert self.dead is None, self.dead
        self.ops.append(list(op))
        self.last_scenario = self.scenario()
        self.evaluated, self.skipped = [], None
        kind = op[0]
        if kind == "refine":
            return self._refine(tuple(op[1:4]), check)
        if kind == "uniform":
            return self._uniform(check)
        if kind == "bdr":
            return self._bdr(*op[1:6], check=check)
        raise ValueError("unknown op {!r}".format(op))

    def _refine(self, cell, check):
        elem = self.find_leaf(cell)
        if elem is None:
            self.dead = "no real leaf for cell {}".format(cell)
            self.evaluated.append("refine-matches-reference")
            return [("refine-matches-reference", "leaves: real mesh has no leaf {}".format(cell))]
        self.view = None
        self.evaluated.append("refine-completes")
        try:
            with guard(GUARD_REFINE):
                kids = self.mesh.refine(elem)
        except (Exception, GuardTimeout) as e:
            self.dead = "refine raised"
            return [("refine-completes", "{} in refine({!r})".format(_exc_text(e), elem))]
        ref_kids = self.ref.refine(cell)
        fails = []
        if check:
            fails = self.check_state()
            try:
                got = sorted(box_cell(elem_box(k, self.domain)) for k in kids)
                ok = got == sorted(ref_kids) and all(k in self.mesh.leaf_elements and k.parent is elem for k in kids)
            except Exception:
                ok = False
            if not ok:
                fails.append(("refine-matches-reference",
                              "return-value: refine({!r}) returned {!r}, not its four quadrant leaves".format(elem, kids)))
        return fails

    def _uniform(self, check):
        graded = not self.ref.is_uniform()
        clause = "uniform-refine-graded-completes" if graded else "uniform-refine-completes"
        self.view = None
        self.evaluated.append(clause)
        try:
            with guard(GUARD_UNIFORM):
                self.mesh.uniform_refine()
        except GuardTimeout as e:
            self.dead = "uniform_refine timed out"
            return [(clause, "timeout in uniform_refine()")]
        except Exception as e:
            msg = "{} in uniform_refine() on a mesh with leaf levels {}..{}".format(
                _exc_text(e), min(c[0] for c in self.ref.leaves), self.ref.max_level())
            fails = [(clause, msg)]
            # the state after the aborted call must still be a well-formed mesh; continue from it
            fails += self.check_state(compare=False)
            self.resync()
            return fails
        self.ref.uniform()
        return self.check_state() if check else []

    def _bdr(self, piece, l, k, orient, kind, check=True):
        dom = self.domain
        p0, p1, K0, K1, cell = segment(dom, piece, l, k)
        cov = self.ref.covering(cell)
        if cov is None:   # mesh already finer than the segment along that piece: no leaf edge contains it
            self.skipped = "mesh finer than segment"
            self.ops.pop()
            return []
        a, b = (p1, p0) if orient else (p0, p1)
        self.view = None
        self.evaluated.append("bdr-terminates")
        if (piece + l + k) % 2 == 0:
            # a caller may ask for the end points BEFORE the refinement creates them (read-only query; the answer may be None):
            # whatever the lookup remembers must not survive the refinement
            for pt in (p0, p1):
                try:
                    self.mesh.vertex_from_coords(as_input(pt, kind))
                except Exception:      # noqa  (the clause below reports look-ups that raise)
                    pass
        try:
            with guard(GUARD_BDR):
                elem = self.mesh.refine_msh_bdr(as_input(a, kind), as_input(b, kind))
        except (Exception, GuardTimeout) as e:
            self.dead = "refine_msh_bdr did not return"
            return [("bdr-terminates", "{} in refine_msh_bdr({!r}, {!r}) [{} input]".format(
                _exc_text(e), a, b, kind))]
        while True:
            cov = self.ref.covering(cell)
            if cov == cell:
                break
            self.ref.refine(cov)
        if not check:
            return []
        fails = self.check_state()
        want = {K0, K1}
        cache = {}

        def matching_edge(e):
            try:
                for u, w in e.edges:
                    if {_vkey(u, dom, cache), _vkey(w, dom, cache)} == want:
                        return (u, w)
            except Exception:
                return None
            return None

        self.evaluated += list(BDR_CLAUSES[1:])
        parents = {id(e.parent) for e in self.mesh.elements if e.parent is not None}
        edge = matching_edge(elem) if isinstance(elem, IM.Element) else None
        if edge is None or elem not in self.mesh.leaf_elements or id(elem) in parents:
            fails.append(("bdr-returns-leaf-with-that-edge",
                          "returned {!r} (leaf: {}) for segment {!r}--{!r}; it {} that edge".format(
                              elem, isinstance(elem, IM.Element) and elem in self.mesh.leaf_elements
                              and id(elem) not in parents, a, b, "has" if edge else "does not have")))
        holders = [e for e in self.mesh.elements if id(e) not in parents and matching_edge(e)]
        holders2 = [e for e in self.mesh.leaf_elements if matching_edge(e)]
        if len(holders) != 1 or len(holders2) != 1:
            fails.append(("bdr-exactly-one-leaf", "count: {} leaves ({} in leaf_elements) have the edge {!r}--{!r}: {!r}".format(
                len(holders), len(holders2), a, b, holders[:4])))
        for pt, K in ((p0, K0), (p1, K1)):
            for kd in KINDS:
                arg = as_input(pt, kd)
                try:
                    with guard(GUARD_BDR):
                        v = self.mesh.vertex_from_coords(arg)
                except (Exception, GuardTimeout) as e:
                    fails.append(("bdr-endpoints-retrievable", "raised: {} in vertex_from_coords({!r}) [{}]".format(
                        _exc_text(e), pt, kd)))
                    continue
                if v is None:
                    fails.append(("bdr-endpoints-retrievable", "none: vertex_from_coords({!r}) [{}] is None".format(pt, kd)))
                    continue
                try:
                    vk = (canon(v.x, dom), canon(v.y, dom))
                except Exception:
                    vk = None
                if vk != K:
                    fails.append(("bdr-endpoints-retrievable", "wrong-vertex: vertex_from_coords({!r}) [{}] is {!r}".format(
                        pt, kd, v)))
                elif edge is not None and v is not edge[0] and v is not edge[1]:
                    fails.append(("bdr-endpoints-retrievable", "not-the-edge-vertex: vertex_from_coords({!r}) [{}] is a "
                                  "different object than the end point of the returned leaf's edge".format(pt, kd)))
                elif not any(v is w for w in self.mesh.vertices):
                    fails.append(("bdr-endpoints-retrievable", "foreign: vertex_from_coords({!r}) is not in mesh.vertices".format(pt)))
        # one failure per clause is enough for one call
        out, seen = [], set()
        for c, m in fails:
            if c not in seen:
                seen.add(c)
                out.append((c, m))
        return out


def run_ops(domain, ops, check_last=True):
    """Fresh runner, execute ops (checks only after the last one).  -> (runner, failures)"""
    r = Runner(domain)
    fails = []
    if not ops and check_last:
        fails = r.check_state()
    for n, op in enumerate(ops):
        if r.dead:
            break
        last = n == len(ops) - 1
        f = r.apply(op, check=last and check_last)
        if last or r.dead:
            fails = f
    return r, fails


def run_script(script):
    """Several meshes alive at once.  script = [["build", id, domain] | ["op", id, op], ...]; every operation is checked on its own
    mesh, every mesh once more at the end.  -> (runners, {id: [(clause, message)]})"""
    runners, fails = {}, {}
    for ev in script:
        if ev[0] == "build":
            runners[ev[1]] = Runner(ev[2])
            continue
        r = runners[ev[1]]
        if r.dead:
            continue
        fails.setdefault(ev[1], []).extend(r.apply(ev[2], check=True))
    for rid, r in runners.items():
        if not r.dead:
            r.evaluated = []
            fails.setdefault(rid, []).extend(r.check_state())
    return runners, fails


def replay(scenario, clause, attempts=1):
    """-> (violated, message).  Violated iff `clause` fails after/while the LAST op of the scenario
    (or while executing an earlier one).  `attempts` > 1 only for clauses whose violation depends on
    the iteration order of a set of objects."""
    if scenario.get("script"):
        for _ in range(max(1, attempts)):
            _, fb = run_script(scenario["script"])
            for c, m in fb.get(scenario["main"], []):
                if c == clause:
                    return True, m
        return False, None
    for _ in range(max(1, attempts)):
        r, fails = run_ops(scenario["domain"], scenario["ops"])
        for c, m in fails:
            if c == clause:
                return True, m
    return False, None


def describe(scenario):
    """Human-readable list of the raw repository calls of a scenario."""
    d = scenario["domain"]
    out = ["mesh = {}()".format(CTOR_NAME[d])]
    if scenario.get("script"):
        out.append("# several meshes alive at once: the full interleaved schedule is scenario['script'] (this is mesh {!r})".format(scenario["main"]))
    unit = "*pi" if d == "pi" else ""
    for op in scenario["ops"]:
        if op[0] == "refine":
            l, i, j = op[1:4]
            out.append("mesh.refine(<leaf [{i}/{n},{i1}/{n}]{u} x [{j}/{n},{j1}/{n}]{u}, level {l}>)".format(
                i=i, i1=i + 1, j=j, j1=j + 1, n=1 << l, l=l, u=unit))
        elif op[0] == "uniform":
            out.append("mesh.uniform_refine()")
        else:
            piece, l, k, orient, kind = op[1:6]
            p0, p1 = segment(d, piece, l, k)[:2]
            a, b = (p1, p0) if orient else (p0, p1)
            out.append("mesh.refine_msh_bdr({!r}, {!r})  # as {}; piece {} level {} k {}".format(
                as_input(a, "tuple"), as_input(b, "tuple"), kind, piece, l, k))
    return out


def replay_code(scenario, clause):
    attempts = 40 if clause in ORDER_DEPENDENT else 1
    lines = ["# " + s for s in describe(scenario)]
    lines += ["import bounded.initial_explorer as ie",
              "scenario = {!r}".format(scenario),
              "violated, observed = ie.replay(scenario, {!r}, attempts={})".format(clause, attempts)]
    return "\n".join(lines) + "\n"


# ------------------------------------------------------------------------------------------------
# aggregation
# ------------------------------------------------------------------------------------------------
def _weight(scenario):
    """Length of a scenario for 'shortest first': a boundary call at level l counts as its l+1 steps."""
    return sum(op[2] + 1 if op[0] == "bdr" else 1 for op in scenario["ops"])


def _sig(msg):
    head = msg.split(":", 1)[0]
    return head if len(head) <= 40 else head[:40]


class Agg:
    """Per-worker / merged statistics.  Everything picklable and small."""

    def __init__(self):
        self.evals = {}      # (domain, clause) -> number of evaluations
        self.fails = {}      # (domain, clause, sig) -> dict(n, nops, scenario, msg)
        self.ops = {}        # (part, domain) -> operations executed and checked
        self.skipped = {}    # (part, domain) -> operations outside the precondition
        self.samples = {}    # part -> list
        self.extra = {}      # (part, domain, name) -> max value

    def note(self, runner, fails):
        d = runner.domain
        for c in runner.evaluated:
            self.evals[(d, c)] = self.evals.get((d, c), 0) + 1
        for c, m in fails:
            key = (d, c, _sig(m))
            sc = runner.last_scenario
            cur = self.fails.get(key)
            w = _weight(sc)
            if cur is None:
                self.fails[key] = dict(n=1, nops=w, scenario=sc, msg=m)
            else:
                cur["n"] += 1
                if w < cur["nops"] or (w == cur["nops"] and repr(sc) < repr(cur["scenario"])):
                    cur.update(nops=w, scenario=sc, msg=m)

    def count(self, part, domain, n=1, skipped=0):
        self.ops[(part, domain)] = self.ops.get((part, domain), 0) + n
        if skipped:
            self.skipped[(part, domain)] = self.skipped.get((part, domain), 0) + skipped

    def maxi(self, part, domain, name, val):
        k = (part, domain, name)
        self.extra[k] = max(self.extra.get(k, 0), val)

    def merge(self, other):
        for k, v in other.evals.items():
            self.evals[k] = self.evals.get(k, 0) + v
        for k, v in other.ops.items():
            self.ops[k] = self.ops.get(k, 0) + v
        for k, v in other.skipped.items():
            self.skipped[k] = self.skipped.get(k, 0) + v
        for k, v in other.extra.items():
            self.extra[k] = max(self.extra.get(k, 0), v)
        for k, v in other.fails.items():
            cur = self.fails.get(k)
            if cur is None:
                self.fails[k] = dict(v)
            else:
                n = cur["n"] + v["n"]
                if (v["nops"], repr(v["scenario"])) < (cur["nops"], repr(cur["scenario"])):
                    cur.update(v)
                cur["n"] = n
        for k, v in other.samples.items():
            self.samples.setdefault(k, [])
            if len(self.samples[k]) < 6:
                self.samples[k].extend(v[:6 - len(self.samples[k])])


def _state_hash(key):
    return hashlib.blake2b(repr(key).encode(), digest_size=8).digest()


# ------------------------------------------------------------------------------------------------
# part (a): BFS over all refine sequences
# ------------------------------------------------------------------------------------------------
def _bfs_expand(args):
    domain, histories = args
    agg = Agg()
    new = {}
    for hist in histories:
        ops = [["refine"] + list(c) for c in hist]
        base, _ = run_ops(domain, ops, check_last=False)
        if base.dead:      # cannot happen for a state that was admitted to the frontier
            agg.note(base, [("refine-completes", "prefix-replay: {}".format(base.dead))])
            continue
        if len(hist) <= UNIFORM_DEPTH:   # uniform_refine() on every state of small depth
            r, _ = run_ops(domain, ops, check_last=False)
            agg.note(r, r.apply(["uniform"]))
            agg.count("bfs", domain)
            agg.count("bfs-uniform", domain)
        for cell in sorted(base.ref.leaves):
            r, _ = run_ops(domain, ops, check_last=False)
            fails = r.apply(["refine"] + list(cell))
            agg.note(r, fails)
            agg.count("bfs", domain)
            if fails or r.dead:
                continue
            k = r.ref.key()
            if k not in new:
                new[k] = hist + [cell]
                agg.maxi("bfs", domain, "max_leaves", len(k))
                agg.maxi("bfs", domain, "max_level", r.ref.max_level())
    return domain, new, agg


def _chunks(seq, n):
    n = max(1, n)
    size = max(1, (len(seq) + n - 1) // n)
    return [seq[i:i + size] for i in range(0, len(seq), size)]


def part_bfs(pool_map, depths, agg, nworkers):
    """Level-synchronous BFS; the three domains advance together so that all workers stay busy."""
    seen = {d: {} for d in depths}
    frontier = {}
    per_depth = {d: [] for d in depths}
    for d in depths:
        r = Runner(d)
        fails = r.check_state()
        agg.note(r, fails)
        agg.count("bfs", d)
        seen[d][r.ref.key()] = []
        frontier[d] = [] if fails else [[]]
    level = 0
    while any(frontier[d] and level < depths[d] for d in depths):
        tasks = []
        for d in depths:
            if level < depths[d] and frontier[d]:
                # many small chunks: cost per state grows with its number of leaves
                for ch in _chunks(frontier[d], nworkers * 4):
                    tasks.append((d, ch))
        frontier = {d: [] for d in depths}
        for d, new, a in pool_map(_bfs_expand, tasks):
            agg.merge(a)
            for k, h in new.items():
                if k not in seen[d]:
                    seen[d][k] = h
                    frontier[d].append(h)
        for d in depths:
            if level < depths[d]:
                frontier[d].sort()
                per_depth[d].append(len(frontier[d]))
        level += 1
    out = {}
    for d in depths:
        states = seen[d]
        nontrivial = sum(1 for k in states if len(k) > 1)
        deepest = max(states.items(), key=lambda kv: (len(kv[1]), len(kv[0])))
        out[d] = dict(states=len(states), nontrivial=nontrivial, new_states_per_depth=per_depth[d],
                      sample=dict(part="refine-bfs", domain=d, history=[list(c) for c in deepest[1]],
                                  leaves=len(deepest[0]), states=len(states),
                                  new_states_per_depth=per_depth[d]))
    return out


# ------------------------------------------------------------------------------------------------
# part (b): random histories
# ------------------------------------------------------------------------------------------------
def _random_history(args):
    domain, seed, steps, cap = args
    rng = random.Random("C16-random-{}-{}".format(domain, seed))
    agg = Agg()
    r = Runner(domain)
    hashes = set()
    n_uniform = n_graded = 0
    style = rng.choice(("uniform-leaf", "deep", "corner", "mixed"))
    target = (rng.random(), rng.random())
    for step in range(steps):
        if r.dead:
            break
        leaves = sorted(r.ref.leaves)
        n = len(leaves)
        if n >= cap:
            break
        u = rng.random()
        if (step < 3 and u < 0.5 and r.ref.is_uniform()) or (u < 0.04 and 4 * n <= cap and n <= 400):
            op = ["uniform"]
            if r.ref.is_uniform():
                n_uniform += 1
            else:
                n_graded += 1
        else:
            if style == "deep" or (style == "mixed" and rng.random() < 0.5):
                ml = r.ref.max_level()
                cand = [c for c in leaves if c[0] == ml]
                cell = rng.choice(cand)
            elif style == "corner":
                # refine towards a fixed point of the domain: long chains of forced refinements
                roots = ROOTS[domain]
                rt = roots[int(target[0] * len(roots)) % len(roots)]
                px = int((rt[0] + target[1]) * SCALE)
                py = int((rt[1] + target[0]) * SCALE)
                cand = [c for c, b in r.ref.leaves.items() if b[0] <= px <= b[2] and b[1] <= py <= b[3]]
                cell = rng.choice(sorted(cand)) if cand and rng.random() < 0.8 else rng.choice(leaves)
            else:
                cell = rng.choice(leaves)
            if cell[0] >= MAX_RANDOM_LEVEL:
                cell = rng.choice([c for c in leaves if c[0] < MAX_RANDOM_LEVEL])
            op = ["refine"] + list(cell)
        fails = r.apply(op)
        agg.note(r, fails)
        agg.count("random", domain)
        if not r.dead:
            hashes.add(_state_hash(r.ref.key()))
    if not r.dead:
        agg.maxi("random", domain, "max_leaves", len(r.ref.leaves))
        agg.maxi("random", domain, "max_level", r.ref.max_level())
    sample = dict(part="refine-random", domain=domain, seed=seed, style=style, ops=len(r.ops),
                  leaves=len(r.ref.leaves), max_level=r.ref.max_level(), uniform_calls=n_uniform,
                  uniform_calls_on_graded_mesh=n_graded, first_ops=[list(o) for o in r.ops[:6]])
    agg.samples["random"] = [sample]
    return domain, hashes, agg


def _interleaved_history(args):
    """three domain meshes alive at once (two of them of the same polygon), constructed at different moments, operations alternate"""
    seed, steps = args
    rng = random.Random("C16-interleaved-{}".format(seed))
    agg = Agg()
    doms = [rng.choice(DOMAINS), rng.choice(DOMAINS)]
    doms.append(doms[0])                              # a second mesh of the same polygon
    pattern = seed % 3
    script, runners = [], {}

    def build(rid):
        script.append(["build", rid, doms[rid]])
        runners[rid] = Runner(doms[rid])

    def op(rid):
        r = runners[rid]
        if r.dead:
            return
        leaves = sorted(r.ref.leaves)
        u = rng.random()
        if u < 0.06 and r.ref.is_uniform() and len(leaves) <= 64:
            o = ["uniform"]
        elif u < 0.25:
            npieces = len(pieces(r.domain))
            l = rng.randrange(0, 4)
            o = ["bdr", rng.randrange(npieces), l, rng.randrange(1 << l), rng.randrange(2), rng.choice(["tuple", "list", "array"])]
        else:
            cand = [c for c in leaves if c[0] < MAX_RANDOM_LEVEL]
            o = ["refine"] + list(rng.choice(cand))
        script.append(["op", rid, o])
        fails = r.apply(o)
        r.last_scenario = dict(r.last_scenario, script=[list(e) for e in script], main=rid)
        agg.note(r, fails)
        agg.count("interleaved", r.domain)
    if pattern == 0:
        build(0), build(1), build(2)
    elif pattern == 1:
        build(0), build(1)
        op(1)
        build(2)
    else:
        build(0)
        op(0), op(0)
        build(1), build(2)
    for step in range(steps):
        op(rng.randrange(3))
    for rid, r in runners.items():
        if not r.dead:
            r.evaluated = []
            fails = r.check_state()
            r.last_scenario = dict(r.scenario(), script=[list(e) for e in script], main=rid)
            agg.note(r, fails)
    agg.samples["interleaved"] = [dict(part="interleaved", domains=doms, pattern=pattern, events=len(script))]
    return agg


# ------------------------------------------------------------------------------------------------
# part (c): boundary targeting
# ------------------------------------------------------------------------------------------------
def _bdr_fresh(args):
    """All listed (piece, l, k) on a fresh mesh: both orientations, input kinds per the rotation rule."""
    domain, items = args
    agg = Agg()
    segs = set()
    for piece, l, k in items:
        n = 0
        for orient in (0, 1):
            kinds = KINDS if l <= 3 else (KINDS[(piece + l + k + orient) % 3],)
            for kind in kinds:
                r = Runner(domain)
                fails = r.apply(["bdr", piece, l, k, orient, kind])
                agg.note(r, fails)
                n += 1
        agg.count("bdr", domain, n)
        segs.add((domain, piece, l, k))
        agg.maxi("bdr", domain, "max_level", l)
    return domain, segs, agg


def _bdr_prefined(args):
    """Boundary targeting on meshes that were refined before: a random refine history and/or earlier
    refine_msh_bdr calls.  Segments for which no leaf edge contains the segment any more (mesh
    already finer there) are outside the operation's domain and counted as skipped."""
    domain, seed, ncalls, L = args
    rng = random.Random("C16-bdr-{}-{}".format(domain, seed))
    agg = Agg()
    segs = set()
    r = Runner(domain)
    npieces = len(pieces(domain))
    mode = rng.choice(("history", "chain", "both"))
    if mode in ("history", "both"):
        for _ in range(rng.randint(1, 10)):
            if r.dead:
                break
            leaves = sorted(r.ref.leaves)
            bleaves = leaves if rng.random() < 0.5 else [c for c in leaves if c[0] == r.ref.max_level()]
            fails = r.apply(["refine"] + list(rng.choice(bleaves)))
            agg.note(r, fails)
            agg.count("bdr-prefix", domain)
    calls = ncalls if mode != "history" else 2
    for _ in range(calls):
        if r.dead:
            break
        piece = rng.randrange(npieces)
        l = rng.randint(0, L)
        k = rng.randrange(1 << l) if rng.random() < 0.7 else rng.choice((0, (1 << l) - 1))
        op = ["bdr", piece, l, k, rng.randint(0, 1), rng.choice(KINDS)]
        fails = r.apply(op)
        if r.skipped:
            agg.count("bdr", domain, 0, skipped=1)
            continue
        agg.note(r, fails)
        agg.count("bdr", domain)
        agg.count("bdr-on-refined", domain)
        segs.add((domain, piece, l, k))
    agg.samples["bdr"] = [dict(part="boundary", domain=domain, seed=seed, mode=mode,
                               ops=[list(o) for o in r.ops[-4:]], leaves=len(r.ref.leaves))]
    return domain, segs, agg


# ------------------------------------------------------------------------------------------------
# replay confirmation
# ------------------------------------------------------------------------------------------------
def _confirm(code):
    from vlib.replay import run_replay
    res = None
    for _ in range(3):
        res = run_replay(code, raises_is_violation=True, timeout=300)
        if res.get("violated"):
            break
    return res


# ------------------------------------------------------------------------------------------------
# entry point
# ------------------------------------------------------------------------------------------------
TIERS = {
    "quick": dict(depth={"unit": 5, "pi": 5, "lshape": 4}, histories=12, steps=60, cap=3000,
                  L=8, prefined=200, prefined_calls=6, interleaved=12, interleaved_steps=24),
    "thorough": dict(depth={"unit": 6, "pi": 5, "lshape": 5}, histories=32, steps=200, cap=3000,
                     L=10, prefined=600, prefined_calls=8, interleaved=48, interleaved_steps=40),
}


def _params(tier):
    p = dict(TIERS["thorough" if tier == "thorough" else "quick"])
    p["depth"] = dict(p["depth"])
    env = os.environ.get("C16_BFS_DEPTH")       # debugging override: "4" or "unit=5,pi=4,lshape=3"
    if env:
        for tok in env.split(","):
            if "=" in tok:
                d, v = tok.split("=")
                p["depth"][d.strip()] = int(v)
            else:
                p["depth"] = {d: int(tok) for d in DOMAINS}
    if os.environ.get("C16_BDR_LEVEL"):
        p["L"] = int(os.environ["C16_BDR_LEVEL"])
    return p


def run(chk, tier, seed, workers=None):
    """chk is a vlib.core.Check for property C16."""
    t_start = time.time()
    p = _params(tier)
    seed = int(seed or 0)
    nworkers = workers or max(1, min(16, os.cpu_count() or 1))
    agg = Agg()
    timing = {}
    ctx = multiprocessing.get_context("fork")
    pool = ctx.Pool(nworkers) if nworkers > 1 else None

    def pool_map(fn, tasks):
        if not tasks:
            return []
        if pool is None:
            return [fn(t) for t in tasks]
        return pool.imap_unordered(fn, tasks, chunksize=1)

    try:
        # ---- (b) is submitted first (long independent tasks), (a) is level-synchronous, (c) fills the tail ----
        t0 = time.time()
        rnd_tasks = [(d, seed * 100003 + h, p["steps"], p["cap"]) for h in range(p["histories"]) for d in DOMAINS]
        bdr_tasks = []
        for d in DOMAINS:
            items = [(pc, l, k) for l in range(p["L"], -1, -1) for pc in range(len(pieces(d))) for k in range(1 << l)]
            for ch in _chunks(items, max(1, len(items) // 150)):
                bdr_tasks.append((d, ch))
        pre_tasks = [(d, seed * 100003 + n, p["prefined_calls"], p["L"]) for n in range(p["prefined"]) for d in DOMAINS]
        il_tasks = [(seed * 7919 + n, p.get("interleaved_steps", 24)) for n in range(p.get("interleaved", 12))]
        if pool is not None:   # long tasks first; the many small boundary tasks fill the tail
            async_rnd = pool.map_async(_random_history, rnd_tasks, chunksize=1)
            async_il = pool.map_async(_interleaved_history, il_tasks, chunksize=1)

        bfs = part_bfs(pool_map, p["depth"], agg, nworkers)
        timing["bfs_and_random_s"] = round(time.time() - t0, 2)

        if pool is not None:
            async_bdr = pool.map_async(_bdr_fresh, bdr_tasks, chunksize=1)
            async_pre = pool.map_async(_bdr_prefined, pre_tasks, chunksize=4)
            rnd_res, bdr_res, pre_res = async_rnd.get(), async_bdr.get(), async_pre.get()
            il_res = async_il.get()
        else:
            il_res = [_interleaved_history(t) for t in il_tasks]
            rnd_res = [_random_history(t) for t in rnd_tasks]
            bdr_res = [_bdr_fresh(t) for t in bdr_tasks]
            pre_res = [_bdr_prefined(t) for t in pre_tasks]
        timing["all_parts_s"] = round(time.time() - t0, 2)
    except BaseException:
        if pool is not None:
            pool.terminate()
            pool.join()
        raise
    if pool is not None:
        pool.close()
        pool.join()

    rnd_states = {d: set() for d in DOMAINS}
    for d, hashes, a in rnd_res:
        rnd_states[d] |= hashes
        agg.merge(a)
    for a in il_res:
        agg.merge(a)
    chk.add_bounded("interleaved-meshes", sum(agg.ops.get(("interleaved", d), 0) for d in DOMAINS), len(il_tasks),
                    bound="{} seeded schedules with three domain meshes alive at once (two of the same polygon; all constructed first / one "
                          "constructed after the first operation of another / after two operations), {} alternating operations (refine, "
                          "uniform_refine, refine_msh_bdr)".format(len(il_tasks), il_tasks[0][1] if il_tasks else 0),
                    rule="evaluation = one real operation checked in lock-step with its own reference + invariant; every mesh once more at the end",
                    samples=agg.samples.get("interleaved", [])[:2])
    segs = {d: set() for d in DOMAINS}
    for d, s, a in list(bdr_res) + list(pre_res):
        segs[d] |= s
        agg.merge(a)

    # ---- bounded-part bookkeeping (measured) ------------------------------------------------------
    for d in DOMAINS:
        b = bfs[d]
        chk.add_bounded(
            "refine-bfs", agg.ops.get(("bfs", d), 0), b["nontrivial"],
            bound="all sequences of mesh.refine(leaf) of length <= {} on {}".format(
                ", ".join("{} ({})".format(p["depth"][x], x) for x in DOMAINS), "/".join(DOMAINS)),
            rule="evaluation = one real refine(leaf) (after replaying its history on a fresh mesh) checked in "
                 "lock-step against the reference and the invariant; distinct = distinct canonical leaf sets "
                 "with more than one leaf",
            samples=[b["sample"]])
        chk.add_bounded(
            "refine-random", agg.ops.get(("random", d), 0), len(rnd_states[d]),
            bound="{} seeded histories per domain of <= {} operations (refine of a random leaf, uniform_refine), "
                  "<= {} leaves".format(p["histories"], p["steps"], p["cap"]),
            rule="evaluation = one real operation checked in lock-step + invariant; distinct = distinct canonical "
                 "leaf sets reached (hash of the sorted cell list)",
            samples=[s for s in agg.samples.get("random", []) if s["domain"] == d][:2])
        chk.add_bounded(
            "boundary-targeting", agg.ops.get(("bdr", d), 0), len(segs[d]),
            bound="every segment [k/2^l,(k+1)/2^l] (times pi for the pi square) of every unit boundary piece, "
                  "l <= {}, both orientations, tuple/list/(2,1)-array end points (all three for l <= 3, rotating "
                  "above), fresh mesh; plus {} seeded pre-refined meshes per domain".format(p["L"], p["prefined"]),
            rule="evaluation = one real refine_msh_bdr call with all bdr-* clauses and the invariant checked; "
                 "distinct = distinct (domain, piece, l, k)",
            samples=[dict(part="boundary", domain=d, segments=len(segs[d]), calls=agg.ops.get(("bdr", d), 0),
                          calls_on_refined_mesh=agg.ops.get(("bdr-on-refined", d), 0),
                          skipped_mesh_finer_than_segment=agg.skipped.get(("bdr", d), 0))]
                    + [s for s in agg.samples.get("bdr", []) if s["domain"] == d][:1])

    # ---- obligations -----------------------------------------------------------------------------
    by_clause = {}
    for (d, c, sig), f in agg.fails.items():
        by_clause.setdefault((d, c), []).append((f["nops"], repr(f["scenario"]), sig, f))
    todo = []
    for (d, c), lst in by_clause.items():
        lst.sort(key=lambda t: t[:3])
        for n, (_, _, sig, f) in enumerate(lst[:5]):
            todo.append((d, c, n, sig, f, replay_code(f["scenario"], c)))
    if todo:
        from multiprocessing.pool import ThreadPool
        with ThreadPool(min(8, len(todo))) as tp:
            outcomes = tp.map(_confirm, [t[5] for t in todo])
    else:
        outcomes = []
    failed_clauses = set()
    for (d, c, n, sig, f, code), res in zip(todo, outcomes):
        failed_clauses.add((d, c))
        if c in OUTSIDE_STATEMENT:
            chk.notes.append("observation outside C16's statement: {}/{}: {} ({})".format(d, c, f["msg"], describe(f["scenario"])[:3]))
            continue
        name = "{}/bounded/{}/{}".format(PID, d, c) + ("" if n == 0 else "/witness={}".format(n + 1))
        confirmed = bool(res and res.get("violated"))
        chk.add(Ob(name, FAILED, kind="bounded", backend="explorer",
                   detail=dict(message=f["msg"], signature=sig, occurrences=f["n"], scenario_length=f["nops"],
                               calls=describe(f["scenario"]), scenario=f["scenario"],
                               distinct_signatures_for_clause=len(by_clause[(d, c)]),
                               evaluations=agg.evals.get((d, c), 0)),
                   replay=dict(code=code, confirmed=confirmed, raises_is_violation=True, outcome=res)))
    for d in DOMAINS:
        for c in ALL_CLAUSES:
            if (d, c) in failed_clauses or c in OUTSIDE_STATEMENT:
                continue
            n = agg.evals.get((d, c), 0)
            if n > 0:
                chk.add(Ob("{}/bounded/{}/{}".format(PID, d, c), DISCHARGED, kind="bounded", backend="explorer",
                           detail=dict(evaluations=n)))
            else:
                blockers = sorted(cc for dd, cc in failed_clauses if dd == d)
                chk.add(Ob("{}/bounded/{}/{}".format(PID, d, c), UNDECIDED, kind="bounded", backend="explorer",
                           detail=dict(evaluations=0, reason="never reached: every scenario that would evaluate this "
                                       "clause stopped earlier", failing_clauses=blockers)))
    timing["total_s"] = round(time.time() - t_start, 2)
    chk.extra.setdefault("explorer", {})["initial_mesh"] = dict(
        params=p, workers=nworkers, timing=timing,
        bfs={d: {k: v for k, v in bfs[d].items() if k != "sample"} for d in DOMAINS},
        random={d: dict(states=len(rnd_states[d]),
                        max_leaves=agg.extra.get(("random", d, "max_leaves"), 0),
                        max_level=agg.extra.get(("random", d, "max_level"), 0)) for d in DOMAINS},
        boundary={d: dict(segments=len(segs[d]), calls=agg.ops.get(("bdr", d), 0),
                          on_refined=agg.ops.get(("bdr-on-refined", d), 0),
                          skipped=agg.skipped.get(("bdr", d), 0)) for d in DOMAINS},
        clause_evaluations={"{}/{}".format(d, c): n for (d, c), n in sorted(agg.evals.items())})
    return chk


def main(argv):
    tier = argv[1] if len(argv) > 1 else "quick"
    seed = int(argv[2]) if len(argv) > 2 else 0
    chk = Check(PID, tier, seed, "bounded", "python -m bounded.initial_explorer " + tier)
    t0 = time.time()
    run(chk, tier, seed)
    info = chk.extra["explorer"]["initial_mesh"]
    print("repo:", REPO, " module:", IM.__file__)
    print("params:", info["params"], "workers:", info["workers"])
    print("timing:", info["timing"])
    print("bfs:", info["bfs"])
    print("random:", info["random"])
    print("boundary:", info["boundary"])
    for name, b in chk.bounded.items():
        print("bounded {:20s} evaluations={} distinct_nontrivial={}".format(name, b["evaluations"],
                                                                          b["distinct_nontrivial"]))
    nd = sum(1 for o in chk.obs if o.status == DISCHARGED)
    print("obligations: {} discharged, {} failed, {} undecided".format(
        nd, sum(1 for o in chk.obs if o.status == FAILED), sum(1 for o in chk.obs if o.status == UNDECIDED)))
    for o in chk.obs:
        if o.status == FAILED:
            print("FAILED", o.name, "x{}".format(o.detail["occurrences"]), "confirmed=" + str(o.replay["confirmed"]))
            print("   ", o.detail["message"])
            for ln in o.detail["calls"][:12]:
                print("      ", ln)
        elif o.status == UNDECIDED:
            print("UNDECIDED", o.name, o.detail.get("failing_clauses"))
    print("wall {:.1f}s".format(time.time() - t0))
    return 1 if any(o.status == FAILED for o in chk.obs) else 0


if __name__ == "__main__":
    sys.exit(main(sys.argv))
