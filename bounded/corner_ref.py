"""C14 bounded stand-in for the corner clause: the two-piece H^{1/2} routine over two straight pieces meeting at an angle
against an independent geometrically graded reference of the double integral with Euclidean distances.

Bound: orders N in {11, 21}, interior angles {90, 120, 135, 180, 225, 270 degrees and seeded random ones in [80, 280]}, unequal legs,
polynomial data of degree <= 2 in the embedded coordinates, random rigid placement; tolerance 2e-3 relative at N = 21 and 2e-2 at
N = 11 (measured on the unchanged tree for N = 21: 1e-9..2e-4 depending on angle, leg ratio and data -- e.g. 1.8e-6 at 270 degrees with
legs 1.5 / 0.25, 2e-4 at 275 degrees with legs 2 / 0.1 --, 0 at 180; the cross-term rule is not exact for
non-collinear pieces and loses accuracy for acute angles -- 1e-4 at 33 degrees -- which the shipped curves do not have; the
property states no digits for this clause, so it stays a bounded digits statement).
"""
import math
import random
import sys

from vlib.core import REPO, Ob, DISCHARGED, FAILED

if REPO not in sys.path:
    sys.path.insert(0, REPO)


def reference(F, h1, h2, levels=40, n=24):
    """int_0^h1 int_0^h2 F(s, t) dt ds with F bounded and singular-derivative at (0,0): dyadic shells + tensor Gauss"""
    import numpy as np
    x, w = np.polynomial.legendre.leggauss(n)
    x, w = 0.5 * (x + 1), 0.5 * w

    def box(s0, s1, t0, t1):
        S = s0 + (s1 - s0) * x[:, None]
        T = t0 + (t1 - t0) * x[None, :]
        return (s1 - s0) * (t1 - t0) * float(np.sum(w[:, None] * w[None, :] * F(S, T)))
    tot = 0.0
    for k in range(levels):
        s1, t1 = h1 / 2 ** k, h2 / 2 ** k
        s0, t0 = s1 / 2, t1 / 2
        tot += box(s0, s1, 0, t0) + box(0, s0, t0, t1) + box(s0, s1, t0, t1)
    return tot


def one_case(N, angle_deg, h1, h2, coef, rot, shift):
    """returns (got, want): the cross term 2 * semi_1_2_pw.integrate(...) part is compared through the full routine"""
    import numpy as np
    from src.norms import Slobodeckij
    S = Slobodeckij(N)
    th = math.radians(angle_deg)
    c, s_ = math.cos(rot), math.sin(rot)
    Rm = np.array([[c, -s_], [s_, c]])
    corner = np.array([[shift[0]], [shift[1]]])
    d1 = Rm @ np.array([[1.0], [0.0]])                       # piece 1 runs towards the corner along d1
    d2 = Rm @ np.array([[-math.cos(th)], [math.sin(th)]])      # interior angle th between the two legs
    a1, b1, a2, b2 = 0.3, 0.3 + h1, 1.7, 1.7 + h2
    g1 = lambda x: corner + (x - b1) * d1
    g2 = lambda y: corner + (y - a2) * d2
    # make the shared point bit-identical (the routine asserts exact equality)
    assert np.all(g1(b1) == g2(a2))

    def u(P):
        X, Y = P[0], P[1]
        return coef[0] + coef[1] * X + coef[2] * Y + coef[3] * X * Y + coef[4] * X * X + coef[5] * Y * Y
    f = lambda xh, g: u(g(xh))
    got = S.seminorm_h_1_2_pw(f, a1, b1, g1, a2, b2, g2)
    flat1 = S.seminorm_h_1_2(f, a1, b1, g1)
    flat2 = S.seminorm_h_1_2(f, a2, b2, g2)

    def F(Sg, Tg):
        # s = distance from the corner along piece 1, t along piece 2
        P1 = corner.reshape(2, 1, 1) + (-Sg)[None] * d1.reshape(2, 1, 1)
        P2 = corner.reshape(2, 1, 1) + Tg[None] * d2.reshape(2, 1, 1)
        num = (u(P1) - u(P2)) ** 2
        den = np.sum((P1 - P2) ** 2, axis=0)
        return num / den
    want = flat1 + flat2 + 2 * reference(F, h1, h2)
    return float(got), float(want)


def run(chk, tier, seed):
    rng = random.Random(seed)
    angles = [90.0, 120.0, 135.0, 180.0, 225.0, 270.0] + [rng.uniform(80, 280) for _ in range(3 if tier == "quick" else 12)]
    results = {}
    n = 0
    samples = []
    for N in (11, 21):
        tol = 2e-2 if N == 11 else 2e-3
        worst = (0.0, None)
        for ang in angles:
            for (h1, h2) in ((1.0, 1.0), (0.5, 2.0), (1.5, 0.25)):
                coef = [rng.uniform(-1, 1) for _ in range(6)]
                rot, shift = rng.uniform(0, 6.28), (rng.uniform(-2, 2), rng.uniform(-2, 2))
                try:
                    got, want = one_case(N, ang, h1, h2, coef, rot, shift)
                except AssertionError:
                    continue       # the routine insists on a bit-identical shared point; placements where rounding breaks it are skipped
                n += 1
                rel = abs(got - want) / max(abs(want), 1e-12)
                if rel > worst[0]:
                    worst = (rel, dict(N=N, angle=ang, h=(h1, h2), coef=coef, rot=rot, shift=shift, got=got, want=want, rel=rel))
                if len(samples) < 3:
                    samples.append(dict(N=N, angle=ang, legs=[h1, h2], rel_err=rel))
        name = "C14/bounded/corner/N={}/two-piece-equals-euclidean-double-integral".format(N)
        if worst[0] <= tol:
            chk.add(Ob(name, DISCHARGED, kind="bounded", backend="runtime-contract", detail=dict(max_rel=worst[0], tol=tol)))
        else:
            w = worst[1]
            code = ("from bounded import corner_ref\ngot, want = corner_ref.one_case({N}, {angle!r}, {h1!r}, {h2!r}, {coef!r}, {rot!r}, {shift!r})\n"
                    "observed = (got, want)\nviolated = abs(got - want) > {tol!r} * max(abs(want), 1e-12)\n").format(
                        N=w["N"], angle=w["angle"], h1=w["h"][0], h2=w["h"][1], coef=w["coef"], rot=w["rot"], shift=w["shift"], tol=tol)
            chk.add(Ob(name, FAILED, kind="bounded", backend="runtime-contract", detail=w,
                       replay=dict(code=code, confirmed=True, raises_is_violation=True)))
    chk.add_bounded("two-piece H^1/2 at corners vs graded Euclidean reference", n, n,
                    "orders 11, 21; angles {} ; legs (1,1), (0.5,2), (1.5,0.25); random quadratic data and rigid placement".format(
                        [round(a, 1) for a in angles]),
                    "one case per (order, angle, legs); all non-trivial", samples)


if __name__ == "__main__":
    import json
    for N in (11, 21):
        for ang in (60.0, 90.0, 135.0, 180.0, 270.0, 33.3):
            g, w = one_case(N, ang, 0.5, 2.0, [0.3, 1, -0.5, 0.7, 0.2, -0.4], 0.7, (0.3, -1.1))
            print(N, ang, g, w, abs(g - w) / abs(w))
