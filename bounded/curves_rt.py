"""C18 bounded run-time contract on the shipped curves and on MeshParametrized (floating point).

Bound: 5 shipped curves + seeded random axis-parallel polygons accepted by the constructor; parameters: break points, their
neighbours, 200 random; time grids with 1..6 slabs; refinement histories of 40 random bisections.
"""
import contextlib
import io
import math
import random
import sys

from vlib.core import REPO, Ob, DISCHARGED, FAILED

if REPO not in sys.path:
    sys.path.insert(0, REPO)

CURVES = ["UnitSquare", "PiSquare", "LShape", "Circle", "UnitInterval"]


def curve_checks(name, rng, report):
    import numpy as np
    from src import parametrization as P
    with contextlib.redirect_stdout(io.StringIO()):
        g = getattr(P, name)()
    L = g.gamma_length
    n = 0
    # piece lengths equal side lengths; continuity at break points; closedness
    for i in range(len(g.pw_gamma)):
        a, b = g.pw_start[i], g.pw_start[i + 1]
        pa, pb = g.pw_gamma[i](a), g.pw_gamma[i](b)
        if name != "Circle":
            report(name, "piece-length-equals-side-length", abs(np.linalg.norm(pb - pa) - (b - a)) <= 1e-12 * max(1, b - a), dict(piece=i))
        if i + 1 < len(g.pw_gamma):
            report(name, "continuous-at-break-points", np.allclose(pb, g.pw_gamma[i + 1](b), atol=1e-12), dict(piece=i))
        n += 2
    if g.closed:
        report(name, "closed-curve-returns-to-start", np.allclose(g.pw_gamma[-1](L), g.pw_gamma[0](0.0), atol=1e-12), {})
    # arc length on every piece; eval agrees with the piece containing the parameter
    xs = sorted(set([0.0, L] + list(g.pw_start) + [rng.uniform(0, L) for _ in range(200)]))
    for x in xs:
        i = max(k for k in range(len(g.pw_gamma)) if g.pw_start[k] <= x) if x < L else len(g.pw_gamma) - 1
        i = min(i, len(g.pw_gamma) - 1)
        ev = g.eval(np.array([x]))
        report(name, "eval-agrees-with-containing-piece", np.allclose(ev, g.pw_gamma[i](np.array([x])), atol=1e-12), dict(x=x))
        h = 1e-6
        if g.pw_start[i] + h < x < g.pw_start[i + 1] - h:
            d = (g.pw_gamma[i](x + h) - g.pw_gamma[i](x - h)) / (2 * h)
            report(name, "arc-length-on-every-piece", abs(float(np.linalg.norm(d)) - 1) < 1e-8, dict(x=x))
        n += 2
    # vectorised evaluation: the value at a parameter must not depend on the other entries of the array or on their order
    # (ascending, descending, shuffled, with repeated break points)
    base = [x for x in xs if 0 < x < L]
    single = {x: g.eval(np.array([x]))[:, 0] for x in base}
    for kind in ("ascending", "descending", "shuffled"):
        arr = list(base)
        if kind == "descending":
            arr.reverse()
        elif kind == "shuffled":
            rng.shuffle(arr)
        ev = g.eval(np.array(arr))
        ok = all(np.allclose(ev[:, k], single[x], atol=1e-12) for k, x in enumerate(arr))
        report(name, "eval-of-an-array-equals-pointwise-eval/" + kind, ok, dict(n=len(arr)))
        n += 1
    return n


def mesh_checks(name, rng, report, tier):
    import numpy as np
    from src import parametrization as P
    from src.mesh import MeshParametrized
    n = 0
    for slabs in range(1, 7):
        tgrid = [k / slabs for k in range(slabs + 1)]
        with contextlib.redirect_stdout(io.StringIO()):
            g = getattr(P, name)()
            mesh = MeshParametrized(g, initial_time_mesh=tgrid)
            for step in range(0 if slabs > 3 and tier == "quick" else 40):
                leaves = list(mesh.leaf_elements)
                e = leaves[rng.randrange(len(leaves))]
                (mesh.refine_space if rng.random() < 0.6 else mesh.refine_time)(e)
                n += 1
                if step not in (0, 39):
                    continue
                check_mesh(name, g, mesh, slabs, report)
            check_mesh(name, g, mesh, slabs, report)
    # user-chosen initial space grids that contain the break points but subdivide the pieces unevenly (the number of elements per
    # slab is then not a multiple of the number of pieces), with 1..3 slabs
    g = getattr(P, name)()
    bp = [float(x) for x in g.pw_start]
    grids = [sorted(set(bp + [(bp[0] + bp[1]) / 2])),
             sorted(set(bp + [bp[-2] + (bp[-1] - bp[-2]) / 4, bp[-2] + (bp[-1] - bp[-2]) / 2, (bp[0] + bp[1]) / 2]))]
    # grids graded geometrically towards every interior break point from both sides (ratios 1/2, 1/4, 1/10; the narrowest root next to
    # a corner is 2^-20, 4^-10, 10^-7 wide): a piece is chosen by exact comparison with the break points, never "close to" them
    if len(bp) > 2:
        for q, kmax in ((0.5, 20), (0.25, 10), (0.1, 7)):
            pts = set(bp)
            for b in bp[1:-1]:
                for k in range(1, kmax + 1):
                    pts.add(b - q ** k)
                    pts.add(b + q ** k)
            grids.append(sorted(x for x in pts if bp[0] <= x <= bp[-1]))
    for gi, grid in enumerate(grids):
        for slabs in (1, 2, 3):
            tgrid = [k / slabs for k in range(slabs + 1)]
            with contextlib.redirect_stdout(io.StringIO()):
                mesh = MeshParametrized(g, initial_space_mesh=grid, initial_time_mesh=tgrid)
                check_mesh(name, g, mesh, "{}/space-grid#{}".format(slabs, gi + 1), report)
                for _ in range(10):
                    leaves = list(mesh.leaf_elements)
                    e = leaves[rng.randrange(len(leaves))]
                    (mesh.refine_space if rng.random() < 0.6 else mesh.refine_time)(e)
                check_mesh(name, g, mesh, "{}/space-grid#{}".format(slabs, gi + 1), report)
            n += 12
    return n + 6


def check_mesh(name, g, mesh, slabs, report):
    L = g.gamma_length
    ok_piece, ok_touch = True, True
    leaves = list(mesh.leaf_elements)
    for e in leaves:
        x0, x1 = e.space_interval
        owners = [i for i in range(len(g.pw_gamma)) if g.pw_start[i] <= x0 and x1 <= g.pw_start[i + 1]]
        if not owners or e.gamma_space is not g.pw_gamma[owners[0]]:
            ok_piece = False
    report(name, "element-carries-the-piece-containing-its-interval/slabs={}".format(slabs), ok_piece, {})
    if g.closed:
        # every time level: at least three elements around the curve; two distinct elements touch in at most one end point
        times = sorted({e.time_interval[0] for e in leaves} | {e.time_interval[1] for e in leaves})
        worst = None
        for a, b in zip(times, times[1:]):
            tm = 0.5 * (a + b)
            ring = [e for e in leaves if e.time_interval[0] <= tm < e.time_interval[1]]
            if worst is None or len(ring) < worst:
                worst = len(ring)
        report(name, "closed-curve-at-least-three-elements-per-slab/slabs={}".format(slabs), worst is not None and worst >= 3, dict(min_ring=worst))


def alias_checks(name, rng, report):
    """A curve stays the curve it was built as: the caller's vertex arrays (float64 and integer) are modified in place after the
    construction (and after a mesh was built on it); every piece, the whole-curve evaluation and the break points are unchanged."""
    import numpy as np
    from src import parametrization as P
    from src.mesh import MeshParametrized
    n = 0
    for dtype in (float, int):
        for (w, h) in ((1, 1), (2, 1), (3, 2)):
            verts = [np.array(v, dtype=dtype) for v in ((0, 0), (w, 0), (w, h), (0, h), (0, 0))]
            with contextlib.redirect_stdout(io.StringIO()):
                g = P.PiecewisePolygon(verts)
                mesh = MeshParametrized(g)
            L = g.gamma_length
            xs = sorted(set([0.0, L] + [float(v) for v in g.pw_start] + [rng.uniform(0, L) for _ in range(20)]))
            def snapshot():
                out = [np.array(g.eval(np.array([x]))) for x in xs]
                for i, piece in enumerate(g.pw_gamma):
                    out += [np.array(piece(g.pw_start[i])), np.array(piece(g.pw_start[i + 1]))]
                out += [np.array(e.gamma_space(0.5 * (e.space_interval[0] + e.space_interval[1]))) for e in mesh.leaf_elements]
                return out
            before = snapshot()
            for v in verts:                      # the caller re-uses its arrays for the next domain
                v *= 3
                v += 1
            after = snapshot()
            ok = len(before) == len(after) and all(np.array_equal(a, b) for a, b in zip(before, after))
            report(name, "curve-unchanged-when-the-caller-later-modifies-its-vertex-arrays/" + dtype.__name__, ok, dict(rectangle=(w, h)))
            n += len(before)
    return n


def run(chk, tier, seed):
    rng = random.Random(seed)
    results = {}

    def report(curve, clause, ok, detail):
        key = (curve, clause)
        r = results.setdefault(key, dict(n=0, fails=[]))
        r["n"] += 1
        if not ok and len(r["fails"]) < 3:
            r["fails"].append(detail)
    n = 0
    for name in CURVES:
        try:
            n += curve_checks(name, rng, report)
            n += mesh_checks(name, rng, report, tier)
            report(name, "shipped-curve-and-mesh-construct-without-error", True, {})
        except BaseException as e:      # the shipped curves must construct (their own asserts are part of the behaviour)
            import traceback
            report(name, "shipped-curve-and-mesh-construct-without-error", False,
                   dict(error="{}: {}".format(type(e).__name__, e), where=traceback.format_exc()[-300:]))
    try:
        n += alias_checks("user-polygon", rng, report)
    except BaseException as e:
        report("user-polygon", "curve-unchanged-when-the-caller-later-modifies-its-vertex-arrays/raised", False,
               dict(error="{}: {}".format(type(e).__name__, e)))
    for (curve, clause), r in sorted(results.items()):
        nm = "C18/bounded/{}/{}".format(curve, clause)
        if r["fails"]:
            slabs = clause.split("slabs=")[-1] if "slabs=" in clause else "3"
            code = ('''
import io, contextlib, random
from bounded import curves_rt
res = {{}}
def report(curve, clause, ok, detail):
    res.setdefault((curve, clause), []).append(ok)
rng = random.Random({seed})
for nme in curves_rt.CURVES:
    curves_rt.curve_checks(nme, rng, report)
    curves_rt.mesh_checks(nme, rng, report, {tier!r})
curves_rt.alias_checks("user-polygon", rng, report)
observed = [k for k, v in res.items() if not all(v)]
violated = not all(res.get(({curve!r}, {clause!r}), [True]))
''').format(seed=seed, tier=tier, curve=curve, clause=clause)
            chk.add(Ob(nm, FAILED, kind="bounded", backend="runtime-contract", detail=dict(first_failures=r["fails"], n=r["n"]),
                       replay=dict(code=code, confirmed=True, raises_is_violation=True)))
        else:
            chk.add(Ob(nm, DISCHARGED, kind="bounded", backend="runtime-contract", detail=dict(n=r["n"])))
    chk.add_bounded("shipped curves and parametrised meshes", n, len(results),
                    "5 shipped curves; break points + 200 random parameters; time grids with 1..6 slabs; 40 random bisections each",
                    "one case per (curve, clause, parameter / mesh state)", [dict(curve=c, clause=cl, n=r["n"]) for (c, cl), r in list(results.items())[:3]])
