"""C16 supplementary bounded contract: boundary-targeted refinement with end points computed *through the curve
parametrisation* (as InitialOperator.linform does: gamma_space(c), gamma_space(d) as 2x1 arrays), whose floating-point
values may be an ulp off the mesh vertices.  For every leaf of a uniformly space-refined boundary mesh (levels 0..Lmax)
and both orientations: refine_msh_bdr terminates, returns a leaf one of whose edges has exactly these end points (up to
isclose), exactly one leaf has that edge, vertex_from_coords retrieves both end points.
"""
import contextlib
import io
import math
import signal
import sys

from vlib.core import REPO, Ob, DISCHARGED, FAILED

if REPO not in sys.path:
    sys.path.insert(0, REPO)


class _Timeout(Exception):
    pass


def _alarm(signum, frame):
    raise _Timeout()


def segments(curve_name, level):
    from src import parametrization
    from src.mesh import MeshParametrized
    with contextlib.redirect_stdout(io.StringIO()):
        mesh = MeshParametrized(getattr(parametrization, curve_name)())
        if curve_name == "LShape":
            for e in list(mesh.leaf_elements):
                if e.h_x > 1:
                    mesh.refine_space(e)
        out = []
        for l in range(level + 1):
            for e in mesh.leaf_elements:
                c, d = e.space_interval
                out.append((l, float(c), float(d), e.gamma_space(c), e.gamma_space(d)))
            mesh.uniform_refine_space()
    return out


def check_one(domain_ctor, v0, v1):
    import numpy as np
    m = domain_ctor()
    signal.signal(signal.SIGALRM, _alarm)
    signal.alarm(10)
    try:
        elem = m.refine_msh_bdr(v0, v1)
    except _Timeout:
        return "bdr-terminates", "watchdog: no return within 10 s"
    except BaseException as e:
        return "bdr-terminates", "raised {}: {}".format(type(e).__name__, e)
    finally:
        signal.alarm(0)
    p0, p1 = np.asarray(v0, float).flatten(), np.asarray(v1, float).flatten()

    def close(v, p):
        return math.isclose(v.x, p[0], abs_tol=1e-12) and math.isclose(v.y, p[1], abs_tol=1e-12)

    def has_edge(el):
        return any((close(a, p0) and close(b, p1)) or (close(a, p1) and close(b, p0)) for a, b in el.edges)
    if elem not in m.leaf_elements or not has_edge(elem):
        return "bdr-returns-leaf-with-that-edge", "returned {}".format(elem)
    owners = [el for el in m.leaf_elements if has_edge(el)]
    if len(owners) != 1:
        return "bdr-exactly-one-leaf", "{} leaves own the segment".format(len(owners))
    for p in (v0, v1):
        try:
            v = m.vertex_from_coords(p)
        except BaseException as e:
            return "bdr-endpoints-retrievable", "raised {}".format(e)
        if v is None or not close(v, np.asarray(p, float).flatten()):
            return "bdr-endpoints-retrievable", "got {}".format(v)
    return None


PAIRS = {"UnitSquare": "UnitSquare", "PiSquare": "PiSquare", "LShape": "LShape"}


def run(chk, tier, seed):
    from src import initial_mesh
    level = 5 if tier == "quick" else 7
    total, nontriv = 0, 0
    samples = []
    for curve, dom in PAIRS.items():
        ctor = getattr(initial_mesh, dom)
        fails = {}
        for (l, c, d, v0, v1) in segments(curve, level):
            for (a, b) in ((v0, v1), (v1, v0)):
                total += 1
                nontriv += 1 if l > 0 else 0
                r = check_one(ctor, a, b)
                if r is not None:
                    fails.setdefault(r[0], []).append((l, c, d, r[1]))
            if len(samples) < 3 and l == 2:
                samples.append(dict(curve=curve, level=l, param=[c, d], v0=[float(x) for x in v0.flatten()], v1=[float(x) for x in v1.flatten()]))
        for clause in ("bdr-terminates", "bdr-returns-leaf-with-that-edge", "bdr-exactly-one-leaf", "bdr-endpoints-retrievable"):
            name = "C16/bounded/{}-via-curve/{}".format(dom, clause)
            if clause in fails:
                l, c, d, msg = sorted(fails[clause])[0]
                code = ('''
import numpy as np
from bounded import bdr_via_curve as B
from src import initial_mesh
segs = [s for s in B.segments({curve!r}, {l}) if s[0] == {l} and abs(s[1] - {c!r}) < 1e-15]
observed = []
violated = False
for (l, c, d, v0, v1) in segs:
    for (a, b) in ((v0, v1), (v1, v0)):
        r = B.check_one(initial_mesh.{dom}, a, b)
        observed.append(r)
        if r is not None and r[0] == {clause!r}:
            violated = True
''').format(curve=curve, l=l, c=c, dom=dom, clause=clause)
                chk.add(Ob(name, FAILED, kind="bounded", backend="runtime-contract",
                           detail=dict(n_failing=len(fails[clause]), first=dict(level=l, param=[c, d], message=msg)),
                           replay=dict(code=code, confirmed=True, raises_is_violation=True)))
            else:
                chk.add(Ob(name, DISCHARGED, kind="bounded", backend="runtime-contract"))
    chk.add_bounded("boundary-targeting with end points computed through the curve parametrisation", total, nontriv,
                    "3 polygonal domains, every leaf of the uniformly space-refined boundary mesh up to level {}, both orientations, "
                    "2x1 array end points = gamma_space(x) as in InitialOperator.linform".format(level),
                    "one case per (curve, level, leaf, orientation); non-trivial = level > 0", samples)
