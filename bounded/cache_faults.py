"""C17 bounded stand-in: run-time contract "result is bitwise equal to pairwise evaluation" for
bilform_matrix / linform_vector over call histories against one cache directory, fault classes of the
stored file, worker counts and rectangular sub-lists on both sides of the N*M = 100 threshold.

Bound (stated in the evidence): one refined unit-square mesh (and an L-shape for the load vector),
the listed sub-lists, worker counts {1,2,3,16} (quick) / 1..16 (thorough), fault classes
{missing, empty, header only, half, one byte short, garbage}.
"""
import contextlib
import io
import os
import shutil
import sys
import tempfile

from vlib.core import REPO, Ob, DISCHARGED, FAILED

if REPO not in sys.path:
    sys.path.insert(0, REPO)


@contextlib.contextmanager
def quiet():
    buf = io.StringIO()
    with contextlib.redirect_stdout(buf):
        yield


def build_mesh(curve="UnitSquare", steps=2):
    import numpy as np
    from src.mesh import MeshParametrized
    from src import parametrization
    with quiet():
        mesh = MeshParametrized(getattr(parametrization, curve)())
        for _ in range(steps):
            mesh.uniform_refine()
        # a few local bisections so that the lists are not symmetric
        leaves = list(mesh.leaf_elements)
        mesh.refine_time(leaves[1])
        leaves = list(mesh.leaf_elements)
        mesh.refine_space(leaves[5])
    return mesh


def pairwise(SL, test, trial):
    import numpy as np
    ref = np.zeros((len(test), len(trial)))
    for i, et in enumerate(test):
        for j, er in enumerate(trial):
            ref[i, j] = SL.bilform(er, et)
    return ref


def same(a, b):
    import numpy as np
    a, b = np.asarray(a), np.asarray(b)
    return a.shape == b.shape and bool(np.all(a == b))


FAULTS = ["missing", "empty", "header", "half", "one-short", "garbage"]


def damage(fn, kind):
    import numpy as np
    if kind == "missing":
        if os.path.exists(fn):
            os.unlink(fn)
        return
    data = open(fn, "rb").read()
    if kind == "empty":
        new = b""
    elif kind == "header":
        new = data[:64]
    elif kind == "half":
        new = data[:len(data) // 2]
    elif kind == "one-short":
        new = data[:-1]
    elif kind == "garbage":
        new = b"\x93NUMPY garbage" + bytes(range(256)) * 4
    elif kind == "wrong-shape":
        np.save(fn, np.zeros((1, 1)))
        return
    open(fn, "wb").write(new)


def run_matrix(tier, seed, report):
    """report(clause, ok, detail)"""
    import numpy as np
    import multiprocessing as mp
    from src.single_layer import SingleLayerOperator
    import src.single_layer as slmod
    mesh = build_mesh()
    elems = list(mesh.leaf_elements)
    n_eval = 0
    lists = {"inline-3x4": (elems[:3], elems[2:6]), "inline-9x11": (elems[:9], elems[4:15]),
             "serial-10x12": (elems[:10], elems[3:15]), "serial-12x10": (elems[2:14], elems[:10]),
             "square-16": (elems[:16], elems[:16]),
             # the locally bisected elements are the last leaves: pairs with nested / staggered time intervals on the serial path
             "serial-mixed-10x12": (elems[:5] + elems[-5:], elems[-6:] + elems[2:8]),
             # many columns: with 1 or 2 workers the pool hands out chunks of several columns (chunk size M // (16 cpu) + 1 >= 2),
             # so whatever a worker returns for one column must not be shared with the next one of the same chunk
             "wide-6x40": (elems[:6], elems[:40])}
    workers = [1, 2, 3, 16] if tier == "quick" else list(range(1, 17))
    tmp = tempfile.mkdtemp(prefix="stbem_cache_")
    real_cpu = mp.cpu_count
    try:
        for pw in (False, True):
            with quiet():
                SL0 = SingleLayerOperator(mesh, pw_exact=pw)
            refs = {k: pairwise(SL0, *v) for k, v in lists.items()}
            for name, (te, tr) in lists.items():
                with quiet():
                    got = SL0.bilform_matrix(te, tr, use_mp=False)
                n_eval += 1
                report("matrix/no-cache/{}/pw={}".format(name, pw), same(got, refs[name]),
                       dict(max_abs_diff=float(np.max(np.abs(np.asarray(got) - refs[name]))) if np.shape(got) == refs[name].shape else "shape"))
            # only the test list given (time-slab order, not the leaf order): the trial list defaults to the SAME list
            te_only = sorted(elems[:12], key=lambda e: (e.time_interval[0], e.space_interval[0]))[::-1]
            with quiet():
                got = SL0.bilform_matrix(te_only, use_mp=False)
            n_eval += 1
            report("matrix/default-trial-list-is-the-test-list/pw={}".format(pw), same(got, pairwise(SL0, te_only, te_only)), {})
            # other operators constructed in the same process before the pooled call (they must not leak into the workers)
            with quiet():
                _other1 = SingleLayerOperator(build_mesh("LShape", steps=1), pw_exact=not pw)
                _other2 = SingleLayerOperator(mesh, pw_exact=not pw, quad_order=4)
            for w in workers:
                slmod.mp.cpu_count = lambda w=w: w
                for name in ("serial-10x12", "serial-12x10") + (("wide-6x40",) if w <= 2 else ()):
                    te, tr = lists[name]
                    with quiet():
                        got = SL0.bilform_matrix(te, tr, use_mp=True)
                    n_eval += 1
                    report("matrix/pool/workers={}/{}/pw={}".format(w, name, pw), same(got, refs[name]), {})
            # the SAME list objects re-ordered in place between two pooled calls (sorted by time slab, reversed): every call is the
            # per-pair matrix of the order the lists have at that call
            slmod.mp.cpu_count = lambda: 3
            te_l, tr_l = list(lists["serial-10x12"][0]), list(lists["serial-10x12"][1])
            ok_o, det_o = True, {}
            try:
                for step, reorder in (("as-given", None), ("sorted-by-time-slab", lambda l: l.sort(key=lambda e: (e.time_interval[0], -e.space_interval[0]))),
                                      ("reversed", lambda l: l.reverse())):
                    if reorder:
                        reorder(te_l)
                        reorder(tr_l)
                    with quiet():
                        got = SL0.bilform_matrix(te_l, tr_l, use_mp=True)
                    n_eval += 1
                    if not same(got, pairwise(SL0, te_l, tr_l)):
                        ok_o, det_o = False, dict(step=step)
                        break
            except BaseException as e:
                ok_o, det_o = False, dict(raised=repr(e))
            report("matrix/pool/same-list-objects-reordered-in-place-between-calls/pw={}".format(pw), ok_o, det_o)
            slmod.mp.cpu_count = real_cpu
            # cache histories
            cdir = os.path.join(tmp, "pw%d" % pw)
            os.makedirs(cdir)
            with quiet():
                SLc = SingleLayerOperator(mesh, pw_exact=pw, cache_dir=cdir)
            name = "serial-10x12"
            te, tr = lists[name]
            for fault in FAULTS:
                try:
                    with quiet():
                        a = SLc.bilform_matrix(te, tr)          # fresh (or recomputed)
                    files = [f for f in os.listdir(cdir) if f.startswith("SL_")]
                    ok_store = len(files) >= 1
                    with quiet():
                        b = SLc.bilform_matrix(te, tr)          # warm
                    ok_fw, det_fw = same(a, refs[name]) and same(b, refs[name]) and ok_store, dict(files=files)
                except BaseException as e:                      # e.g. the damaged file of the previous class is still there
                    ok_fw, det_fw = False, dict(raised=repr(e))
                    for f in os.listdir(cdir):
                        os.unlink(os.path.join(cdir, f))
                    files = []
                n_eval += 2
                report("matrix/cache/fresh+warm/{}/pw={}".format(fault, pw), ok_fw, det_fw)
                for f in files:
                    damage(os.path.join(cdir, f), fault)
                try:
                    with quiet():
                        c = SLc.bilform_matrix(te, tr, use_mp=(fault in ("half", "garbage")))
                    ok = same(c, refs[name])
                    det = {}
                except BaseException as e:  # a corrupt cache file must be ignored
                    ok, det = False, dict(raised=repr(e))
                n_eval += 1
                report("matrix/cache/after-{}/pw={}".format(fault, pw), ok, det)
            # other lists of the same shape must not share the entry (both lists differ / only trial differs / only test differs)
            for tag, other in (("both-differ", (elems[1:11], elems[4:16])), ("same-test-other-trial", (te, elems[4:16])),
                               ("other-test-same-trial", (elems[1:11], tr)), ("swapped-roles", (tr[:10], te + te[:2]))):
                with quiet():
                    d = SLc.bilform_matrix(*other)
                n_eval += 1
                report("matrix/cache/other-lists-same-shape/{}/pw={}".format(tag, pw), same(d, pairwise(SL0, *other)), {})
            with quiet():
                d2 = SLc.bilform_matrix(te, tr)
            report("matrix/cache/first-lists-again/pw={}".format(pw), same(d2, refs[name]), {})
            # the caller owns what it gets: it modifies a returned matrix in place (scaling, zeroing a row) -- a later cache hit, from
            # the same operator or from a new operator on the same directory, must still be the per-pair matrix; also for the
            # uncached paths (inline / serial / pool)
            try:
                d2 *= 2.0
                d2[0, :] = 0.0
                with quiet():
                    d3 = SLc.bilform_matrix(te, tr)
                    d4 = SingleLayerOperator(mesh, pw_exact=pw, cache_dir=cdir).bilform_matrix(te, tr)
                    u1 = SL0.bilform_matrix(te, tr, use_mp=False)
                    u1 *= 2.0
                    u2 = SL0.bilform_matrix(te, tr, use_mp=False)
                    slmod.mp.cpu_count = lambda: 2
                    p1 = SL0.bilform_matrix(te, tr, use_mp=True)
                    p1 *= 2.0
                    p2 = SL0.bilform_matrix(te, tr, use_mp=True)
                    slmod.mp.cpu_count = real_cpu
                ok_m = same(d3, refs[name]) and same(d4, refs[name]) and same(u2, refs[name]) and same(p2, refs[name])
                det_m = dict(warm_same_operator=same(d3, refs[name]), warm_new_operator=same(d4, refs[name]), serial=same(u2, refs[name]),
                             pool=same(p2, refs[name]))
            except BaseException as e:
                ok_m, det_m = False, dict(raised=repr(e))
            n_eval += 6
            report("matrix/cache/call-after-the-caller-modified-an-earlier-result-in-place/pw={}".format(pw), ok_m, det_m)
        # another curve, same N, M, same cache dir
        mesh2 = build_mesh("PiSquare")
        e2 = list(mesh2.leaf_elements)
        with quiet():
            SL2 = SingleLayerOperator(mesh2, cache_dir=os.path.join(tmp, "pw0"))
            g = SL2.bilform_matrix(e2[:10], e2[3:15])
            SL2n = SingleLayerOperator(mesh2)
        n_eval += 1
        report("matrix/cache/other-curve-same-shape", same(g, pairwise(SL2n, e2[:10], e2[3:15])), {})
        # two meshes whose element coordinates agree to 7 significant digits (user-supplied time grids [0, 0.5, 1] and
        # [0, 0.5000001, 1]) through one cache directory: the key must separate lists that differ in ANY digit
        from src.mesh import MeshParametrized as _MP
        from src.parametrization import UnitSquare as _US
        cdir = os.path.join(tmp, "near")
        os.makedirs(cdir)
        oks = []
        for tg in ([0, 0.5, 1], [0, 0.5000001, 1], [0, 0.5 + 2.0 ** -40, 1]):
            with quiet():
                mn = _MP(_US(), initial_time_mesh=tg)
                en = list(mn.leaf_elements)[:12]
                got = SingleLayerOperator(mn, cache_dir=cdir).bilform_matrix(en, en)
                ref_n = pairwise(SingleLayerOperator(mn), en, en)
            oks.append(same(got, ref_n))
            n_eval += 1
        report("matrix/cache/element-lists-that-agree-to-7-digits-do-not-share-entries", all(oks), dict(ok=oks))
        # two different user-defined polygons (same class, same break points, hence identical element lists) sharing the cache
        # directory: the second must not be served the first one's matrix
        from src.parametrization import PiecewisePolygon
        from src.mesh import MeshParametrized
        sq = PiecewisePolygon([np.array(v, dtype=float) for v in ((0, 0), (1, 0), (2, 0), (2, 1), (2, 2), (1, 2), (0, 2), (0, 1), (0, 0))])
        rc = PiecewisePolygon([np.array(v, dtype=float) for v in ((0, 0), (1, 0), (2, 0), (3, 0), (3, 1), (2, 1), (1, 1), (0, 1), (0, 0))])
        cdir = os.path.join(tmp, "custom")
        os.makedirs(cdir)
        mats = []
        for crv in (sq, rc):
            with quiet():
                mc = MeshParametrized(crv)
                mc.uniform_refine()
                ec = list(mc.leaf_elements)
                SLa = SingleLayerOperator(mc, cache_dir=cdir)
                got = SLa.bilform_matrix(ec[:12], ec[:12])
                ref_c = pairwise(SingleLayerOperator(mc), ec[:12], ec[:12])
            mats.append(same(got, ref_c))
            n_eval += 1
        report("matrix/cache/two-user-defined-polygons-do-not-share-entries", all(mats), dict(ok=mats))
    finally:
        slmod.mp.cpu_count = real_cpu
        shutil.rmtree(tmp, ignore_errors=True)
    return n_eval


def run_vector(tier, seed, report):
    import numpy as np
    import multiprocessing as mp
    from src.initial_potential import InitialOperator
    import src.initial_potential as ipmod
    from src.initial_mesh import UnitSquareBoundaryRefined
    mesh = build_mesh(steps=1)
    leaves = list(mesh.leaf_elements)
    # elements of different widths, listed neither in leaf order nor by width (whatever the pool does with the order in which it
    # hands out the work, entry j belongs to elems[j])
    small = [e for e in leaves if e.h_x < max(x.h_x for x in leaves)]
    big = [e for e in leaves if e not in small]
    k = 3 if tier == "quick" else 6
    elems = big[:1] + small[:2] + big[1:k] + small[2:4]
    u0 = lambda xy: np.sin(xy[0]) * xy[1] + 1.0
    tmp = tempfile.mkdtemp(prefix="stbem_cache_")
    real_cpu = mp.cpu_count
    n_eval = 0
    try:
        with quiet():
            M0 = InitialOperator(mesh, u0, initial_mesh=UnitSquareBoundaryRefined)
            ref = np.array([M0.linform(e)[0] for e in elems])
            got = M0.linform_vector(elems)
        report("vector/serial", same(got, ref), {})
        n_eval += 1
        for w in ([1, 3] if tier == "quick" else [1, 2, 3, 5, 16]):
            ipmod.mp.cpu_count = lambda w=w: w
            with quiet():
                got = M0.linform_vector(elems, use_mp=True)
            n_eval += 1
            report("vector/pool/workers={}".format(w), same(got, ref), {})
        ipmod.mp.cpu_count = real_cpu
        with quiet():
            Mc = InitialOperator(mesh, u0, initial_mesh=UnitSquareBoundaryRefined, cache_dir=tmp)
        for fault in (FAULTS if tier == "thorough" else ["missing", "empty", "half", "garbage"]):
            try:
                with quiet():
                    a = Mc.linform_vector(elems)
                    b = Mc.linform_vector(elems)
                files = [f for f in os.listdir(tmp) if f.startswith("M0_")]
                ok_fw, det_fw = same(a, ref) and same(b, ref) and len(files) >= 1, dict(files=files)
            except BaseException as e:
                ok_fw, det_fw = False, dict(raised=repr(e))
                for f in os.listdir(tmp):
                    if f.startswith("M0_"):
                        os.unlink(os.path.join(tmp, f))
                files = []
            report("vector/cache/fresh+warm/{}".format(fault), ok_fw, det_fw)
            for f in files:
                damage(os.path.join(tmp, f), fault)
            try:
                with quiet():
                    c = Mc.linform_vector(elems)
                ok, det = same(c, ref), {}
            except BaseException as e:
                ok, det = False, dict(raised=repr(e))
            n_eval += 3
            report("vector/cache/after-{}".format(fault), ok, det)
        other = list(mesh.leaf_elements)[1:1 + len(elems)]
        with quiet():
            d = Mc.linform_vector(other)
            refo = np.array([M0.linform(e)[0] for e in other])
        report("vector/cache/other-list-same-length", same(d, refo), {})
        # element lists that agree to 7 digits through one cache directory
        try:
            from src.mesh import MeshParametrized as _MP
            from src.parametrization import UnitSquare as _US
            ndir = os.path.join(tmp, "near")
            os.makedirs(ndir, exist_ok=True)
            oks = []
            for tg in ([0, 0.5, 1], [0, 0.5000001, 1]):
                with quiet():
                    mn = _MP(_US(), initial_time_mesh=tg)
                    en = [e for e in mn.leaf_elements if e.time_interval[0] == 0][:4] + [e for e in mn.leaf_elements if e.time_interval[0] != 0][:4]
                    Mn = InitialOperator(mn, u0, initial_mesh=UnitSquareBoundaryRefined, cache_dir=ndir)
                    got = Mn.linform_vector(en)
                    refn = np.array([InitialOperator(mn, u0, initial_mesh=UnitSquareBoundaryRefined).linform(e)[0] for e in en])
                oks.append(same(got, refn))
                n_eval += 1
            report("vector/cache/element-lists-that-agree-to-7-digits-do-not-share-entries", all(oks), dict(ok=oks))
        except BaseException as e:
            report("vector/cache/element-lists-that-agree-to-7-digits-do-not-share-entries", False, dict(raised=repr(e)))
        # the caller modifies a returned vector in place; later requests (cache hit, new operator on the directory, serial) unchanged
        try:
            with quiet():
                v1 = Mc.linform_vector(elems)
                v1 *= 2.0
                v1[0] = 0.0
                v2 = Mc.linform_vector(elems)
                v3 = InitialOperator(mesh, u0, initial_mesh=UnitSquareBoundaryRefined, cache_dir=tmp).linform_vector(elems)
                s1 = M0.linform_vector(elems)
                s1 *= 2.0
                s2 = M0.linform_vector(elems)
            ok_m, det_m = same(v2, ref) and same(v3, ref) and same(s2, ref), dict(warm=same(v2, ref), new_operator=same(v3, ref), serial=same(s2, ref))
        except BaseException as e:
            ok_m, det_m = False, dict(raised=repr(e))
        n_eval += 5
        report("vector/cache/call-after-the-caller-modified-an-earlier-result-in-place", ok_m, det_m)
    finally:
        ipmod.mp.cpu_count = real_cpu
        shutil.rmtree(tmp, ignore_errors=True)
    return n_eval


def run(chk, tier, seed, only=None, pid="C17"):
    results = []

    def report(clause, ok, detail):
        results.append((clause, ok, detail))
    n = 0
    if only in (None, "matrix"):
        n += run_matrix(tier, seed, report)
    if only in (None, "vector"):
        n += run_vector(tier, seed, report)
    for clause, ok, detail in results:
        name = pid + "/bounded/" + clause
        if ok:
            chk.add(Ob(name, DISCHARGED, kind="bounded", backend="runtime-contract", detail=detail))
        else:
            code = ("from bounded import cache_faults\nres = cache_faults.replay({!r}, {!r})\nobserved = res\n"
                    "violated = any(not ok for c, ok, d in res if c == {!r})\n").format(tier, seed, clause)
            chk.add(Ob(name, FAILED, kind="bounded", backend="runtime-contract", detail=detail,
                       replay=dict(code=code, confirmed=True, raises_is_violation=True)))
    chk.add_bounded(pid + " assembly paths / cache faults", n, len(results),
                    "1 unit-square mesh (+pi square for key separation), 5 sub-list shapes on both sides of N*M=100, "
                    "workers {}, fault classes {}".format("{1,2,3,16}" if tier == "quick" else "1..16", FAULTS),
                    "every (path, list shape, worker count, fault class) once; bitwise comparison with pairwise evaluation",
                    [dict(clause=c, ok=ok) for c, ok, d in results[:3]])
    return results


def replay(tier, seed):
    res = []
    run_matrix(tier, seed, lambda c, ok, d: res.append((c, ok, d)))
    run_vector(tier, seed, lambda c, ok, d: res.append((c, ok, d)))
    return res


if __name__ == "__main__":
    out = replay(sys.argv[1] if len(sys.argv) > 1 else "quick", 0)
    bad = [r for r in out if not r[1]]
    print(len(out), "clauses;", len(bad), "failing")
    for r in bad:
        print(r)
