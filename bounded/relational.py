"""Bounded run-time *relational* contracts for the single-layer operator (DESIGN 4, parts marked B).

Every clause relates TWO REAL computations of the repository to each other (never an external
reference integrator):

  C01  quadrature path (pw_exact=False)  vs  closed-form path (pw_exact=True), same straight piece
  C11  entry of a pair  vs  sum of the entries of its time halves / space halves / quarters
  C12  entry  vs  entry after exchange of the space intervals (bitwise), after a dyadic time shift
       (bitwise), after a motion of the curve (quarter turn / reflection / dyadic rotation)
  C04  sign part: acausal => exactly 0, causal => >= -1e-15*scale, positive where the closed form is
  C07  evaluate vs evaluate_exact on straight sides; integral of evaluate over a test element vs bilform

Input space: curves UnitSquare, PiSquare, LShape, Circle; meshes MeshParametrized(curve) refined by
seeded random bisection histories and by structured ones (uniform, graded to a corner, graded to the
closing seam), every element of parabolic aspect h_x^2/h_t <= 32; ordered pairs (trial, test) drawn
STRATIFIED by (space relation, time relation) so that every class is populated.

Interface:  run(chk, prop, tier, seed)   /   python -m bounded.relational <prop> <tier>
The repo root is vlib.core.REPO (env STBEM_REPO) and is put FIRST on sys.path before src.* is imported.
"""
import math
import multiprocessing as mp
import os
import random
import struct
import sys
import time
import traceback

from vlib.core import DISCHARGED, FAILED, REPO, Check, Ob

# ------------------------------------------------------------------------------------------------
# the repository under check: REPO first on sys.path
# ------------------------------------------------------------------------------------------------
_REPO = os.path.realpath(REPO)
sys.path[:] = [p for p in sys.path if os.path.realpath(p or ".") != _REPO]
sys.path.insert(0, _REPO)
for _k in ("OMP_NUM_THREADS", "OPENBLAS_NUM_THREADS", "MKL_NUM_THREADS"):
    os.environ.setdefault(_k, "1")

import numpy as np  # noqa: E402

import src  # noqa: E402
from src import parametrization as _par  # noqa: E402
from src.hierarchical_error_estimator import DummyElement  # noqa: E402
from src.mesh import MeshParametrized, Vertex  # noqa: E402
from src.quadrature import gauss_quadrature_scheme  # noqa: E402
from src.single_layer import SingleLayerOperator  # noqa: E402

_SRC_DIR = os.path.realpath(list(src.__path__)[0])
if not _SRC_DIR.startswith(_REPO):
    raise ImportError("src imported from {} instead of {}".format(_SRC_DIR, _REPO))

CURVES = ("UnitSquare", "PiSquare", "LShape", "Circle")
STRAIGHT = ("UnitSquare", "PiSquare", "LShape")
ASPECT_MAX = 32.0
KINDS = ("none", "time", "space", "quarters")

# ---- tolerances (the contract; from /verif/properties.jsonl) ----------------------------------
TOL_METRIC = 1e-7          # C01, C11, C12 motion: |diff| <= 1e-7*sqrt(D_test*D_trial)
TOL_SIGN = 1e-15           # C04: value >= -1e-15*scale
POS_REF = 1e-250           # C04: closed-form reference above this => quadrature value > 0
C07_RATIO = 16.0           # C07: h_x^2/tau <= 16
C07_TOL = {"in": 1e-8, "far": 5e-4, "near": 2e-3}
C07_FLOOR = 1e-9           # errors relative to max(|exact|, 1e-9)
C07_MARGIN = 2e-5          # interior points kept > 1e-5 from the end points (precondition of the rule)
# integral-of-evaluate == bilform: consistency relation, tolerance relative to sqrt(D_test*D_trial).
# Measured on the unchanged repo (thorough tier, seeds 0 and 1): 1.1e-9 when the space intervals of test
# and trial do not overlap ("outside"), 7.3e-7 when they are identical or nested ("inside": there the
# outer Gauss rule cannot be graded closer than 1e-5 to the trial element's end points, the documented
# precondition of evaluate's interval rule, so the error is the outer rule's, on the smallest elements).
# Tolerances keep a margin >= 10x over these maxima and stay at or below the 1e-5 of the property.
TOL_INTEGRAL = {"outside": 1e-7, "inside": 1e-5}

TIERS = {
    # pairs = total pairs over all curves, meshes = random meshes per curve, steps = history lengths
    "quick": dict(pairs=1500, rand_meshes=5, steps=(6, 28), extras=6, max_leaves_ll=60,
                  pt_trials=40, int_pairs=600, c04_pt_trials=40),
    "thorough": dict(pairs=20000, rand_meshes=18, steps=(6, 60), extras=10, max_leaves_ll=90,
                     pt_trials=260, int_pairs=2400, c04_pt_trials=300),
}


# ------------------------------------------------------------------------------------------------
# elements
# ------------------------------------------------------------------------------------------------
def _mk(t0, t1, x0, x1, gamma):
    """A DummyElement (real repo class) on the rectangle [t0,t1] x [x0,x1] carrying the piece gamma."""
    vs = [Vertex(t0, x0, -1), Vertex(t0, x1, -1), Vertex(t1, x1, -1), Vertex(t1, x0, -1)]
    return DummyElement(vs, gamma)


def _aspect(e):
    (t0, t1), (x0, x1) = e.time_interval, e.space_interval
    return float(x1 - x0) ** 2 / float(t1 - t0)


def _split(e, kind):
    """Pieces of e under a split kind, as DummyElements carrying the parent's gamma_space."""
    (t0, t1), (x0, x1) = e.time_interval, e.space_interval
    g = e.gamma_space
    if kind == "none":
        return [e]
    if kind == "time":
        tm = (t0 + t1) / 2
        return [_mk(t0, tm, x0, x1, g), _mk(tm, t1, x0, x1, g)]
    if kind == "space":
        xm = (x0 + x1) / 2
        return [_mk(t0, t1, x0, xm, g), _mk(t0, t1, xm, x1, g)]
    if kind == "quarters":
        return DummyElement.uniform_refinement([e])[0]          # the repo's own quarters
    raise ValueError(kind)


class CurveCtx:
    def __init__(self, name):
        self.name = name
        self.gamma = getattr(_par, name)()
        self.pw = [float(x) for x in self.gamma.pw_start]
        self.L = float(self.gamma.gamma_length)
        self.straight = name in STRAIGHT
        self.closed = bool(getattr(self.gamma, "closed", True))
        self.meshes = []
        self._D = {}

    def piece_of(self, e):
        p = getattr(e, "_rel_piece", None)
        if p is None:
            for i, g in enumerate(self.gamma.pw_gamma):
                if g is e.gamma_space:
                    p = i
                    break
            else:
                raise RuntimeError("element carries an unknown piece")
            e._rel_piece = p
        return p

    def desc(self, e):
        (t0, t1), (x0, x1) = e.time_interval, e.space_interval
        return (float(t0), float(t1), float(x0), float(x1), self.piece_of(e))

    def elem(self, d):
        return _mk(d[0], d[1], d[2], d[3], self.gamma.pw_gamma[d[4]])


class MeshCtx:
    def __init__(self, cctx, mesh, text):
        self.mesh = mesh
        self.text = text
        self.SLq = SingleLayerOperator(mesh)                    # default quad_order on purpose
        self.SLx = SingleLayerOperator(mesh, pw_exact=True)
        self.leaves = list(mesh.leaf_elements)
        self.pool = list(self.leaves)
        self.curve = cctx
        self._D = {}

    def D(self, e):
        """Diagonal entry: closed form on straight pieces, quadrature on the circle."""
        key = (e.time_interval, e.space_interval)
        v = self._D.get(key)
        if v is None:
            v = (self.SLx if self.curve.straight else self.SLq).bilform(e, e)
            self._D[key] = v
        return v


# ------------------------------------------------------------------------------------------------
# meshes
# ------------------------------------------------------------------------------------------------
def _fix_aspect(mesh):
    """Keep every leaf at h_x^2/h_t <= 32 by bisecting offenders in space."""
    while True:
        bad = [e for e in mesh.leaf_elements if e.h_x ** 2 / e.h_t > ASPECT_MAX]
        if not bad:
            return
        bad.sort(key=lambda e: e.level_space)
        for e in bad:
            if not e.children:
                mesh.refine_space(e)


UNEVEN_TAG = "uneven initial space grid"


def _build_meshes(cctx, cfg, rng):
    out = []

    def new():
        return MeshParametrized(cctx.gamma)

    # structured: initial, uniform x1, uniform x2
    for k in (0, 1, 2):
        m = new()
        for _ in range(k):
            m.uniform_refine()
        _fix_aspect(m)
        out.append((m, "uniform_refine x{}".format(k)))
    # graded towards the corner pw_start[1] (circle: towards x = L/4) in space and time
    m = new()
    xc = cctx.pw[1] if len(cctx.pw) > 2 else cctx.L / 4
    for _ in range(4):
        for e in [e for e in m.leaf_elements if xc in (e.space_interval[0], e.space_interval[1])
                  and e.time_interval[0] == 0]:
            if not e.children:
                m.refine(e)
    _fix_aspect(m)
    out.append((m, "graded to corner x={!r}, t=0 (4 rounds of refine)".format(xc)))
    # deep isotropic grading towards the same corner (10 rounds: elements of size 2^-10; the entries are compared in a scale-free
    # metric, so nothing in the code may depend on the absolute size of an element)
    m = new()
    for _ in range(10):
        for e in [e for e in m.leaf_elements if xc in (e.space_interval[0], e.space_interval[1])
                  and e.time_interval[0] == 0]:
            if not e.children:
                m.refine(e)
    _fix_aspect(m)
    out.append((m, "deeply graded to corner x={!r}, t=0 (10 rounds of refine)".format(xc)))
    # graded towards the closing seam x = 0 / L in space only
    m = new()
    m.uniform_refine()
    for _ in range(3):
        for e in [e for e in m.leaf_elements
                  if e.space_interval[0] == 0 or e.space_interval[1] == cctx.L]:
            if not e.children:
                m.refine_space(e)
    _fix_aspect(m)
    out.append((m, "uniform x1 then graded to the seam x=0/L (3 rounds of refine_space)"))
    # uneven initial space grid: very short first and last elements at the closing seam (their neighbours do not touch the seam
    # but lie within 0.4 % of their length of it)
    if cctx.closed:
        eps = 0.004 * (cctx.pw[1] - cctx.pw[0])
        grid = [0.0, eps] + [float(v) for v in cctx.gamma.pw_start[1:-1]] + [cctx.L - eps, float(cctx.gamma.pw_start[-1])]
        m = MeshParametrized(cctx.gamma, initial_space_mesh=grid)
        _fix_aspect(m)
        out.append((m, UNEVEN_TAG + " {} (short elements at the seam)".format([round(g, 5) for g in grid])))
    # seeded random bisection histories
    for r in range(cfg["rand_meshes"]):
        m = new()
        pre = rng.choice((0, 0, 1))
        for _ in range(pre):
            m.uniform_refine()
        steps = rng.randint(*cfg["steps"])
        p_time, p_space = rng.choice(((0.3, 0.4), (0.2, 0.3), (0.45, 0.35), (0.15, 0.6)))
        ops = []
        for _ in range(steps):
            leaves = list(m.leaf_elements)
            e = leaves[rng.randrange(len(leaves))]
            if e.level_time >= 7 or e.level_space >= 7:
                continue
            u = rng.random()
            if u < p_time:
                m.refine_time(e)
                ops.append("t")
            elif u < p_time + p_space:
                m.refine_space(e)
                ops.append("x")
            else:
                m.refine(e)
                ops.append("r")
            _fix_aspect(m)
        out.append((m, "random history #{} (uniform x{}, ops {})".format(r, pre, "".join(ops))))
    for m, text in out:
        assert all(e.h_x ** 2 / e.h_t <= ASPECT_MAX for e in m.leaf_elements)
        cctx.meshes.append(MeshCtx(cctx, m, text))


# ------------------------------------------------------------------------------------------------
# classification of a pair
# ------------------------------------------------------------------------------------------------
SPACE_CLASSES = ("identical", "nested", "touching", "seam", "corner", "disjoint-same", "disjoint-diff",
                 "seam-nearer")
TIME_CLASSES = ("equal", "overlapping", "touching", "separated", "acausal")


def _space_class(dte, dtr, L, closed=True):
    a, b, pa = dte[2], dte[3], dte[4]
    c, d, pc = dtr[2], dtr[3], dtr[4]
    if (c, d) < (a, b):
        a, b, pa, c, d, pc = c, d, pc, a, b, pa
    if a == c and b == d:
        return "identical"
    if a == c or d <= b:
        return "nested"
    if b == c:
        return "touching" if pa == pc else "corner"
    if b < c:
        if closed and a == 0 and d == L:
            return "seam"
        if closed and (L - d + a) < (c - b):
            return "seam-nearer"
        return "disjoint-same" if pa == pc else "disjoint-diff"
    return None                                                  # partial overlap: not a mesh pair


def _time_class(dte, dtr):
    a, b = dte[0], dte[1]
    c, d = dtr[0], dtr[1]
    if b <= c:
        return "acausal"
    if a == c and b == d:
        return "equal"
    if a == d:
        return "touching"
    if a > d:
        return "separated"
    return "overlapping"


# ------------------------------------------------------------------------------------------------
# candidate pairs of one mesh (indices into mctx.pool), stratified sampling
# ------------------------------------------------------------------------------------------------
def _extend_pool(cctx, mctx, cfg, rng):
    """Adds children (time halves, space halves, quarters) of some leaves and ancestors of some
    leaves to the pool; returns candidate ordered pairs (i_trial, i_test)."""
    leaves = mctx.leaves
    nl = len(leaves)
    pool = mctx.pool
    cand = []
    idx = list(range(nl))
    if nl > cfg["max_leaves_ll"]:
        idx = sorted(rng.sample(idx, cfg["max_leaves_ll"]))
    for i in idx:
        for j in idx:
            cand.append((i, j))
    # children of some leaves vs (the leaf, its other children, every leaf)
    for i in rng.sample(range(nl), min(cfg["extras"], nl)):
        e = leaves[i]
        kids = []
        for kind in ("time", "space", "quarters"):
            for c in _split(e, kind):
                if _aspect(c) <= ASPECT_MAX:
                    kids.append(len(pool))
                    pool.append(c)
        others = idx if nl <= 40 else sorted(set(rng.sample(range(nl), 40)) | {i})
        for k in kids:
            cand.append((i, k))
            cand.append((k, i))
            for k2 in kids:
                # children of one leaf: identical / touching / nested among themselves
                cand.append((k, k2))
            for j in others:
                if j != i:
                    cand.append((j, k))
                    cand.append((k, j))
    # real ancestors (parent, grandparent) vs their descendant leaf
    for i in rng.sample(range(nl), min(cfg["extras"], nl)):
        e = leaves[i]
        anc = e.parent
        depth = 0
        while anc is not None and depth < 2:
            if anc.gamma_space is not None and _aspect(anc) <= ASPECT_MAX:
                k = len(pool)
                pool.append(anc)
                cand.append((i, k))
                cand.append((k, i))
            anc = anc.parent
            depth += 1
    return cand


def _stratify(buckets, target, rng):
    """Water-filling: every class gets min(len, q) pairs with q minimal such that the total >= target."""
    sizes = sorted(len(v) for v in buckets.values())
    if not sizes:
        return []
    lo, hi = 1, max(sizes)
    while lo < hi:
        q = (lo + hi) // 2
        if sum(min(s, q) for s in sizes) >= target:
            hi = q
        else:
            lo = q + 1
    q = lo
    out = []
    for key in sorted(buckets):
        v = buckets[key]
        if len(v) > q:
            v = rng.sample(v, q)
        out.extend((key, it) for it in v)
    return out


def _sample_pairs(cctx, cfg, rng, target, keep=None):
    """-> list of (mesh_id, i_trial, i_test, class string) stratified by (space class, time class)."""
    buckets = {}
    for mid, mctx in enumerate(cctx.meshes):
        if mctx.text.startswith(UNEVEN_TAG):
            # this mesh serves the point clauses of C07 (points across the seam next to a very short element) and the dedicated
            # extreme-ratio clause of C01 (known finding D9); its pairs are not part of the class-stratified pair sample
            continue
        cand = _extend_pool(cctx, mctx, cfg, rng)
        descs = [cctx.desc(e) for e in mctx.pool]
        seen = set()
        for (i, j) in cand:
            if (i, j) in seen:
                continue
            seen.add((i, j))
            dtr, dte = descs[i], descs[j]
            sc = _space_class(dte, dtr, cctx.L)
            if sc is None:
                continue
            if keep is not None and not keep(sc, dtr, dte):
                continue
            tc = _time_class(dte, dtr)
            # sub-strata (not reported as classes): size ratio 1-2 / 4-8 / >= 16 and aspect >= 16
            h1, h2 = dte[3] - dte[2], dtr[3] - dtr[2]
            rb = min(2, int(round(abs(math.log2(h1 / h2)))) // 2)
            ab = max(h1 ** 2 / (dte[1] - dte[0]), h2 ** 2 / (dtr[1] - dtr[0])) >= 16.0
            buckets.setdefault((sc, tc, rb, ab), []).append((mid, i, j))
    picked = _stratify(buckets, target, rng)
    return [(mid, i, j, key[0] + "/" + key[1]) for (key, (mid, i, j)) in picked]


# ------------------------------------------------------------------------------------------------
# dyadic addresses and motions of the curve
# ------------------------------------------------------------------------------------------------
def _addr(A, B, x0, x1):
    """[x0,x1] as the dyadic interval [n, n+1]/2^lev of the root [A,B] (by repeated bisection, the
    way the mesh creates its vertices)."""
    n, lev, a, b = 0, 0, A, B
    while not (a == x0 and b == x1):
        m = (a + b) / 2
        if x1 <= m:
            b = m
            n = 2 * n
        elif x0 >= m:
            a = m
            n = 2 * n + 1
        else:
            raise RuntimeError("interval is not dyadic in its root")
        lev += 1
        if lev > 60:
            raise RuntimeError("address too deep")
    return n, lev


def _coord(A, B, n, lev):
    """Coordinate of the grid point n/2^lev of the root [A,B], computed by the same bisections."""
    if n == 0:
        return A
    if n == 1 << lev:
        return B
    a, b = A, B
    while True:
        m = (a + b) / 2
        half = 1 << (lev - 1)
        if n == half:
            return m
        if n > half:
            a = m
            n -= half
        else:
            b = m
        lev -= 1


def _motions(cctx, dtr, dte, rng_int):
    """-> list of (name, moved desc trial, moved desc test).  Addresses are relative to the piece of
    each element (circle: the single root [0,L])."""
    pw = cctx.pw
    npc = len(pw) - 1
    ad = []
    for d in (dtr, dte):
        A, B = pw[d[4]], pw[d[4] + 1]
        n, lev = _addr(A, B, d[2], d[3])
        assert _coord(A, B, n, lev) == d[2] and _coord(A, B, n + 1, lev) == d[3]
        ad.append((d[4], n, lev))
    out = []

    def moved(d, p, n, lev):
        A, B = pw[p], pw[p + 1]
        return (d[0], d[1], _coord(A, B, n, lev), _coord(A, B, n + 1, lev), p)

    if cctx.name in ("UnitSquare", "PiSquare"):
        for k in (1, 2, 3):
            out.append(("quarter-turn-x{}".format(k),
                        moved(dtr, (ad[0][0] + k) % npc, ad[0][1], ad[0][2]),
                        moved(dte, (ad[1][0] + k) % npc, ad[1][1], ad[1][2])))
        for k in (0, 1):
            out.append(("reflection" + ("+quarter-turn" if k else ""),
                        moved(dtr, (npc - 1 - ad[0][0] + k) % npc, (1 << ad[0][2]) - 1 - ad[0][1], ad[0][2]),
                        moved(dte, (npc - 1 - ad[1][0] + k) % npc, (1 << ad[1][2]) - 1 - ad[1][1], ad[1][2])))
    elif cctx.name == "Circle":
        lmin = min(ad[0][2], ad[1][2])
        rots = [(k, 2) for k in (1, 2, 3) if lmin >= 2]
        if lmin >= 3:
            rots.append((1 + 2 * (rng_int % (1 << (lmin - 1))), lmin))     # odd multiple of L/2^lmin
            rots.append((1, lmin))
        for (k, m) in rots:
            mv = []
            for d, (p, n, lev) in zip((dtr, dte), ad):
                n2 = (n + k * (1 << (lev - m))) % (1 << lev)
                mv.append(moved(d, 0, n2, lev))
            out.append(("rotation-{}L/{}".format(k, 1 << m), mv[0], mv[1]))
        mv = [moved(d, 0, (1 << lev) - 1 - n, lev) for d, (p, n, lev) in zip((dtr, dte), ad)]
        out.append(("reflection", mv[0], mv[1]))
    return out


# ------------------------------------------------------------------------------------------------
# small helpers
# ------------------------------------------------------------------------------------------------
def _ulps(a, b):
    """Distance of two doubles in units in the last place (0 iff bitwise equal up to the sign of 0)."""
    a, b = float(a), float(b)
    if a == b:
        return 0
    if math.isnan(a) or math.isnan(b):
        return float("inf")

    def key(x):
        i = struct.unpack("<q", struct.pack("<d", x))[0]
        return i if i >= 0 else -(i & 0x7FFFFFFFFFFFFFFF)
    return abs(key(a) - key(b))


def _is_exact_zero(v):
    return isinstance(v, (int, float, np.floating, np.integer)) and not isinstance(v, bool) and v == 0


def _repo_raised(tb):
    """True iff the innermost frame of the traceback lies in the repository's src/."""
    frames = traceback.extract_tb(tb)
    return bool(frames) and os.path.realpath(frames[-1].filename).startswith(_SRC_DIR)


def _f(x):
    return repr(float(x))


def _dsrc(d):
    return "E({}, {}, {}, {}, {})".format(_f(d[0]), _f(d[1]), _f(d[2]), _f(d[3]), int(d[4]))


_PRELUDE = '''# replay against the working tree of the repository (REPO first on sys.path)
import math
import numpy as np
from src.parametrization import {curve}
from src.mesh import MeshParametrized, Vertex
from src.hierarchical_error_estimator import DummyElement
from src.single_layer import SingleLayerOperator
from src.quadrature import gauss_quadrature_scheme
gamma = {curve}()
mesh = MeshParametrized(gamma)
SLq = SingleLayerOperator(mesh)                      # quadrature path, default order
SLx = SingleLayerOperator(mesh, pw_exact=True)       # closed forms on straight pieces
def E(t0, t1, x0, x1, piece):
    vs = [Vertex(t0, x0, -1), Vertex(t0, x1, -1), Vertex(t1, x1, -1), Vertex(t1, x0, -1)]
    return DummyElement(vs, gamma.pw_gamma[piece])
def D(e):                                            # diagonal entry used in the metric
    return ({dsl}).bilform(e, e)
def split(e, kind):
    (t0, t1), (x0, x1), g = e.time_interval, e.space_interval, e.gamma_space
    if kind == "none": return [e]
    if kind == "time":
        tm = (t0 + t1) / 2
        return [DummyElement([Vertex(u, x0, -1), Vertex(u, x1, -1), Vertex(v, x1, -1), Vertex(v, x0, -1)], g)
                for (u, v) in ((t0, tm), (tm, t1))]
    if kind == "space":
        xm = (x0 + x1) / 2
        return [DummyElement([Vertex(t0, u, -1), Vertex(t0, v, -1), Vertex(t1, v, -1), Vertex(t1, u, -1)], g)
                for (u, v) in ((x0, xm), (xm, x1))]
    return DummyElement.uniform_refinement([e])[0]
'''


def _prelude(cctx):
    return _PRELUDE.format(curve=cctx.name, dsl="SLx" if cctx.straight else "SLq")


# ------------------------------------------------------------------------------------------------
# result aggregation (per chunk in the worker, merged in the parent)
# ------------------------------------------------------------------------------------------------
class Agg:
    """One clause: count, maximum of the metric, worst cases, violations, samples."""
    __slots__ = ("n", "nz", "maxm", "lim", "worst", "viol", "samples", "by_class")

    def __init__(self):
        self.n = 0
        self.nz = set()
        self.maxm = 0.0
        self.lim = None
        self.worst = []
        self.viol = []
        self.samples = []
        self.by_class = {}

    def add(self, metric, lim, cls, nontrivial_key, payload):
        self.n += 1
        self.lim = lim
        if nontrivial_key is not None:
            self.nz.add(nontrivial_key)
        m = float(metric)
        bad = not (m <= lim)
        if math.isnan(m):
            m = float("inf")
        c = self.by_class.setdefault(cls, [0, 0.0])
        c[0] += 1
        if m > c[1]:
            c[1] = m
        if m > self.maxm:
            self.maxm = m
        rec = (m, cls, payload)
        if bad:
            self.viol.append(rec)
            self.viol.sort(key=lambda r: -r[0])
            del self.viol[6:]
        if len(self.worst) < 3 or m > self.worst[-1][0]:
            self.worst.append(rec)
            self.worst.sort(key=lambda r: -r[0])
            del self.worst[3:]
        if len(self.samples) < 2 and nontrivial_key is not None:
            self.samples.append(rec)

    def merge(self, o):
        self.n += o.n
        self.nz |= o.nz
        self.lim = o.lim if o.lim is not None else self.lim
        self.maxm = max(self.maxm, o.maxm)
        self.worst = sorted(self.worst + o.worst, key=lambda r: -r[0])[:3]
        self.viol = sorted(self.viol + o.viol, key=lambda r: -r[0])[:6]
        self.samples = (self.samples + o.samples)[:3]
        for k, (n, m) in o.by_class.items():
            c = self.by_class.setdefault(k, [0, 0.0])
            c[0] += n
            c[1] = max(c[1], m)

    def state(self):
        return {k: getattr(self, k) for k in self.__slots__}

    @staticmethod
    def from_state(s):
        a = Agg()
        for k, v in s.items():
            setattr(a, k, v)
        return a


class Results:
    def __init__(self):
        self.aggs = {}          # (curve, clause) -> Agg
        self.raises = []        # (curve, clause, cls, payload, text)
        self.calls = {}         # curve -> number of guarded evaluations

    def agg(self, curve, clause):
        a = self.aggs.get((curve, clause))
        if a is None:
            a = self.aggs[(curve, clause)] = Agg()
        return a

    def merge_state(self, st):
        for key, s in st["aggs"].items():
            o = Agg.from_state(s)
            if key in self.aggs:
                self.aggs[key].merge(o)
            else:
                self.aggs[key] = o
        self.raises.extend(st["raises"])
        for k, v in st["calls"].items():
            self.calls[k] = self.calls.get(k, 0) + v

    def state(self):
        return dict(aggs={k: a.state() for k, a in self.aggs.items()}, raises=self.raises[:40],
                    calls=self.calls)


# ------------------------------------------------------------------------------------------------
# clause evaluators.  Each returns nothing and records into `res`; repo exceptions are recorded as
# violations of <prop>/bounded/<curve>/no-raise.
# ------------------------------------------------------------------------------------------------
_G = {}     # curve name -> CurveCtx (filled in the parent before the fork)


def _pair_key(cls, dtr, dte, extra=None):
    return hash((cls, dtr, dte, extra))


def _guard(res, cctx, clause, cls, payload, fn):
    res.calls[cctx.name] = res.calls.get(cctx.name, 0) + 1
    try:
        fn()
    except Exception:
        et, ev, tb = sys.exc_info()
        if not _repo_raised(tb):
            raise
        text = "".join(traceback.format_exception_only(et, ev)).strip()
        fr = traceback.extract_tb(tb)[-1]
        res.raises.append((cctx.name, clause, cls, payload,
                           "{} at {}:{} ({})".format(text, os.path.basename(fr.filename), fr.lineno, fr.line)))


# ---- C01 ---------------------------------------------------------------------------------------
def _c01_pair(res, cctx, mctx, tr, te, cls):
    dtr, dte = cctx.desc(tr), cctx.desc(te)
    payload = dict(kind="c01", trial=dtr, test=dte)

    def body():
        vq = mctx.SLq.bilform(tr, te)
        vx = mctx.SLx.bilform(tr, te)
        scale = math.sqrt(mctx.D(te) * mctx.D(tr))
        p = dict(payload, vq=float(vq), vx=float(vx), scale=scale)
        res.agg(cctx.name, "quad-vs-closed-form").add(
            abs(vq - vx) / scale, TOL_METRIC, cls, _pair_key(cls, dtr, dte) if vx != 0 else None, p)
    _guard(res, cctx, "quad-vs-closed-form", cls, payload, body)


def _c01_replay(cctx, p):
    return _prelude(cctx) + '''
tr, te = {tr}, {te}
vq = SLq.bilform(tr, te)        # singular quadrature
vx = SLx.bilform(tr, te)        # closed form (same straight piece)
scale = math.sqrt(D(te) * D(tr))
observed = dict(vq=vq, vx=vx, metric=abs(vq - vx) / scale, tol={tol!r})
violated = not (abs(vq - vx) <= {tol!r} * scale)
'''.format(tr=_dsrc(p["trial"]), te=_dsrc(p["test"]), tol=TOL_METRIC)


# ---- C11 ---------------------------------------------------------------------------------------
def _c11_pair(res, cctx, mctx, tr, te, cls):
    dtr, dte = cctx.desc(tr), cctx.desc(te)
    same_piece = cctx.straight and dtr[4] == dte[4]
    for pw in ((False, True) if same_piece else (False,)):
        SL = mctx.SLx if pw else mctx.SLq
        whole = [None]
        for kte in KINDS:
            pte = _split(te, kte)
            if any(_aspect(e) > ASPECT_MAX for e in pte):
                continue
            for ktr in KINDS:
                if kte == "none" and ktr == "none":
                    continue
                ptr = _split(tr, ktr)
                if any(_aspect(e) > ASPECT_MAX for e in ptr):
                    continue
                clause = "additive/{}x{}".format(kte, ktr)
                payload = dict(kind="c11", trial=dtr, test=dte, kte=kte, ktr=ktr, pw_exact=pw)
                c2 = cls + ("/pw_exact" if pw else "/quadrature")

                def body():
                    if whole[0] is None:
                        whole[0] = SL.bilform(tr, te)
                    total = 0.0
                    for a in ptr:
                        for b in pte:
                            total += SL.bilform(a, b)
                    scale = math.sqrt(mctx.D(te) * mctx.D(tr))
                    p = dict(payload, whole=float(whole[0]), total=float(total), scale=scale)
                    res.agg(cctx.name, clause).add(
                        abs(total - whole[0]) / scale, TOL_METRIC, c2,
                        _pair_key(c2, dtr, dte) if whole[0] != 0 else None, p)
                _guard(res, cctx, clause, c2, payload, body)


def _c11_replay(cctx, p):
    return _prelude(cctx) + '''
tr, te = {tr}, {te}
SL = {sl}
whole = SL.bilform(tr, te)
total = 0.0
for a in split(tr, {ktr!r}):
    for b in split(te, {kte!r}):
        total += SL.bilform(a, b)
scale = math.sqrt(D(te) * D(tr))
observed = dict(whole=whole, total=total, metric=abs(total - whole) / scale, tol={tol!r})
violated = not (abs(total - whole) <= {tol!r} * scale)
'''.format(tr=_dsrc(p["trial"]), te=_dsrc(p["test"]), sl="SLx" if p["pw_exact"] else "SLq",
           ktr=p["ktr"], kte=p["kte"], tol=TOL_METRIC)


# ---- C12 ---------------------------------------------------------------------------------------
TIME_SHIFTS = (0.25, 0.5, 1.0)


def _c12_pair(res, cctx, mctx, tr, te, cls, salt):
    dtr, dte = cctx.desc(tr), cctx.desc(te)
    same_piece = cctx.straight and dtr[4] == dte[4]
    base = {}

    def val(pw):
        if pw not in base:
            base[pw] = (mctx.SLx if pw else mctx.SLq).bilform(tr, te)
        return base[pw]

    for pw in ((False, True) if same_piece else (False,)):
        SL = mctx.SLx if pw else mctx.SLq
        c2 = cls + ("/pw_exact" if pw else "/quadrature")
        # (a) exchange of the space intervals (each element keeps its time interval and takes the
        #     other one's space interval together with the piece that belongs to it)
        d_tr2 = (dtr[0], dtr[1], dte[2], dte[3], dte[4])
        d_te2 = (dte[0], dte[1], dtr[2], dtr[3], dtr[4])
        payload = dict(kind="c12a", trial=dtr, test=dte, trial2=d_tr2, test2=d_te2, pw_exact=pw)

        def body_a():
            v = val(pw)
            v2 = SL.bilform(cctx.elem(d_tr2), cctx.elem(d_te2))
            p = dict(payload, v=float(v), v2=float(v2))
            m = 0 if (v == v2) else max(_ulps(v, v2), 1)
            res.agg(cctx.name, "exchange-bitwise").add(
                m, 0, c2, _pair_key(c2, dtr, dte) if v != 0 else None, p)
        _guard(res, cctx, "exchange-bitwise", c2, payload, body_a)

        # (b) common dyadic time shift
        for dt in TIME_SHIFTS:
            d_tr2 = (dtr[0] + dt, dtr[1] + dt) + dtr[2:]
            d_te2 = (dte[0] + dt, dte[1] + dt) + dte[2:]
            payload = dict(kind="c12b", trial=dtr, test=dte, trial2=d_tr2, test2=d_te2, pw_exact=pw, dt=dt)

            def body_b():
                v = val(pw)
                v2 = SL.bilform(cctx.elem(d_tr2), cctx.elem(d_te2))
                p = dict(payload, v=float(v), v2=float(v2))
                m = 0 if (v == v2) else max(_ulps(v, v2), 1)
                res.agg(cctx.name, "time-shift-bitwise").add(
                    m, 0, c2, _pair_key(c2, dtr, dte, dt) if v != 0 else None, p)
            _guard(res, cctx, "time-shift-bitwise", c2, payload, body_b)

        # (c) motions of the curve
        if cctx.name != "LShape":
            for (name, m_tr, m_te) in _motions(cctx, dtr, dte, salt):
                cls2 = _space_class(m_te, m_tr, cctx.L)
                c3 = "{}->{}/{}".format(cls, cls2, name) + ("/pw_exact" if pw else "/quadrature")
                payload = dict(kind="c12c", trial=dtr, test=dte, trial2=m_tr, test2=m_te, pw_exact=pw,
                               motion=name)

                def body_c():
                    v = val(pw)
                    v2 = SL.bilform(cctx.elem(m_tr), cctx.elem(m_te))
                    scale = math.sqrt(mctx.D(te) * mctx.D(tr))
                    p = dict(payload, v=float(v), v2=float(v2), scale=scale)
                    res.agg(cctx.name, "curve-motion").add(
                        abs(v - v2) / scale, TOL_METRIC, c3,
                        _pair_key(c3, dtr, dte) if v != 0 else None, p)
                _guard(res, cctx, "curve-motion", c3, payload, body_c)


def _c12_replay(cctx, p):
    head = _prelude(cctx) + '''
tr, te = {tr}, {te}
tr2, te2 = {tr2}, {te2}      # {what}
SL = {sl}
v = SL.bilform(tr, te)
v2 = SL.bilform(tr2, te2)
'''.format(tr=_dsrc(p["trial"]), te=_dsrc(p["test"]), tr2=_dsrc(p["trial2"]), te2=_dsrc(p["test2"]),
           sl="SLx" if p["pw_exact"] else "SLq",
           what={"c12a": "space intervals (and pieces) exchanged, time intervals kept",
                 "c12b": "both time intervals shifted by {}".format(p.get("dt")),
                 "c12c": "both elements moved by the curve symmetry '{}'".format(p.get("motion"))}[p["kind"]])
    if p["kind"] == "c12c":
        return head + '''scale = math.sqrt(D(te) * D(tr))
observed = dict(v=v, v2=v2, metric=abs(v - v2) / scale, tol={tol!r})
violated = not (abs(v - v2) <= {tol!r} * scale)
'''.format(tol=TOL_METRIC)
    return head + '''observed = dict(v=v, v2=v2, hex=(float(v).hex(), float(v2).hex()))
violated = not (v == v2)         # bit for bit
'''


# ---- C04 ---------------------------------------------------------------------------------------
def _c04_pair(res, cctx, mctx, tr, te, cls):
    dtr, dte = cctx.desc(tr), cctx.desc(te)
    same_piece = cctx.straight and dtr[4] == dte[4]
    acausal = dte[1] <= dtr[0]
    payload = dict(kind="c04p", trial=dtr, test=dte, same_piece=same_piece)

    def body():
        vq = mctx.SLq.bilform(tr, te)
        vx = mctx.SLx.bilform(tr, te) if same_piece else None
        p = dict(payload, vq=float(vq), vx=None if vx is None else float(vx))
        if acausal:
            ok = _is_exact_zero(vq) and (vx is None or _is_exact_zero(vx))
            p["types"] = (type(vq).__name__, type(vx).__name__)
            res.agg(cctx.name, "acausal-zero").add(0.0 if ok else 1.0, 0.0, cls, None, p)
            return
        scale = math.sqrt(mctx.D(te) * mctx.D(tr))
        p["scale"] = scale
        neg = max(-vq, 0.0 if vx is None else -vx, 0.0) / scale
        if vq != vq or (vx is not None and vx != vx):
            neg = float("nan")
        res.agg(cctx.name, "nonneg").add(neg, TOL_SIGN, cls, _pair_key(cls, dtr, dte), p)
        if vx is not None and vx > POS_REF:
            res.agg(cctx.name, "positive").add(0.0 if vq > 0 else 1.0, 0.0, cls, _pair_key(cls, dtr, dte), p)
    _guard(res, cctx, "acausal-zero" if acausal else "nonneg", cls, payload, body)


def _c04_pair_replay(cctx, p, clause):
    code = _prelude(cctx) + '''
tr, te = {tr}, {te}
vq = SLq.bilform(tr, te)
vx = SLx.bilform(tr, te) if {sp!r} else None
def exact_zero(v): return isinstance(v, (int, float, np.floating)) and v == 0
observed = dict(vq=vq, vx=vx)
'''.format(tr=_dsrc(p["trial"]), te=_dsrc(p["test"]), sp=bool(p["same_piece"]))
    if clause == "acausal-zero":
        return code + "violated = not (exact_zero(vq) and (vx is None or exact_zero(vx)))\n"
    if clause == "positive":
        return code + "violated = (vx is not None and vx > {!r}) and not (vq > 0)\n".format(POS_REF)
    return code + '''scale = math.sqrt(D(te) * D(tr))
violated = not (vq >= -{tol!r} * scale and (vx is None or vx >= -{tol!r} * scale))
'''.format(tol=TOL_SIGN)


def _c04_points(res, cctx, mctx, tr, pts):
    """pts: list of (t, x_hat, [domain points (px,py)])."""
    dtr = cctx.desc(tr)
    t0, t1, xa, xb, piece = dtr
    xm = (xa + xb) / 2
    SL = mctx.SLq
    gam = cctx.gamma
    scale_box = [None]

    def scale():
        if scale_box[0] is None:
            scale_box[0] = float(SL.evaluate(tr, float(t1), xm, gam.eval(xm)))
        return scale_box[0]

    for (t, x_hat, dom) in pts:
        acausal = t <= t0
        on_piece = cctx.straight and cctx.pw[piece] <= x_hat <= cctx.pw[piece + 1]
        tc = "t<t0" if t < t0 else "t=t0" if t == t0 else "t0<t<t1" if t < t1 else "t=t1" if t == t1 else "t>t1"
        calls = [("evaluate", lambda: SL.evaluate(tr, t, x_hat, gam.eval(x_hat)), None)]
        if on_piece:
            calls.append(("evaluate_exact", lambda: SL.evaluate_exact(tr, t, x_hat), None))
        for (px, py) in dom:
            calls.append(("potential", (lambda px=px, py=py: SL.potential(tr, t, np.array([[px], [py]]))),
                          (px, py)))
        for (fname, fn, xy) in calls:
            payload = dict(kind="c04v", trial=dtr, t=t, x_hat=x_hat, fn=fname, xy=xy)
            cls = "{}/{}".format(fname, tc)

            def body():
                v = fn()
                p = dict(payload, v=float(v), type=type(v).__name__)
                if acausal:
                    res.agg(cctx.name, "acausal-zero").add(0.0 if _is_exact_zero(v) else 1.0, 0.0, cls, None, p)
                else:
                    s = scale()
                    p["scale"] = s
                    neg = float("nan") if v != v else max(-float(v), 0.0) / s
                    res.agg(cctx.name, "nonneg").add(
                        neg, TOL_SIGN, cls, hash((cls, dtr, t, x_hat, xy)) if v != 0 else None, p)
            _guard(res, cctx, "acausal-zero" if acausal else "nonneg", cls, payload, body)


def _c04_point_replay(cctx, p, clause):
    call = {"evaluate": "SLq.evaluate(tr, t, x_hat, gamma.eval(x_hat))",
            "evaluate_exact": "SLq.evaluate_exact(tr, t, x_hat)",
            "potential": "SLq.potential(tr, t, np.array([[{}], [{}]]))".format(
                *(map(_f, p["xy"]) if p["xy"] else ("0", "0")))}[p["fn"]]
    code = _prelude(cctx) + '''
tr = {tr}
SLq._init_elems([tr])
t, x_hat = {t}, {x}
v = {call}
observed = dict(v=v, type=type(v).__name__)
'''.format(tr=_dsrc(p["trial"]), t=_f(p["t"]), x=_f(p["x_hat"]), call=call)
    if clause == "acausal-zero":
        return code + "violated = not (isinstance(v, (int, float, np.floating)) and v == 0)\n"
    return code + '''xm = (tr.space_interval[0] + tr.space_interval[1]) / 2
scale = SLq.evaluate(tr, float(tr.time_interval[1]), xm, gamma.eval(xm))   # peak of V 1_trial
violated = not (v >= -{tol!r} * scale)
'''.format(tol=TOL_SIGN)


# ---- C07 ---------------------------------------------------------------------------------------
def _c07_zone(x_hat, xa, xb):
    out = max(xa - x_hat, x_hat - xb, 0.0)
    if out == 0.0:
        return "in"
    return "far" if out >= 0.01 * (xb - xa) else "near"


def _c07_points(res, cctx, mctx, tr, pts):
    """pts: list of (t, x_hat) on the straight piece of tr with ratio h_x^2/tau <= 16."""
    dtr = cctx.desc(tr)
    t0, t1, xa, xb, piece = dtr
    SL = mctx.SLq
    gam = cctx.gamma
    for (t, x_hat) in pts:
        zone = _c07_zone(x_hat, xa, xb)
        tc = "t=t0" if t == t0 else "t0<t<t1" if t < t1 else "t=t1" if t == t1 else "t>t1"
        cls = "{}/{}".format(zone, tc)
        payload = dict(kind="c07e", trial=dtr, t=t, x_hat=x_hat, zone=zone)

        def body():
            ev = SL.evaluate(tr, t, x_hat, gam.eval(x_hat))
            ex = SL.evaluate_exact(tr, t, x_hat)
            p = dict(payload, ev=float(ev), ex=float(ex))
            if t <= t0:
                ok = _is_exact_zero(ev) and _is_exact_zero(ex)
                res.agg(cctx.name, "evaluate-vs-exact/" + zone).add(
                    0.0 if ok else float("inf"), C07_TOL[zone], cls, None, p)
                return
            err = abs(ev - ex) / max(abs(ex), C07_FLOOR)
            res.agg(cctx.name, "evaluate-vs-exact/" + zone).add(
                err, C07_TOL[zone], cls, hash((cls, dtr, t, x_hat)) if ex != 0 else None, p)
        _guard(res, cctx, "evaluate-vs-exact/" + zone, cls, payload, body)


def _c07_seam(res, cctx, mctx, tr, times):
    """closed curves: x_hat = 0 and x_hat = L are the same boundary point, so evaluate must give the same value there (to the
    tolerance of the zone the point lies in: 1e-8 each when the trial element touches the seam, i.e. the point is an end point of
    the closed element; the far-field tolerance otherwise)"""
    dtr = cctx.desc(tr)
    t0, t1, xa, xb, piece = dtr
    L = cctx.L
    SL = mctx.SLq
    gam = cctx.gamma
    touches = xa == 0 or xb == L
    tol = 2 * (C07_TOL["in"] if touches else C07_TOL["far"])
    for t in times:
        if t <= t0:
            continue
        cls = "{}/{}".format("seam-end-point" if touches else "seam-far", "t<=t1" if t <= t1 else "t>t1")
        payload = dict(kind="c07s", trial=dtr, t=t, tol=tol)

        def body():
            v0 = SL.evaluate(tr, t, 0.0, gam.eval(0.0))
            vL = SL.evaluate(tr, t, L, gam.eval(L))
            p = dict(payload, v0=float(v0), vL=float(vL))
            err = abs(v0 - vL) / max(abs(v0), abs(vL), C07_FLOOR)
            res.agg(cctx.name, "seam-identification").add(err, tol, cls, hash((cls, dtr, t)) if v0 != 0 else None, p)
        _guard(res, cctx, "seam-identification", cls, payload, body)


def _c07_seam_replay(cctx, p):
    return _prelude(cctx) + '''
tr = {tr}
SLq._init_elems([tr])
t, L = {t}, gamma.gamma_length
v0 = SLq.evaluate(tr, t, 0.0, gamma.eval(0.0))
vL = SLq.evaluate(tr, t, L, gamma.eval(L))
err = abs(v0 - vL) / max(abs(v0), abs(vL), {floor!r})
observed = dict(v0=v0, vL=vL, err=err, tol={tol!r})
violated = not (err <= {tol!r})
'''.format(tr=_dsrc(p["trial"]), t=_f(p["t"]), floor=C07_FLOOR, tol=p["tol"])


def _c07_point_replay(cctx, p):
    return _prelude(cctx) + '''
tr = {tr}
SLq._init_elems([tr])
t, x_hat = {t}, {x}
ev = SLq.evaluate(tr, t, x_hat, gamma.eval(x_hat))
ex = SLq.evaluate_exact(tr, t, x_hat)          # same straight piece
err = abs(ev - ex) / max(abs(ex), {floor!r})
observed = dict(ev=ev, ex=ex, err=err, zone={zone!r}, tol={tol!r})
violated = not (err <= {tol!r})
'''.format(tr=_dsrc(p["trial"]), t=_f(p["t"]), x=_f(p["x_hat"]), floor=C07_FLOOR, zone=p["zone"],
           tol=C07_TOL[p["zone"]])


# composite Gauss-Legendre rule for the integral of `evaluate` over the test element -------------
INT_RATIO = 0.15
INT_LEVELS = 4
INT_MIN_PANEL = 2.4e-3      # smallest panel inside the trial element: first Gauss node 0.0092*panel > 2e-5


_INT_SRC = '''
def integral_of_evaluate(SL, gamma, tr, te, ratio={ratio!r}, levels={levels!r}, min_panel={minp!r}):
    """Composite Gauss-Legendre (repo rule gauss_quadrature_scheme(23), 12 nodes per panel and
    direction) of t, x_hat -> SL.evaluate(tr, t, x_hat, gamma.eval(x_hat)) over the test element te.
    The space interval of te is cut at the end points of tr, its time interval at tr's start/end;
    panels are graded geometrically towards those cuts (where the integrand is only Hoelder)."""
    gs = gauss_quadrature_scheme(23)
    L = gamma.gamma_length
    (a, b), (c, d) = te.time_interval, tr.time_interval
    (xa, xb), (ya, yb) = te.space_interval, tr.space_interval
    def panels(u, v, gu, gv, min_len):
        if gu and gv:
            m = (u + v) / 2
            return panels(u, m, True, False, min_len) + panels(m, v, False, True, min_len)
        if not (gu or gv):
            return [(u, v)]
        cuts, w = [], v - u
        for _ in range(levels):
            if w * ratio < min_len:
                if min_len <= 0.6 * w: cuts.append(min_len)     # smallest admissible panel
                break
            w *= ratio
            cuts.append(w)
        pts = [u] + ([u + w for w in reversed(cuts)] if gu else [v - w for w in cuts]) + [v]
        return list(zip(pts[:-1], pts[1:]))
    tcuts = sorted(set([a, b] + [s for s in (c, d) if a < s < b]))
    tpan = []
    for u, v in zip(tcuts[:-1], tcuts[1:]):
        if v <= c: continue                                  # before the trial element: zero
        tpan += panels(u, v, u in (c, d), False, 0.0)
    xcuts = sorted(set([xa, xb] + [s for s in (ya, yb) if xa < s < xb]))
    xpan = []
    for u, v in zip(xcuts[:-1], xcuts[1:]):
        inside = ya <= u and v <= yb
        gu = u in (ya, yb) or (u == 0 and yb == L)
        gv = v in (ya, yb) or (v == L and ya == 0)
        xpan += panels(u, v, gu, gv, min_panel if inside else 0.0)
    total = 0.0
    for (xu, xv) in xpan:
        xs = xu + (xv - xu) * gs.points
        X = gamma.eval(xs)
        for k, xh in enumerate(xs):
            xk = X[:, k:k + 1]
            col = 0.0
            for (tu, tv) in tpan:
                ts = tu + (tv - tu) * gs.points
                vals = [SL.evaluate(tr, float(t), float(xh), xk) for t in ts]
                col += (tv - tu) * float(np.dot(gs.weights, vals))
            total += (xv - xu) * gs.weights[k] * col
    return total
'''.format(ratio=INT_RATIO, levels=INT_LEVELS, minp=INT_MIN_PANEL)

_ns = {"np": np, "gauss_quadrature_scheme": gauss_quadrature_scheme}
exec(compile(_INT_SRC, "<relational:integral_of_evaluate>", "exec"), _ns)
integral_of_evaluate = _ns["integral_of_evaluate"]


def _c07_integral(res, cctx, mctx, tr, te, cls):
    dtr, dte = cctx.desc(tr), cctx.desc(te)
    zone = "inside" if cls.split("/")[0] in ("identical", "nested") else "outside"
    payload = dict(kind="c07i", trial=dtr, test=dte, zone=zone)
    if zone == "inside" and min(tr.h_x, te.h_x) < INT_MIN_PANEL:
        # the reference integration cannot keep its nodes more than 1e-5 away from the end points of an element that is itself
        # shorter than the smallest admissible panel (the documented precondition of the interval rule, part of C07's quantifier)
        return

    def body():
        v = mctx.SLq.bilform(tr, te)
        integ = integral_of_evaluate(mctx.SLq, cctx.gamma, tr, te)
        scale = math.sqrt(mctx.D(te) * mctx.D(tr))
        p = dict(payload, bilform=float(v), integral=float(integ), scale=scale)
        res.agg(cctx.name, "integral-of-evaluate/" + zone).add(
            abs(integ - v) / scale, TOL_INTEGRAL[zone], cls, _pair_key(cls, dtr, dte) if v != 0 else None, p)
    _guard(res, cctx, "integral-of-evaluate/" + zone, cls, payload, body)


def _c07_integral_replay(cctx, p):
    return _prelude(cctx) + _INT_SRC + '''
tr, te = {tr}, {te}
SLq._init_elems([tr, te])
v = SLq.bilform(tr, te)
integ = integral_of_evaluate(SLq, gamma, tr, te)
scale = math.sqrt(D(te) * D(tr))
observed = dict(bilform=v, integral=integ, metric=abs(integ - v) / scale, tol={tol!r})
violated = not (abs(integ - v) <= {tol!r} * scale)
'''.format(tr=_dsrc(p["trial"]), te=_dsrc(p["test"]), tol=TOL_INTEGRAL[p["zone"]])


# ------------------------------------------------------------------------------------------------
# work items, worker
# ------------------------------------------------------------------------------------------------
def _worker(task):
    prop, curve, items = task
    cctx = _G[curve]
    res = Results()
    for it in items:
        kind, mid = it[0], it[1]
        mctx = cctx.meshes[mid]
        pool = mctx.pool
        if kind == "pair":
            _, _, i, j, cls, salt = it
            tr, te = pool[i], pool[j]
            if prop == "C01":
                _c01_pair(res, cctx, mctx, tr, te, cls)
            elif prop == "C11":
                _c11_pair(res, cctx, mctx, tr, te, cls)
            elif prop == "C12":
                _c12_pair(res, cctx, mctx, tr, te, cls, salt)
            elif prop == "C04":
                _c04_pair(res, cctx, mctx, tr, te, cls)
        elif kind == "c04pt":
            _c04_points(res, cctx, mctx, pool[it[2]], it[3])
        elif kind == "c07pt":
            _c07_points(res, cctx, mctx, pool[it[2]], it[3])
            if cctx.closed:
                _c07_seam(res, cctx, mctx, pool[it[2]], sorted({t for t, _ in it[3]}))
        elif kind == "c07int":
            _, _, i, j, cls = it
            tr, te = pool[i], pool[j]
            mctx.SLq._init_elems([e for e in (tr, te) if not hasattr(e, "_SingleLayerOperator__log_scheme_y")])
            _c07_integral(res, cctx, mctx, tr, te, cls)
    return res.state()


# ---- point generators ---------------------------------------------------------------------------
def _c04_point_items(cctx, cfg, rng):
    items = []
    per = max(1, cfg["c04_pt_trials"] // max(1, len(cctx.meshes)))
    L = cctx.L
    # a point of the domain from which boundary points are pulled in (sign clauses hold anywhere)
    centre = {"UnitSquare": (0.5, 0.5), "PiSquare": (math.pi / 2, math.pi / 2), "LShape": (0.5, 0.25),
              "Circle": (0.0, 0.0)}[cctx.name]
    for mid, mctx in enumerate(cctx.meshes):
        nl = len(mctx.leaves)
        for i in rng.sample(range(nl), min(per, nl)):
            e = mctx.leaves[i]
            t0, t1, xa, xb, piece = cctx.desc(e)
            ht, hx = t1 - t0, xb - xa
            times = [t0 - ht, t0 - 2.0 ** -40, t0, t0 + 2.0 ** -40, t0 + 1e-3 * ht, (t0 + t1) / 2, t1,
                     t1 + 2.0 ** -40, t1 + 1e-3 * ht, t1 + ht, t1 + 4 * ht, 2.0]
            xs = [xa, xb, (xa + xb) / 2, xa + 0.25 * hx, (xb + 0.3 * hx) % L, (xa - 0.3 * hx) % L,
                  (xb + 1e-6 * hx) % L, ((xa + xb) / 2 + L / 2) % L, 0.0, L, rng.uniform(0.0, L)]
            pts = []
            for t in times:
                for x_hat in rng.sample(xs, 4) + [xa, (xa + xb) / 2]:
                    g = cctx.gamma.eval(x_hat)
                    gx, gy = float(g[0, 0]), float(g[1, 0])
                    dom = []
                    for s in rng.sample((0.0, 0.5, 0.9, 0.999, 1.05), 2):
                        dom.append((centre[0] + s * (gx - centre[0]), centre[1] + s * (gy - centre[1])))
                    pts.append((float(t), float(x_hat), dom))
            items.append(("c04pt", mid, i, pts))
    return items


def _c07_point_items(cctx, cfg, rng):
    items = []
    per = max(1, cfg["pt_trials"] // max(1, len(cctx.meshes)))
    for mid, mctx in enumerate(cctx.meshes):
        nl = len(mctx.leaves)
        descs = [cctx.desc(e) for e in mctx.leaves]
        chosen = rng.sample(range(nl), min(per, nl))
        if mctx.text.startswith(UNEVEN_TAG):
            # the neighbours of the very short seam elements: they do not touch the seam but lie within 0.4 % of their length of it
            eps = min(d[3] - d[2] for d in descs)
            chosen = [k for k, d in enumerate(descs) if d[3] - d[2] > 2 * eps and
                      (abs(d[2] - eps) < 1e-12 or abs(d[3] - (cctx.L - eps)) < 1e-12)][:max(per, 4)]
        for i in chosen:
            t0, t1, xa, xb, piece = descs[i]
            P0, P1 = cctx.pw[piece], cctx.pw[piece + 1]
            ht, hx = t1 - t0, xb - xa
            times = [t0, t1, (t0 + t1) / 2, t0 + 0.25 * ht, t1 + 0.5 * ht, t1 + ht, t1 + 3 * ht, t1 + 0.1 * ht,
                     1.0, 1.5, rng.uniform(t0, 2.0)]
            ok_times = []
            for t in times:
                if t == t0:
                    ok_times.append(t)
                    continue
                taus = [s for s in (t - t0, t - t1) if s > 0]
                if taus and hx ** 2 / min(taus) <= C07_RATIO:
                    ok_times.append(t)
            xs = [xa, xb, (xa + xb) / 2, P0, P1]
            if hx > 10 * C07_MARGIN:
                xs += [xa + C07_MARGIN, xb - C07_MARGIN, rng.uniform(xa + C07_MARGIN, xb - C07_MARGIN),
                       rng.uniform(xa + C07_MARGIN, xb - C07_MARGIN)]
            for f in (1e-9, 1e-6, 1e-4, 1e-3, 5e-3, 9e-3, 0.0101, 0.02, 0.05, 0.1, 0.3, 0.5, 1.0, 1.5, 2.5, 6.0):
                xs += [xb + f * hx, xa - f * hx]
            # points of the neighbouring elements on the same side
            for d in rng.sample(descs, min(6, nl)):
                if d[4] == piece:
                    xs += [d[2], d[3], (d[2] + d[3]) / 2, rng.uniform(d[2], d[3])]
            xs += [rng.uniform(P0, P1) for _ in range(3)]
            xs = sorted(set(float(x) for x in xs if P0 <= x <= P1))
            # interior points must keep > 1e-5 from the end points
            xs = [x for x in xs if not (xa < x < xa + C07_MARGIN / 2 or xb - C07_MARGIN / 2 < x < xb)]
            pts = [(float(t), x) for t in ok_times for x in xs]
            if pts:
                items.append(("c07pt", mid, i, pts))
    return items


# ------------------------------------------------------------------------------------------------
# driver
# ------------------------------------------------------------------------------------------------
def _keep_c01(sc, dtr, dte):
    return dtr[4] == dte[4]


def _build(prop, tier, seed):
    cfg = TIERS[tier]
    curves = STRAIGHT if prop == "C01" else CURVES
    tasks = []
    info = {}
    _G.clear()
    for ci, name in enumerate(curves):
        rng = random.Random("{}|{}|{}|{}".format(prop, tier, seed, name))
        cctx = CurveCtx(name)
        _build_meshes(cctx, cfg, rng)
        _G[name] = cctx
        items = []
        share = cfg["pairs"] // len(curves)
        if prop in ("C01", "C11", "C12", "C04"):
            keep = _keep_c01 if prop == "C01" else None
            target = share if prop != "C04" else (2 * share) // 3
            for (mid, i, j, cls) in _sample_pairs(cctx, cfg, rng, target, keep):
                items.append(("pair", mid, i, j, cls, rng.getrandbits(30)))
            if prop == "C04":
                items += _c04_point_items(cctx, cfg, rng)
        elif prop == "C07":
            if cctx.straight:
                items += _c07_point_items(cctx, cfg, rng)

            def keep_int(sc, dtr, dte):
                return dtr != dte and dte[1] > dtr[0]          # test differs from trial; causal
            for (mid, i, j, cls) in _sample_pairs(cctx, cfg, rng, cfg["int_pairs"] // len(curves), keep_int):
                items.append(("c07int", mid, i, j, cls))
        rng.shuffle(items)
        info[name] = dict(n_items=len(items), meshes=[(m.text, len(m.leaves)) for m in cctx.meshes])
        nchunks = max(1, min(len(items), 16 * 6 // len(curves)))
        for k in range(nchunks):
            chunk = items[k::nchunks]
            if chunk:
                tasks.append((prop, name, chunk))
    return tasks, info


def _bound_text(prop, tier, info):
    parts = []
    for name, d in info.items():
        sizes = [n for _, n in d["meshes"]]
        parts.append("{}: {} meshes of {}..{} leaves, {} work items".format(
            name, len(sizes), min(sizes), max(sizes), d["n_items"]))
    return ("tier {}: curves {}; meshes MeshParametrized(curve) refined by uniform / corner-graded / seam-graded / "
            "seeded random bisection histories; every element (leaves, their halves/quarters as DummyElement, "
            "parents) has parabolic aspect h_x^2/h_t <= {:g}; ordered pairs (trial, test) stratified by "
            "(space relation x time relation); {}".format(tier, ", ".join(info), ASPECT_MAX, "; ".join(parts)))


def _replay_for(cctx, clause, p):
    k = p["kind"]
    if k == "c01":
        return _c01_replay(cctx, p)
    if k == "c11":
        return _c11_replay(cctx, p)
    if k in ("c12a", "c12b", "c12c"):
        return _c12_replay(cctx, p)
    if k == "c04p":
        return _c04_pair_replay(cctx, p, clause)
    if k == "c04v":
        return _c04_point_replay(cctx, p, clause)
    if k == "c07e":
        return _c07_point_replay(cctx, p)
    if k == "c07i":
        return _c07_integral_replay(cctx, p)
    if k == "c07s":
        return _c07_seam_replay(cctx, p)
    raise KeyError(k)


def _confirm(code):
    """Run the replay snippet in-process; -> (violated, observed/err)."""
    ns = {}
    try:
        exec(compile(code, "<replay>", "exec"), ns)
    except Exception as e:                                   # raises_is_violation
        return True, "raised " + "".join(traceback.format_exception_only(type(e), e)).strip()
    return bool(ns.get("violated")), ns.get("observed")


def _jsonable(p):
    out = {}
    for k, v in p.items():
        if isinstance(v, tuple):
            v = list(v)
        out[k] = v
    return out


def run(chk, prop, tier="quick", seed=0):
    """Evaluate the bounded relational clauses of `prop` and register them in `chk`; -> summary dict."""
    if prop not in ("C01", "C04", "C07", "C11", "C12"):
        raise ValueError("no relational clauses for " + prop)
    t_start = time.time()
    tasks, info = _build(prop, tier, seed)
    t_build = time.time() - t_start
    total = Results()
    ncpu = min(16, os.cpu_count() or 1)
    if ncpu > 1 and len(tasks) > 1:
        ctx = mp.get_context("fork")
        with ctx.Pool(ncpu) as pool:
            for st in pool.imap_unordered(_worker, tasks, 1):
                total.merge_state(st)
    else:
        for t in tasks:
            total.merge_state(_worker(t))
    bound = _bound_text(prop, tier, info)
    summary = dict(prop=prop, tier=tier, seed=seed, clauses={}, build_s=round(t_build, 2))
    chk.under_contract("src.single_layer:SingleLayerOperator.bilform",
                       "src.single_layer:SingleLayerOperator._SingleLayerOperator__integrate",
                       "src.single_layer:double_time_integrated_kernel")
    if prop in ("C01", "C11", "C12", "C04"):
        chk.under_contract("src.single_layer_exact:spacetime_integrated_kernel")
    if prop in ("C04", "C07"):
        chk.under_contract("src.single_layer:SingleLayerOperator.evaluate",
                           "src.single_layer:SingleLayerOperator.evaluate_exact")
    if prop == "C04":
        chk.under_contract("src.single_layer:SingleLayerOperator.potential")

    rules = {
        "quad-vs-closed-form": "|bilform(pw_exact=False) - bilform(pw_exact=True)| <= 1e-7*sqrt(D_test*D_trial), "
                               "same straight piece; distinct = distinct (class, trial, test) with nonzero entry",
        "additive": "|sum over pieces of bilform(piece_trial, piece_test) - bilform(trial, test)| <= "
                    "1e-7*sqrt(D_test*D_trial) (D of the unsplit elements), pw_exact False and True; pieces with "
                    "aspect > 32 skipped",
        "exchange-bitwise": "bilform after exchanging the space intervals (pieces follow, times stay) == bilform, "
                            "bit for bit; metric = ulp distance",
        "time-shift-bitwise": "bilform after shifting both time intervals by 0.25/0.5/1.0 == bilform, bit for bit",
        "curve-motion": "|bilform(moved pair) - bilform(pair)| <= 1e-7*sqrt(D_test*D_trial) for quarter turns and "
                        "reflections of the squares, dyadic rotations and the reflection of the circle",
        "nonneg": "causal: value >= -1e-15*scale (entries: sqrt(D_i*D_j); point values: peak of V 1_trial)",
        "acausal-zero": "test.t1 <= trial.t0 (resp. t <= t0) => value == 0 of type int/float",
        "positive": "closed-form value > 1e-250 => quadrature value > 0",
        "evaluate-vs-exact": "|evaluate - evaluate_exact|/max(|exact|,1e-9) <= 1e-8 (closed element) / 5e-4 "
                             "(>= 1% outside) / 2e-3 (between); h_x^2/tau <= 16; same straight piece",
        "seam-identification": "closed curves: |evaluate(x_hat = 0) - evaluate(x_hat = L)| / max(|values|, 1e-9) <= 2e-8 when the trial "
                               "element touches the seam, 1e-3 otherwise (the same boundary point)",
        "integral-of-evaluate": "|composite Gauss integral over the test element of evaluate(trial, ., .) - "
                                "bilform(trial, test)| <= tol*sqrt(D_test*D_trial), tol = {:g} for disjoint/touching space "
                                "intervals, {:g} for identical/nested ones (unchanged repo: 1.1e-9 / 7.3e-7)".format(
                                    TOL_INTEGRAL["outside"], TOL_INTEGRAL["inside"]),
        "no-raise": "no exception out of repository code on inputs satisfying the stated preconditions",
    }

    def rule_of(clause):
        return rules.get(clause.split("/")[0], "")

    seen_curves = set()
    for (curve, clause) in sorted(total.aggs):
        a = total.aggs[(curve, clause)]
        cctx = _G[curve]
        seen_curves.add(curve)
        name = "{}/bounded/{}/{}".format(prop, curve, clause)
        worst = [dict(metric=m, cls=c, **_jsonable(p)) for (m, c, p) in a.worst]
        summary["clauses"][name] = dict(n=a.n, max_metric=a.maxm, limit=a.lim, violations=len(a.viol),
                                        nontrivial=len(a.nz), by_class={k: tuple(v) for k, v in a.by_class.items()},
                                        worst=worst[:1])
        if not a.viol:
            chk.add(Ob(name, DISCHARGED, kind="bounded", backend="relational",
                       detail={"max_metric": a.maxm, "n": a.n, "limit": a.lim, "nontrivial": len(a.nz),
                               "classes": len(a.by_class), "worst": worst[:1]}))
        else:
            emitted = 0
            for (m, cls, p) in a.viol:
                if emitted >= 3:
                    break
                code = _replay_for(cctx, clause.split("/")[0], p)
                ok, obs = _confirm(code)
                if not ok:
                    chk.error("{}: worker saw metric {} (class {}) but the replay snippet does not confirm it "
                              "(observed {})".format(name, m, cls, obs))
                    continue
                emitted += 1
                chk.add(Ob(name, FAILED, kind="bounded", backend="relational",
                           detail=dict(metric=m, limit=a.lim, cls=cls, n=a.n, observed=str(obs)[:600],
                                       **_jsonable(p)),
                           replay={"code": code, "confirmed": True, "raises_is_violation": True}))
        samples = [dict(clause=name, cls=c, metric=m, **_jsonable(p)) for (m, c, p) in (a.samples + a.worst)[:3]]
        chk.add_bounded(name, a.n, len(a.nz), bound, rule_of(clause), samples)

    # exceptions out of repository code
    by_curve = {}
    for r in total.raises:
        by_curve.setdefault(r[0], []).append(r)
    for curve in sorted(set(list(seen_curves) + list(by_curve))):
        cctx = _G[curve]
        name = "{}/bounded/{}/no-raise".format(prop, curve)
        rs = by_curve.get(curve, [])
        ncalls = total.calls.get(curve, 0)
        summary["clauses"][name] = dict(n=ncalls, max_metric=float(len(rs)), limit=0, violations=len(rs),
                                        nontrivial=0, by_class={}, worst=[])
        if not rs:
            chk.add(Ob(name, DISCHARGED, kind="bounded", backend="relational",
                       detail={"max_metric": 0, "n": ncalls}))
        else:
            emitted = 0
            seen_text = set()
            for (_, clause, cls, p, text) in rs:
                if emitted >= 3:
                    break
                if text in seen_text and emitted > 0:
                    continue
                code = _replay_for(cctx, clause.split("/")[0], p)
                ok, obs = _confirm(code)
                if not ok:
                    chk.error("{}: exception '{}' not reproduced by the replay snippet".format(name, text))
                    continue
                seen_text.add(text)
                emitted += 1
                chk.add(Ob(name, FAILED, kind="bounded", backend="relational",
                           detail=dict(raised=text, clause=clause, cls=cls, n_raises=len(rs), n=ncalls,
                                       observed=str(obs)[:600], **_jsonable(p)),
                           replay={"code": code, "confirmed": True, "raises_is_violation": True}))
        chk.add_bounded(name, ncalls, 0, bound, rules["no-raise"], [])
    if prop == "C01":
        try:
            run_d9(chk)
        except BaseException as e:      # noqa
            chk.error("C01: extreme-ratio clause could not be evaluated: {}: {}".format(type(e).__name__, e))
    try:
        run_history(chk, prop, tier, seed)
    except BaseException as e:      # noqa
        chk.error("{}: history clause could not be evaluated: {}: {}".format(prop, type(e).__name__, e))
    summary["wall_s"] = round(time.time() - t_start, 2)
    summary["bound"] = bound
    chk.notes.append("bounded.relational {} {}: {:.1f}s, {}".format(prop, tier, summary["wall_s"], bound))
    return summary


D9_CODE = '''
import numpy as np
from src import parametrization as P
from src.mesh import MeshParametrized
from src.single_layer import SingleLayerOperator
curve = getattr(P, {curve!r})()
side = float(curve.pw_start[1])
eps = 0.004 * side
grid = [0.0, eps] + [float(v) for v in curve.pw_start[1:]]
mesh = MeshParametrized(curve, initial_space_mesh=grid)
leaves = {{(float(e.space_interval[0]), float(e.space_interval[1])): e for e in mesh.leaf_elements if e.time_interval == (0, 1) or tuple(map(float, e.time_interval)) == (0.0, 1.0)}}
te, tr = leaves[(0.0, eps)], leaves[(eps, side)]
SLq, SLx = SingleLayerOperator(mesh), SingleLayerOperator(mesh, pw_exact=True)
vq, vx = float(SLq.bilform(tr, te)), float(SLx.bilform(tr, te))
scale = float(np.sqrt(SLx.bilform(te, te) * SLx.bilform(tr, tr)))
observed = dict(quadrature=vq, closed_form=vx, metric=abs(vq - vx) / scale, ratio=(side - eps) / eps)
violated = abs(vq - vx) > 1e-7 * scale
'''


def run_d9(chk):
    """C01 on a custom tensor initial mesh with two touching LEAVES of length ratio 249 (initial space grid [0, 0.004 s, s, ...]): the
    singular-quadrature path against the closed form on the same straight side (the closed form agrees with an independent 40-digit
    mpmath reference to 1e-14 for these pairs, see DESIGN A.3 D9)"""
    from vlib.replay import run_replay
    for curve in ("UnitSquare", "PiSquare"):
        code = D9_CODE.format(curve=curve)
        res = run_replay(code, True)
        name = "C01/bounded/{}/quad-vs-closed-form/custom-initial-grid-touching-leaves-of-length-ratio-249".format(curve)
        if res.get("violated"):
            chk.add(Ob(name, FAILED, kind="bounded", backend="relational", detail=dict(observed=res.get("observed"), error=res.get("error")),
                       replay={"code": code, "confirmed": True, "raises_is_violation": True, "outcome": res}))
        else:
            chk.add(Ob(name, DISCHARGED, kind="bounded", backend="relational", detail=dict(observed=res.get("observed"))))
    chk.add_bounded("C01/bounded/custom-initial-grid-extreme-ratio", 4, 2,
                    "unit square and pi square with initial space grid [0, 0.004 s, s, ...]: the leaf pair [0, 0.004 s] / [0.004 s, s] in the slab [0, 1]",
                    "|quadrature path - closed form| <= 1e-7 sqrt(D_test D_trial)", [])


# ------------------------------------------------------------------------------------------------
# history independence (state shared between calls, operators, meshes or curves)
# ------------------------------------------------------------------------------------------------
def _hist_pairs(cctx, mid, n, rng):
    pool = cctx.meshes[mid].pool
    idx = list(range(len(pool)))
    out, tries = [], 0
    while len(out) < n and tries < 40 * n:
        tries += 1
        i, j = rng.choice(idx), rng.choice(idx)
        if pool[j].time_interval[1] > pool[i].time_interval[0] and (i, j) not in out:      # causal: non-trivial value
            out.append((i, j))
    return out


def _hist_points(cctx, mid, i, rng, n=3):
    e = cctx.meshes[mid].pool[i]
    t0, t1 = e.time_interval
    x0, x1 = e.space_interval
    h = float(x1 - x0)
    return [(float(t1) + 0.25 * float(t1 - t0) * (k + 1), float(x0) + h * (0.3 + 0.2 * k)) for k in range(n)]


def _hist_value(SL, cctx, prop, tr, te, pts):
    if prop == "C07":
        return [float(SL.evaluate(tr, t, xh, cctx.gamma.eval(xh))) for t, xh in pts]
    return [float(SL.bilform(tr, te))]


def _hist_fresh(task):
    prop, curve, mid, i, j, pw = task
    cctx = _G[curve]
    mctx = cctx.meshes[mid]
    SL = SingleLayerOperator(mctx.mesh, pw_exact=pw)
    if prop == "C07":
        SL._init_elems([mctx.pool[i]])
    return _hist_value(SL, cctx, prop, mctx.pool[i], mctx.pool[j], _hist_points(cctx, mid, i, None))


def _hist_sequence(task):
    """one process: three passes over the same pairs (given order / reversed, after calls on another mesh of the curve and on another
    curve / a newly constructed operator), every value recorded"""
    prop, curve, other, mid, pairs, pw = task
    cctx, octx = _G[curve], _G[other]
    mctx = cctx.meshes[mid]
    m2 = cctx.meshes[(mid + 1) % len(cctx.meshes)]
    SLa = SingleLayerOperator(mctx.mesh, pw_exact=pw)
    SLb = SingleLayerOperator(m2.mesh, pw_exact=pw)
    SLo = SingleLayerOperator(octx.meshes[0].mesh, pw_exact=pw and octx.straight)
    if prop == "C07":
        SLa._init_elems(list(mctx.pool))
        SLb._init_elems(list(m2.pool))
        SLo._init_elems(list(octx.meshes[0].pool))

    def val(SL, cc, mc, i, j):
        return _hist_value(SL, cc, prop, mc.pool[i], mc.pool[j], _hist_points(cc, cc.meshes.index(mc), i, None))
    # the same parameter rectangles on the other curve (a memo keyed by intervals only would collide here), evaluated BEFORE the first
    # pass and again between the passes
    def twin(e):
        t0, t1, x0, x1, _ = cctx.desc(e)
        for k in range(len(octx.pw) - 1):
            if octx.pw[k] <= x0 and x1 <= octx.pw[k + 1]:
                return octx.elem((t0, t1, x0, x1, k))
        return None

    def twin_calls():
        for i, j in pairs:
            a, b = twin(mctx.pool[i]), twin(mctx.pool[j])
            if a is not None and b is not None:
                try:
                    if prop == "C07":
                        SLo._init_elems([a])
                    _hist_value(SLo, octx, prop, a, b, _hist_points(cctx, cctx.meshes.index(mctx), i, None))
                except BaseException:      # noqa  (the twin call is only there to create history)
                    pass
    twin_calls()
    out = {}
    out["first-pass-after-calls-on-the-same-parameter-rectangles-of-another-curve"] = [val(SLa, cctx, mctx, i, j) for i, j in pairs]
    rng = random.Random(5)
    for i, j in _hist_pairs(cctx, (mid + 1) % len(cctx.meshes), 6, rng):
        val(SLb, cctx, m2, i, j)
    for i, j in _hist_pairs(octx, 0, 6, rng):
        val(SLo, octx, octx.meshes[0], i, j)
    twin_calls()
    out["reversed-after-other-meshes-and-curves"] = [val(SLa, cctx, mctx, i, j) for i, j in reversed(pairs)][::-1]
    SLn = SingleLayerOperator(mctx.mesh, pw_exact=pw)
    if prop == "C07":
        SLn._init_elems(list(mctx.pool))
    out["new-operator-on-the-same-mesh"] = [val(SLn, cctx, mctx, i, j) for i, j in pairs]
    return out


def run_history(chk, prop, tier, seed):
    """bilform / evaluate are functions of their arguments: the value of a call does not depend on earlier calls, on the order of the
    calls, or on other operators, meshes and curves alive in the process (bitwise, against one fresh process per call)"""
    curves = [c for c in _G if (_G[c].straight or prop != "C07")]
    if not curves:
        return
    n_pairs = 10 if tier == "quick" else 24
    ctx = mp.get_context("fork")
    n_eval = 0
    for ci, curve in enumerate(curves):
        cctx = _G[curve]
        other = curves[(ci + 1) % len(curves)]
        rng = random.Random("hist|{}|{}|{}".format(prop, seed, curve))
        pw = bool(cctx.straight and (ci % 2 == 0) and prop != "C07")
        pairs = _hist_pairs(cctx, 0, n_pairs, rng)
        name = "{}/bounded/{}/value-independent-of-call-history".format(prop, curve)
        bad, det = [], {}
        try:
            with ctx.Pool(1, maxtasksperchild=1) as p1:
                seq = p1.apply(_hist_sequence, ((prop, curve, other, 0, pairs, pw),))
            with ctx.Pool(min(16, len(pairs)), maxtasksperchild=1) as pf:
                fresh = pf.map(_hist_fresh, [(prop, curve, 0, i, j, pw) for i, j in pairs], 1)
            n_eval += 4 * len(pairs)
            for tag, vals in seq.items():
                for (i, j), v, f in zip(pairs, vals, fresh):
                    if v != f:
                        bad.append(dict(history=tag, pair=(i, j), in_history=v, fresh_process=f,
                                        trial=cctx.desc(cctx.meshes[0].pool[i]), test=cctx.desc(cctx.meshes[0].pool[j])))
        except BaseException as e:      # noqa
            bad.append(dict(raised="{}: {}".format(type(e).__name__, e)))
        if not bad:
            chk.add(Ob(name, DISCHARGED, kind="bounded", backend="relational", detail=dict(pairs=len(pairs), pw_exact=pw)))
        else:
            code = ("from bounded import relational as R\nimport multiprocessing as mp\nR._build({prop!r}, {tier!r}, {seed!r})\n"
                    "ctx = mp.get_context('fork')\npairs = {pairs!r}\n"
                    "with ctx.Pool(1, maxtasksperchild=1) as p1:\n    seq = p1.apply(R._hist_sequence, (({prop!r}, {curve!r}, {other!r}, 0, pairs, {pw!r}),))\n"
                    "with ctx.Pool(4, maxtasksperchild=1) as pf:\n    fresh = pf.map(R._hist_fresh, [({prop!r}, {curve!r}, 0, i, j, {pw!r}) for i, j in pairs], 1)\n"
                    "observed = [(tag, p, v, f) for tag, vals in seq.items() for p, v, f in zip(pairs, vals, fresh) if v != f][:4]\n"
                    "violated = len(observed) > 0\n").format(prop=prop, tier=tier, seed=seed, pairs=pairs, curve=curve, other=other, pw=pw)
            ok, obs = _confirm(code)
            if ok:
                chk.add(Ob(name, FAILED, kind="bounded", backend="relational", detail=dict(first=[_jsonable(b) for b in bad[:3]], n=len(bad)),
                           replay={"code": code, "confirmed": True, "raises_is_violation": True}))
            else:
                chk.error("{}: history dependence seen but not confirmed by the replay ({})".format(name, str(obs)[:200]))
    chk.add_bounded("{}/bounded/value-independent-of-call-history".format(prop), n_eval, len(curves),
                    "{} causal pairs per curve on the first mesh; histories: given order, reversed after calls on another mesh of the curve and "
                    "on another curve, a newly constructed operator".format(n_pairs),
                    "every value == the value of the same call in a process of its own (bitwise)", [])


# ------------------------------------------------------------------------------------------------
# CLI
# ------------------------------------------------------------------------------------------------
def _print_summary(s, verbose=False):
    print("{} tier={} seed={} build={}s wall={}s".format(s["prop"], s["tier"], s["seed"], s["build_s"], s["wall_s"]))
    print("  " + s["bound"])
    for name in sorted(s["clauses"]):
        c = s["clauses"][name]
        print("  {:<58} n={:<7d} nontrivial={:<6d} max={:<11.4g} limit={:<8g} {}".format(
            name, c["n"], c["nontrivial"], c["max_metric"], c["limit"] if c["limit"] is not None else float("nan"),
            "VIOLATIONS={}".format(c["violations"]) if c["violations"] else "ok"))
        if verbose:
            for k in sorted(c["by_class"]):
                n, m = c["by_class"][k]
                print("        {:<60} n={:<6d} max={:.3g}".format(k, n, m))


def main(argv=None):
    argv = list(sys.argv[1:] if argv is None else argv)
    verbose = "-v" in argv
    argv = [a for a in argv if a != "-v"]
    prop = argv[0] if argv else "C01"
    tier = argv[1] if len(argv) > 1 else "quick"
    seed = int(argv[2]) if len(argv) > 2 else int(os.environ.get("VERIF_SEED", "0") or 0)
    chk = Check(prop, tier, seed, "bounded", "python -m bounded.relational {} {}".format(prop, tier))
    s = run(chk, prop, tier, seed)
    _print_summary(s, verbose)
    failed = [o for o in chk.obs if o.status == FAILED]
    for o in failed[:12]:
        print("FAILED", o.name, {k: o.detail[k] for k in list(o.detail)[:8]})
    for e in chk.errors:
        print("GENERATOR-ERROR", e)
    return 1 if failed else (3 if chk.errors else 0)


if __name__ == "__main__":
    sys.exit(main())
