"""Bounded exhaustive explorer of the real space-time mesh (`src/mesh.py`), in lock-step with the
independent reference model of `bounded/_mesh_ref.py` (which never touches the repository code).

Used by the check drivers of C02, C10, C06, C19 through `run(chk, prop, tier, seed)`.

 * real meshes are driven with `fractions.Fraction` coordinates, so all geometry is exact;
 * a state is its canonical leaf set (frozenset of (t0,t1,x0,x1)); an operation is
   ('axis', rect, ax) == mesh.refine_axis(<leaf with that rectangle>, ax); histories are replayable;
 * after every operation the executable class invariant `well_formed` is evaluated on the REAL object and
   the new view is compared with the reference closure (`minimal`).

Debug CLI:  cd /verif && PYTHONPATH=/verif:/repo .venv/bin/python -m bounded.mesh_explorer C02 quick
"""
import contextlib
import io
import itertools
import json
import linecache
import math
import multiprocessing
import os
import random
import signal
import sys
import time
import traceback
from fractions import Fraction

from vlib.core import DISCHARGED, FAILED, REPO, Ob

# The repository under verification must come FIRST on sys.path (it may be a mutated scratch copy).  If a
# replay wrapper already imported src.mesh from its own sys.path[0] we use that module.
if "src.mesh" not in sys.modules:
    if not sys.path or sys.path[0] != REPO:
        sys.path.insert(0, REPO)
import src.mesh as RM  # noqa: E402  (the real code)

from bounded import _mesh_ref as ref  # noqa: E402
from bounded._mesh_ref import View, closure_fixpoint, closure_refine, geo_nbrs, halves  # noqa: E402

F = Fraction
NPROC = min(16, os.cpu_count() or 1)
sys.setrecursionlimit(max(sys.getrecursionlimit(), 3000))


# =====================================================================================================
# 1. initial meshes (families) and building the real mesh
# =====================================================================================================
class Init:
    """A named initial mesh: tensor grid of exact coordinates, open or glued."""

    def __init__(self, name, time, space, glued):
        self.name = name
        self.time = [F(t) for t in time]
        self.space = [F(x) for x in space]
        self.glued = bool(glued)
        den = 1
        for q in self.time + self.space:
            den = den * q.denominator // math.gcd(den, q.denominator)
        self.den = den

    def build(self):
        return RM.Mesh(glue_space=self.glued, initial_space_mesh=list(self.space),
                       initial_time_mesh=list(self.time))

    def view(self):
        return View.initial(self.glued, self.space, self.time)

    def spec(self):
        return dict(name=self.name, glued=self.glued, time=[str(t) for t in self.time],
                    space=[str(x) for x in self.space])

    @classmethod
    def from_spec(cls, d):
        return cls(d["name"], d["time"], d["space"], d["glued"])


def _grid(n):
    return [F(i, n) for i in range(n + 1)]


def make_families():
    fams = {}
    for nt, nx in ((1, 1), (1, 2), (2, 1), (2, 2), (3, 1)):
        for glued in (False, True):
            name = "{}x{}-{}".format(nt, nx, "glued" if glued else "open")
            fams[name] = Init(name, _grid(nt), _grid(nx), glued)
    fams["uneven-glued"] = Init("uneven-glued", [0, F(1, 3), 1], [0, F(1, 4), 1], True)
    return fams


FAMILIES = make_families()
SMALL_FAMILIES = ("1x1-open", "1x1-glued", "1x2-open", "1x2-glued", "2x1-open", "2x1-glued")


def bfs_depths(tier):
    if tier == "quick":
        return {n: 3 for n in FAMILIES}
    return {n: (5 if n in SMALL_FAMILIES else 4) for n in FAMILIES}


# =====================================================================================================
# 2. looking at the real object
# =====================================================================================================
def elem_rect(e):
    """Rectangle of a real element, read from its vertex objects (v0 = (t0,x0), v2 = (t1,x1))."""
    v = e.vertices
    return (v[0].t, v[2].t, v[0].x, v[2].x)


def created_elements(mesh):
    out, stack = [], list(reversed(mesh.roots))
    while stack:
        e = stack.pop()
        out.append(e)
        if e.children:
            stack.extend(reversed(list(e.children)))
    return out


def real_leaves(mesh):
    """rect -> levels of the real leaf collection (None if two leaves have the same rectangle)."""
    d = {}
    for e in mesh.leaf_elements:
        r = elem_rect(e)
        if r in d:
            return None
        d[r] = tuple(e.levels)
    return d


def leaf_by_rect(mesh, rect):
    for e in mesh.leaf_elements:
        if elem_rect(e) == rect:
            return e
    raise KeyError("no leaf with rectangle {}".format(rect_str(rect)))


def rect_str(r):
    return "[{},{}]x[{},{}]".format(*r)


def rect_json(r):
    return [str(c) for c in r]


def rect_parse(l):
    return tuple(F(c) for c in l)


def view_json(leaves):
    return sorted("{}:{}".format(rect_str(r), tuple(lv)) for r, lv in leaves.items())


# ---- the class invariant ---------------------------------------------------------------------------
C02_CLAUSES = ("no-raise", "tiling", "levels-dyadic", "leaf-bookkeeping", "glob-idx-unique", "vertex-unique",
               "edge-elem", "one-irregular", "minimal", "reference-agreement")
C10_CLAUSES = ("no-raise", "nbrs-no-raise", "nbrs-exact", "nbrs-symmetric", "nbrs-boundary", "nbr-edge-symmetric")
PAIRWISE_LIMIT = 150     # O(n^2) overlap test only up to this many leaves (area + reference equality beyond)


def _geo_view(init, leaves):
    return View(leaves, init.glued, init.time[0], init.time[-1], init.space[0], init.space[-1])


def well_formed(mesh, init, expected=None, exact=True):
    """Evaluate the class invariant on the real object.  Returns a list of (clause, detail-string); empty
    means well formed.  `expected` (a reference View) adds the comparison with the reference (`minimal`).
    `exact=False` (float coordinates) skips the clauses that need exact arithmetic/geometry."""
    bad = []

    def fail(clause, msg):
        if len(bad) < 40:
            bad.append((clause, msg))

    try:
        created = created_elements(mesh)
    except Exception as e:  # pragma: no cover  (broken tree)
        return [("leaf-bookkeeping", "tree walk raised {!r}".format(e))]
    leaves = list(mesh.leaf_elements)
    leaf_set = set(leaves)

    # -- leaf-bookkeeping
    childless = {e for e in created if not e.children}
    if leaf_set != childless or len(leaves) != len(leaf_set):
        fail("leaf-bookkeeping", "leaf_elements has {} entries, {} childless created elements, sym.diff {}".format(
            len(leaves), len(childless), [repr(e) for e in list(leaf_set ^ childless)[:4]]))

    # -- glob-idx-unique
    try:
        idxs = [e.glob_idx for e in created]
        if len(set(idxs)) != len(idxs) or any(not (0 <= i < mesh.N_elements) for i in idxs) \
                or mesh.N_elements != len(created):
            fail("glob-idx-unique", "glob_idx {} with N_elements={} created={}".format(
                sorted(idxs)[:12], mesh.N_elements, len(created)))
    except AttributeError as e:
        fail("glob-idx-unique", "element without glob_idx: {!r}".format(e))

    # -- vertex-unique
    seen = {}
    for i, v in enumerate(mesh.vertices):
        if v.idx != i:
            fail("vertex-unique", "vertices[{}].idx == {}".format(i, v.idx))
        if (v.t, v.x) in seen:
            fail("vertex-unique", "vertices {} and {} share coordinates ({},{})".format(seen[(v.t, v.x)], i, v.t, v.x))
        seen[(v.t, v.x)] = i
    nv = len(mesh.vertices)
    for e in leaves:
        for v in e.vertices:
            if not (0 <= v.idx < nv) or mesh.vertices[v.idx] is not v:
                fail("vertex-unique", "vertex {} of leaf {} is not mesh.vertices[{}]".format(v, e, v.idx))

    # -- edge-elem (+ the orientation asserts of Element.__init__ re-evaluated)
    for e in leaves:
        ed = e.edges
        if len(ed) != 4:
            fail("edge-elem", "{} has {} edges".format(e, len(ed)))
            continue
        for k in range(4):
            if ed[k].elem is not e:
                fail("edge-elem", "edge {} of leaf {} has elem {}".format(k, e, ed[k].elem))
            if ed[k].children:
                fail("edge-elem", "edge {} of leaf {} is bisected".format(k, e))
            if ed[k - 1].vertices[1] is not ed[k].vertices[0]:
                fail("edge-elem", "edges {} and {} of {} do not chain".format((k - 1) % 4, k, e))
            if e.vertices[k] is not ed[k].vertices[0]:
                fail("edge-elem", "vertices[{}] of {} is not the start of edge {}".format(k, e, k))
        v = e.vertices
        if not (v[0].t == v[1].t and v[1].x == v[2].x and v[2].t == v[3].t and v[3].x == v[0].x
                and v[0].t < v[2].t and v[0].x < v[1].x):
            fail("edge-elem", "orientation of {} broken: {}".format(e, v))
        r = elem_rect(e)
        if (tuple(e.time_interval), tuple(e.space_interval)) != ((r[0], r[1]), (r[2], r[3])) \
                or e.h_t != r[1] - r[0] or e.h_x != r[3] - r[2]:
            fail("edge-elem", "cached intervals/h of {} disagree with its vertices".format(e))

    # -- levels-dyadic (whole tree)
    for e in created:
        if e.parent is None:
            if tuple(e.levels) != (0, 0):
                fail("levels-dyadic", "root {} has levels {}".format(e, e.levels))
        if e.children:
            if len(e.children) != 2:
                fail("levels-dyadic", "{} has {} children".format(e, len(e.children)))
                continue
            lv = tuple(e.levels)
            clv = tuple(e.children[0].levels)
            ax = 0 if clv == (lv[0] + 1, lv[1]) else 1 if clv == (lv[0], lv[1] + 1) else None
            for c in e.children:
                if c.parent is not e:
                    fail("levels-dyadic", "child {} of {} has parent {}".format(c, e, c.parent))
                if ax is None or tuple(c.levels) != clv:
                    fail("levels-dyadic", "children levels {} of parent levels {}".format(
                        [c.levels for c in e.children], lv))
            if ax is not None and (elem_rect(e.children[0]), elem_rect(e.children[1])) != halves(elem_rect(e), ax):
                fail("levels-dyadic", "children of {} are not its halves in axis {}: {}".format(e, ax, e.children))
    if exact:
        for e in leaves:
            root = e
            depth = 0
            while root.parent is not None and depth < 10000:
                root, depth = root.parent, depth + 1
            if depth != e.levels[0] + e.levels[1]:
                fail("levels-dyadic", "{} levels {} but parent chain of length {}".format(e, e.levels, depth))
            rr, r = elem_rect(root), elem_rect(e)
            ht, hx = (rr[1] - rr[0]) / 2 ** e.levels[0], (rr[3] - rr[2]) / 2 ** e.levels[1]
            ok = e.h_t == ht and e.h_x == hx and ref.contains(rr, r)
            if ok:
                kt, kx = (r[0] - rr[0]) / ht, (r[2] - rr[2]) / hx
                ok = kt.denominator == 1 and kx.denominator == 1
            if not ok or root not in mesh.roots:
                fail("levels-dyadic", "{} levels {} is not that dyadic descendant of root {}".format(e, e.levels, root))

    # -- tiling
    rl = real_leaves(mesh)
    tiling_ok = True
    if rl is None:
        fail("tiling", "two leaves have the same rectangle")
        tiling_ok = False
        rl = {elem_rect(e): tuple(e.levels) for e in leaves}
    if exact:
        cyl = (init.time[0], init.time[-1], init.space[0], init.space[-1])
        tot = sum((ref.area(r) for r in rl), F(0))
        if tot != ref.area(cyl) or any(not ref.contains(cyl, r) for r in rl):
            fail("tiling", "leaf area {} vs cylinder area {}".format(tot, ref.area(cyl)))
            tiling_ok = False
        if len(rl) <= PAIRWISE_LIMIT:
            rs = list(rl)
            for i in range(len(rs)):
                a = rs[i]
                for j in range(i + 1, len(rs)):
                    if ref.overlap_area_positive(a, rs[j]):
                        fail("tiling", "leaves {} and {} overlap".format(rect_str(a), rect_str(rs[j])))
                        tiling_ok = False
    if expected is not None:
        if set(rl) != set(expected.leaves):
            extra = sorted(set(rl) - set(expected.leaves))[:4]
            missing = sorted(set(expected.leaves) - set(rl))[:4]
            fail("minimal", "real view != reference closure; real-only {} reference-only {}".format(
                [rect_str(r) for r in extra], [rect_str(r) for r in missing]))
        else:
            for r, lv in rl.items():
                if tuple(expected.leaves[r]) != lv:
                    fail("levels-dyadic", "leaf {} has levels {} but reference {}".format(
                        rect_str(r), lv, expected.leaves[r]))

    # -- neighbours (C10) and 1-irregularity
    gv = _geo_view(init, rl) if (exact and tiling_ok) else None
    nb = {}
    for e in leaves:
        for k in range(4):
            edge = e.edges[k]
            try:
                ns = edge.neighbour_elements()
            except AssertionError:
                fail("nbrs-no-raise", "neighbour_elements() of edge {} of {} raised AssertionError".format(k, e))
                ns = None
            except Exception as ex:
                fail("nbrs-no-raise", "neighbour_elements() of edge {} of {} raised {!r}".format(k, e, ex))
                ns = None
            nb[(e, k)] = ns
            if ns is None:
                continue
            if len(ns) > 2 or any(n is None for n in ns) or any(n not in leaf_set for n in ns if n is not None) \
                    or len(set(map(id, ns))) != len(ns):
                fail("nbrs-exact", "edge {} of {} reports {}".format(k, e, ns))
                continue
            for n in ns:
                if abs(n.levels[0] - e.levels[0]) > 1 or abs(n.levels[1] - e.levels[1]) > 1:
                    fail("one-irregular", "{} levels {} has neighbour {} levels {} across edge {}".format(
                        e, e.levels, n, n.levels, k))
            if edge.nbr_edge is not None and edge.nbr_edge.nbr_edge is not edge:
                fail("nbr-edge-symmetric", "edge {} of {}: nbr_edge.nbr_edge is not the edge".format(k, e))
            if gv is not None:
                r = elem_rect(e)
                want = geo_nbrs(gv, r, k)
                got = {elem_rect(n) for n in ns}
                if got != want:
                    fail("nbrs-exact", "{} side {}: reported {} geometric {}".format(
                        rect_str(r), ref.SIDE_NAMES[k], sorted(map(rect_str, got)), sorted(map(rect_str, want))))
                outer, seam = ref.on_outer_boundary(gv, r, k), ref.on_seam(gv, r, k)
                if outer and (not edge.on_boundary or ns or edge.glued):
                    fail("nbrs-boundary", "{} side {} lies on the boundary: on_boundary={} glued={} nbrs={}".format(
                        rect_str(r), ref.SIDE_NAMES[k], edge.on_boundary, edge.glued, ns))
                if not outer and not ns:
                    fail("nbrs-boundary", "{} side {} is interior/seam but has no neighbour".format(
                        rect_str(r), ref.SIDE_NAMES[k]))
                if seam != bool(edge.glued) or (not outer and not seam and edge.on_boundary):
                    fail("nbrs-boundary", "{} side {}: flags on_boundary={} glued={} (outer={}, seam={})".format(
                        rect_str(r), ref.SIDE_NAMES[k], edge.on_boundary, edge.glued, outer, seam))
    for (e, k), ns in nb.items():
        for n in ns or ():
            if n is None or n not in leaf_set:
                continue
            back = nb.get((n, ref.OPPOSITE[k]))
            if back is not None and not any(b is e for b in back):
                fail("nbrs-symmetric", "{} in nbrs({}, {}) but not conversely".format(n, e, ref.SIDE_NAMES[k]))
    return bad


# =====================================================================================================
# 3. lock-step execution of histories
# =====================================================================================================
def op_json(op):
    if op[0] == "axis":
        return ["axis", rect_json(op[1]), op[2]]
    if op[0] == "refine":
        return ["refine", rect_json(op[1])]
    return [op[0]]


def op_parse(l):
    if l[0] == "axis":
        return ("axis", rect_parse(l[1]), int(l[2]))
    if l[0] == "refine":
        return ("refine", rect_parse(l[1]))
    return (l[0],)


def op_short(op):
    if op[0] == "axis":
        return "{}{}".format("T" if op[2] == 0 else "X", rect_str(op[1]))
    if op[0] == "refine":
        return "TX" + rect_str(op[1])
    return op[0]


def describe_exception(e):
    """(type name, function in src/mesh.py, source line text) of the innermost repository frame."""
    func, text, lineno = "?", "?", 0
    for fs in traceback.extract_tb(e.__traceback__):
        if fs.filename.endswith(os.path.join("src", "mesh.py")):
            func, lineno = fs.name, fs.lineno
            text = (fs.line or linecache.getline(fs.filename, fs.lineno)).strip()
    return type(e).__name__, func, text, lineno


def reference_apply(view, op):
    """Reference semantics of an operation.  Returns (new view, list of notes about the reference itself)."""
    notes = []
    if op[0] == "axis":
        new = closure_refine(view, op[1], op[2])
        fix = closure_fixpoint(view, op[1], op[2])
        if new.leaves != fix.leaves:
            notes.append("recursive closure and least fixed point differ for {} on {}".format(
                op_short(op), view_json(view.leaves)))
        return new, notes
    if op[0] == "refine":            # time bisection, then space bisection of both time halves
        w = closure_refine(view, op[1], 0)
        for h in halves(op[1], 0):
            w = ref.ensure_bisected(w, h, 1)
        return w, notes
    if op[0] == "uniform":           # every leaf once in time, then every leaf once in space
        w = view.copy()
        for ax in (0, 1):
            for r in list(w.leaves):
                w.bisect(r, ax)
        return w, notes
    if op[0] == "uniform_space":
        w = view.copy()
        for r in list(w.leaves):
            w.bisect(r, 1)
        return w, notes
    raise ValueError(op)


def real_apply(mesh, op):
    if op[0] == "axis":
        mesh.refine_axis(leaf_by_rect(mesh, op[1]), op[2])
    elif op[0] == "refine":
        mesh.refine(leaf_by_rect(mesh, op[1]))
    elif op[0] == "uniform":
        mesh.uniform_refine()
    elif op[0] == "uniform_space":
        mesh.uniform_refine_space()
    else:
        raise ValueError(op)


class Run:
    """A real mesh and the reference view, advanced in lock-step.  The reference never looks at the real one."""

    def __init__(self, init):
        self.init = init
        self.mesh = init.build()
        self.view = init.view()
        self.history = []
        self.broken = False

    def replay(self, ops, check=False):
        out = []
        for op in ops:
            out = self.apply(op, check=check)
            if self.broken:
                break
        return out

    def apply(self, op, check=True):
        """Apply `op` to both; returns list of (clause, detail)."""
        self.history.append(op)
        if check:
            expected, notes = reference_apply(self.view, op)
        else:
            expected, notes = reference_apply_fast(self.view, op), []
        bad = [("reference-agreement", n) for n in notes]
        try:
            with contextlib.redirect_stdout(io.StringIO()):
                real_apply(self.mesh, op)
        except (Exception, RecursionError) as e:
            self.broken = True
            tn, fn, text, ln = describe_exception(e)
            bad.append(("no-raise", "{} raised {} in {} at `{}` (mesh.py:{})".format(op_short(op), tn, fn, text, ln)))
            return bad
        self.view = expected
        if check:
            bad.extend(well_formed(self.mesh, self.init, expected))
            if bad:
                self.broken = True
        return bad


def reference_apply_fast(view, op):
    if op[0] == "axis":
        return closure_refine(view, op[1], op[2])
    return reference_apply(view, op)[0]


def history_json(ops):
    return [op_json(o) for o in ops]


def history_short(ops):
    return " ".join(op_short(o) for o in ops)


def replay(spec):
    """Re-run a recorded case against the real code and return {'clauses': [...], 'details': [...]}.
    `spec` is the JSON-able dict stored in a failure record (see `_failure`)."""
    kind = spec.get("kind", "history")
    if kind == "history":
        init = Init.from_spec(spec["init"])
        run = Run(init)
        ops = [op_parse(o) for o in spec["ops"]]
        bad = run.replay(ops[:-1], check=False) if ops else []
        if not run.broken and ops:
            bad = run.apply(ops[-1], check=True)
        elif not ops:
            bad = well_formed(run.mesh, init, run.view)
        return dict(clauses=sorted({c for c, _ in bad}), details=[list(b) for b in bad[:10]])
    if kind == "dorfler":
        bad = dorfler_case(spec)
        return dict(clauses=sorted({c for c, _ in bad}), details=[list(b) for b in bad[:10]])
    if kind == "grading":
        res = grading_case(spec)
        return dict(clauses=sorted({c for c, _ in res["bad"]}), details=[list(b) for b in res["bad"][:10]],
                    status=res["status"])
    raise ValueError(kind)


REPLAY_TEMPLATE = """\
# replay of a bounded-explorer finding; run with the repository first and /verif second on sys.path
import json
import src.mesh
from bounded import mesh_explorer as mx
spec = json.loads({spec!r})
observed = mx.replay(spec)
violated = {clause!r} in observed['clauses']
"""


def make_replay_code(spec, clause):
    return REPLAY_TEMPLATE.format(spec=json.dumps(spec), clause=clause)


def confirm(spec, clause):
    """Run the replay snippet in-process; True iff it sets violated (raising counts as a violation)."""
    code = make_replay_code(spec, clause)
    ns = {}
    try:
        with contextlib.redirect_stdout(io.StringIO()):
            exec(compile(code, "<replay>", "exec"), ns)
    except BaseException:
        return code, True
    return code, bool(ns.get("violated"))


#@@PART2@@
