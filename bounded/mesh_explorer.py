"""Bounded exhaustive explorer of the real space-time mesh (`src/mesh.py`), in lock-step with the
independent reference model of `bounded/_mesh_ref.py` (which never touches the repository code).

Used by the check drivers of C02, C10, C06, C19 through `run(chk, prop, tier, seed)`.

 * real meshes are driven with `fractions.Fraction` coordinates, so all geometry is exact;
 * a state is its canonical leaf set (frozenset of (t0,t1,x0,x1)); an operation is
   ('axis', rect, ax) == mesh.refine_axis(<leaf with that rectangle>, ax); histories are replayable;
 * after every operation the executable class invariant `well_formed` is evaluated on the REAL object and
   the new view is compared with the reference closure (`minimal`).

Debug CLI:  cd /verif && PYTHONPATH=/verif:/repo .venv/bin/python -m bounded.mesh_explorer C02 quick
"""
import contextlib
import io
import itertools
import json
import linecache
import math
import multiprocessing
import os
import random
import signal
import sys
import time
import traceback
from fractions import Fraction

from vlib.core import DISCHARGED, FAILED, UNDECIDED, REPO, Ob

# The repository under verification must come FIRST on sys.path (it may be a mutated scratch copy).  If a
# replay wrapper already imported src.mesh from its own sys.path[0] we use that module.
if "src.mesh" not in sys.modules:
    if not sys.path or sys.path[0] != REPO:
        sys.path.insert(0, REPO)
import src.mesh as RM  # noqa: E402  (the real code)

from bounded import _mesh_ref as ref  # noqa: E402
from bounded._mesh_ref import View, closure_fixpoint, closure_refine, geo_nbrs, halves  # noqa: E402

F = Fraction
NPROC = min(16, os.cpu_count() or 1)
sys.setrecursionlimit(max(sys.getrecursionlimit(), 3000))


# =====================================================================================================
# 1. initial meshes (families) and building the real mesh
# =====================================================================================================
class Init:
    """A named initial mesh: tensor grid of exact coordinates, open or glued."""

    def __init__(self, name, time, space, glued):
        self.name = name
        self.time = [F(t) for t in time]
        self.space = [F(x) for x in space]
        self.glued = bool(glued)
        den = 1
        for q in self.time + self.space:
            den = den * q.denominator // math.gcd(den, q.denominator)
        self.den = den

    def build(self):
        glue = self.glued
        if self.name.endswith("-npflag"):
            # the closed flag as callers produce it (MeshParametrized hands over gamma.closed, which is a numpy bool when it comes from
            # a comparison such as np.all(v[0] == v[-1])): truthy / falsy, but not the object True / False
            import numpy as _np
            glue = _np.bool_(self.glued)
        return RM.Mesh(glue_space=glue, initial_space_mesh=list(self.space),
                       initial_time_mesh=list(self.time))

    def view(self):
        return View.initial(self.glued, self.space, self.time)

    def spec(self):
        return dict(name=self.name, glued=self.glued, time=[str(t) for t in self.time],
                    space=[str(x) for x in self.space])

    @classmethod
    def from_spec(cls, d):
        return cls(d["name"], d["time"], d["space"], d["glued"])


def _grid(n):
    return [F(i, n) for i in range(n + 1)]


def make_families():
    fams = {}
    for nt, nx in ((1, 1), (1, 2), (2, 1), (2, 2), (3, 1)):
        for glued in (False, True):
            name = "{}x{}-{}".format(nt, nx, "glued" if glued else "open")
            fams[name] = Init(name, _grid(nt), _grid(nx), glued)
    fams["uneven-glued"] = Init("uneven-glued", [0, F(1, 3), 1], [0, F(1, 4), 1], True)
    fams["1x2-glued-npflag"] = Init("1x2-glued-npflag", _grid(1), _grid(2), True)
    fams["2x1-open-npflag"] = Init("2x1-open-npflag", _grid(2), _grid(1), False)
    return fams


FAMILIES = make_families()
# initial grids whose neighbouring roots differ strongly in width (ratio 4 and 5; the conformity closure then bisects a root that is
# NARROWER than the element that asked for it): used by the grading histories only
GRADING_FAMILIES = dict(FAMILIES)
GRADING_FAMILIES["ratio4-glued"] = Init("ratio4-glued", [0, 1], [0, 1, 5], True)
GRADING_FAMILIES["ratio5-open"] = Init("ratio5-open", [0, 1], [0, 1, 6], False)
GRADING_FAMILIES["ratio4-two-slabs"] = Init("ratio4-two-slabs", [0, F(1, 2), 1], [0, 4, 5], True)
SMALL_FAMILIES = ("1x1-open", "1x1-glued", "1x2-open", "1x2-glued", "2x1-open", "2x1-glued")


def bfs_depths(tier):
    """quick: depth 4 everywhere (6.6e4 checked operations, ~10 s).  thorough: 6 on the 1-/2-root families, 5 on the others (about 1.2e6
    checked operations, ~5 min on 16 cores; measured: depth 7 on 1x1 adds ~9e5 operations / 200 s)."""
    if tier == "quick":
        return {n: 4 for n in FAMILIES}
    return {n: (6 if n in SMALL_FAMILIES else 5) for n in FAMILIES}


# =====================================================================================================
# 2. looking at the real object
# =====================================================================================================
def elem_rect(e):
    """Rectangle of a real element, read from its vertex objects (v0 = (t0,x0), v2 = (t1,x1))."""
    v = e.vertices
    return (v[0].t, v[2].t, v[0].x, v[2].x)


def created_elements(mesh):
    out, stack = [], list(reversed(mesh.roots))
    while stack:
        e = stack.pop()
        out.append(e)
        if e.children:
            stack.extend(reversed(list(e.children)))
    return out


def real_leaves(mesh):
    """rect -> levels of the real leaf collection (None if two leaves have the same rectangle)."""
    d = {}
    for e in mesh.leaf_elements:
        r = elem_rect(e)
        if r in d:
            return None
        d[r] = tuple(e.levels)
    return d


def leaf_by_rect(mesh, rect):
    for e in mesh.leaf_elements:
        if elem_rect(e) == rect:
            return e
    raise KeyError("no leaf with rectangle {}".format(rect_str(rect)))


def rect_str(r):
    return "[{},{}]x[{},{}]".format(*r)


def rect_json(r):
    return [str(c) for c in r]


def rect_parse(l):
    return tuple(F(c) for c in l)


def view_json(leaves):
    return sorted("{}:{}".format(rect_str(r), tuple(lv)) for r, lv in leaves.items())


# ---- the class invariant ---------------------------------------------------------------------------
C02_CLAUSES = ("no-raise", "tiling", "levels-dyadic", "leaf-bookkeeping", "glob-idx-unique", "vertex-unique",
               "edge-elem", "one-irregular", "minimal", "reference-agreement")
C10_CLAUSES = ("no-raise", "nbrs-no-raise", "nbrs-exact", "nbrs-symmetric", "nbrs-boundary", "nbr-edge-symmetric")


def _geo_view(init, leaves):
    return View(leaves, init.glued, init.time[0], init.time[-1], init.space[0], init.space[-1])


def well_formed(mesh, init, expected=None, exact=True):
    """Evaluate the class invariant on the real object.  Returns a list of (clause, detail-string); empty
    means well formed.  `expected` (a reference View) adds the comparison with the reference (`minimal`).
    `exact=False` (float coordinates) skips the clauses that need exact arithmetic/geometry."""
    bad = []

    def fail(clause, msg):
        if len(bad) < 40:
            bad.append((clause, msg))

    try:
        created = created_elements(mesh)
    except Exception as e:  # pragma: no cover  (broken tree)
        return [("leaf-bookkeeping", "tree walk raised {!r}".format(e))]
    leaves = list(mesh.leaf_elements)
    leaf_set = set(leaves)

    # -- leaf-bookkeeping
    childless = {e for e in created if not e.children}
    if leaf_set != childless or len(leaves) != len(leaf_set):
        fail("leaf-bookkeeping", "leaf_elements has {} entries, {} childless created elements, sym.diff {}".format(
            len(leaves), len(childless), [repr(e) for e in list(leaf_set ^ childless)[:4]]))

    # -- glob-idx-unique
    try:
        idxs = [e.glob_idx for e in created]
        if len(set(idxs)) != len(idxs) or any(not (0 <= i < mesh.N_elements) for i in idxs) \
                or mesh.N_elements != len(created):
            fail("glob-idx-unique", "glob_idx {} with N_elements={} created={}".format(
                sorted(idxs)[:12], mesh.N_elements, len(created)))
    except AttributeError as e:
        fail("glob-idx-unique", "element without glob_idx: {!r}".format(e))

    # -- vertex-unique
    seen = {}
    for i, v in enumerate(mesh.vertices):
        if v.idx != i:
            fail("vertex-unique", "vertices[{}].idx == {}".format(i, v.idx))
        if (v.t, v.x) in seen:
            fail("vertex-unique", "vertices {} and {} share coordinates ({},{})".format(seen[(v.t, v.x)], i, v.t, v.x))
        seen[(v.t, v.x)] = i
    nv = len(mesh.vertices)
    for e in leaves:
        for v in e.vertices:
            if not (0 <= v.idx < nv) or mesh.vertices[v.idx] is not v:
                fail("vertex-unique", "vertex {} of leaf {} is not mesh.vertices[{}]".format(v, e, v.idx))

    # -- edge-elem (+ the orientation asserts of Element.__init__ re-evaluated)
    for e in leaves:
        ed = e.edges
        if len(ed) != 4:
            fail("edge-elem", "{} has {} edges".format(e, len(ed)))
            continue
        for k in range(4):
            if ed[k].elem is not e:
                fail("edge-elem", "edge {} of leaf {} has elem {}".format(k, e, ed[k].elem))
            if ed[k].children:
                fail("edge-elem", "edge {} of leaf {} is bisected".format(k, e))
            if ed[k - 1].vertices[1] is not ed[k].vertices[0]:
                fail("edge-elem", "edges {} and {} of {} do not chain".format((k - 1) % 4, k, e))
            if e.vertices[k] is not ed[k].vertices[0]:
                fail("edge-elem", "vertices[{}] of {} is not the start of edge {}".format(k, e, k))
        v = e.vertices
        if not (v[0].t == v[1].t and v[1].x == v[2].x and v[2].t == v[3].t and v[3].x == v[0].x
                and v[0].t < v[2].t and v[0].x < v[1].x):
            fail("edge-elem", "orientation of {} broken: {}".format(e, v))
        r = elem_rect(e)
        if (tuple(e.time_interval), tuple(e.space_interval)) != ((r[0], r[1]), (r[2], r[3])) \
                or e.h_t != r[1] - r[0] or e.h_x != r[3] - r[2]:
            fail("edge-elem", "cached intervals/h of {} disagree with its vertices".format(e))

    # -- levels-dyadic (whole tree)
    for e in created:
        if e.parent is None:
            if tuple(e.levels) != (0, 0):
                fail("levels-dyadic", "root {} has levels {}".format(e, e.levels))
        if e.children:
            if len(e.children) != 2:
                fail("levels-dyadic", "{} has {} children".format(e, len(e.children)))
                continue
            lv = tuple(e.levels)
            clv = tuple(e.children[0].levels)
            ax = 0 if clv == (lv[0] + 1, lv[1]) else 1 if clv == (lv[0], lv[1] + 1) else None
            for c in e.children:
                if c.parent is not e:
                    fail("levels-dyadic", "child {} of {} has parent {}".format(c, e, c.parent))
                if ax is None or tuple(c.levels) != clv:
                    fail("levels-dyadic", "children levels {} of parent levels {}".format(
                        [c.levels for c in e.children], lv))
            if ax is not None and (elem_rect(e.children[0]), elem_rect(e.children[1])) != halves(elem_rect(e), ax):
                fail("levels-dyadic", "children of {} are not its halves in axis {}: {}".format(e, ax, e.children))
    if exact:
        for e in leaves:
            root = e
            depth = 0
            while root.parent is not None and depth < 10000:
                root, depth = root.parent, depth + 1
            if depth != e.levels[0] + e.levels[1]:
                fail("levels-dyadic", "{} levels {} but parent chain of length {}".format(e, e.levels, depth))
            rr, r = elem_rect(root), elem_rect(e)
            ht, hx = (rr[1] - rr[0]) / 2 ** e.levels[0], (rr[3] - rr[2]) / 2 ** e.levels[1]
            ok = e.h_t == ht and e.h_x == hx and ref.contains(rr, r)
            if ok:
                kt, kx = (r[0] - rr[0]) / ht, (r[2] - rr[2]) / hx
                ok = kt.denominator == 1 and kx.denominator == 1
            if not ok or root not in mesh.roots:
                fail("levels-dyadic", "{} levels {} is not that dyadic descendant of root {}".format(e, e.levels, root))

    # -- tiling
    rl = real_leaves(mesh)
    tiling_ok = True
    if rl is None:
        fail("tiling", "two leaves have the same rectangle")
        tiling_ok = False
        rl = {elem_rect(e): tuple(e.levels) for e in leaves}
    if exact:
        cyl = (init.time[0], init.time[-1], init.space[0], init.space[-1])
        tot = sum((ref.area(r) for r in rl), F(0))
        if tot != ref.area(cyl) or any(not ref.contains(cyl, r) for r in rl):
            fail("tiling", "leaf area {} vs cylinder area {}".format(tot, ref.area(cyl)))
            tiling_ok = False
        gv0 = _geo_view(init, rl).share_cache(expected)
        pair = ref.overlapping_pair(gv0)
        if pair is not None:
            fail("tiling", "leaves {} and {} overlap".format(rect_str(pair[0]), rect_str(pair[1])))
            tiling_ok = False
    if expected is not None:
        if set(rl) != set(expected.leaves):
            extra = sorted(set(rl) - set(expected.leaves))[:4]
            missing = sorted(set(expected.leaves) - set(rl))[:4]
            fail("minimal", "real view != reference closure; real-only {} reference-only {}".format(
                [rect_str(r) for r in extra], [rect_str(r) for r in missing]))
        else:
            for r, lv in rl.items():
                if tuple(expected.leaves[r]) != lv:
                    fail("levels-dyadic", "leaf {} has levels {} but reference {}".format(
                        rect_str(r), lv, expected.leaves[r]))

    # -- neighbours (C10) and 1-irregularity
    gv = gv0 if (exact and tiling_ok) else None
    nb = {}
    for e in leaves:
        for k in range(4):
            edge = e.edges[k]
            try:
                ns = edge.neighbour_elements()
            except AssertionError:
                fail("nbrs-no-raise", "neighbour_elements() of edge {} of {} raised AssertionError".format(k, e))
                ns = None
            except Exception as ex:
                fail("nbrs-no-raise", "neighbour_elements() of edge {} of {} raised {!r}".format(k, e, ex))
                ns = None
            if isinstance(ns, list):
                # the caller owns what it gets (e.g. `found = edge.neighbour_elements(); found += ...`): the answer is copied and
                # the returned list object is then extended; no later answer, of this or any other edge or mesh, may change
                ret, ns = ns, list(ns)
                ret.append(e)
            nb[(e, k)] = ns
            if ns is None:
                continue
            if len(ns) > 2 or any(n is None for n in ns) or any(n not in leaf_set for n in ns if n is not None) \
                    or len(set(map(id, ns))) != len(ns):
                fail("nbrs-exact", "edge {} of {} reports {}".format(k, e, ns))
                continue
            for n in ns:
                if abs(n.levels[0] - e.levels[0]) > 1 or abs(n.levels[1] - e.levels[1]) > 1:
                    fail("one-irregular", "{} levels {} has neighbour {} levels {} across edge {}".format(
                        e, e.levels, n, n.levels, k))
            if edge.nbr_edge is not None and edge.nbr_edge.nbr_edge is not edge:
                fail("nbr-edge-symmetric", "edge {} of {}: nbr_edge.nbr_edge is not the edge".format(k, e))
            if gv is not None:
                r = elem_rect(e)
                want = geo_nbrs(gv, r, k)
                got = {elem_rect(n) for n in ns}
                if got != want:
                    fail("nbrs-exact", "{} side {}: reported {} geometric {}".format(
                        rect_str(r), ref.SIDE_NAMES[k], sorted(map(rect_str, got)), sorted(map(rect_str, want))))
                outer, seam = ref.on_outer_boundary(gv, r, k), ref.on_seam(gv, r, k)
                if outer and (not edge.on_boundary or ns or edge.glued):
                    fail("nbrs-boundary", "{} side {} lies on the boundary: on_boundary={} glued={} nbrs={}".format(
                        rect_str(r), ref.SIDE_NAMES[k], edge.on_boundary, edge.glued, ns))
                if not outer and not ns:
                    fail("nbrs-boundary", "{} side {} is interior/seam but has no neighbour".format(
                        rect_str(r), ref.SIDE_NAMES[k]))
                if seam != bool(edge.glued) or (not outer and not seam and edge.on_boundary):
                    fail("nbrs-boundary", "{} side {}: flags on_boundary={} glued={} (outer={}, seam={})".format(
                        rect_str(r), ref.SIDE_NAMES[k], edge.on_boundary, edge.glued, outer, seam))
    for (e, k), ns in nb.items():
        for n in ns or ():
            if n is None or n not in leaf_set:
                continue
            back = nb.get((n, ref.OPPOSITE[k]))
            if back is not None and not any(b is e for b in back):
                fail("nbrs-symmetric", "{} in nbrs({}, {}) but not conversely".format(n, e, ref.SIDE_NAMES[k]))
    return bad


# =====================================================================================================
# 3. lock-step execution of histories
# =====================================================================================================
def op_json(op):
    if op[0] == "axis":
        return ["axis", rect_json(op[1]), op[2]]
    if op[0] == "refine":
        return ["refine", rect_json(op[1])]
    if op[0] == "dorfler":
        return ["dorfler", op[1], [list(e) if isinstance(e, (tuple, list)) else e for e in op[2]], op[3]]
    return [op[0]]


def op_parse(l):
    if l[0] == "axis":
        return ("axis", rect_parse(l[1]), int(l[2]))
    if l[0] == "refine":
        return ("refine", rect_parse(l[1]))
    if l[0] == "dorfler":
        return ("dorfler", l[1], tuple(tuple(e) if isinstance(e, list) else e for e in l[2]), float(l[3]))
    return (l[0],)


def op_short(op):
    if op[0] == "axis":
        return "{}{}".format("T" if op[2] == 0 else "X", rect_str(op[1]))
    if op[0] == "refine":
        return "TX" + rect_str(op[1])
    if op[0] == "dorfler":
        return "dorfler_{}(theta={})".format(op[1], op[3])
    return op[0]


REAL_NAME = {"axis": "refine_axis", "refine": "refine", "uniform": "uniform_refine",
             "uniform_space": "uniform_refine_space", "dorfler": "dorfler_refine"}


def no_raise_clause(op):
    return "no-raise" if op[0] == "axis" else REAL_NAME[op[0]] + "/no-raise"


def describe_exception(e):
    """(type name, function in src/mesh.py, source line text) of the innermost repository frame."""
    func, text, lineno = "?", "?", 0
    for fs in traceback.extract_tb(e.__traceback__):
        if fs.filename.endswith(os.path.join("src", "mesh.py")):
            func, lineno = fs.name, fs.lineno
            text = (fs.line or linecache.getline(fs.filename, fs.lineno)).strip()
    return type(e).__name__, func, text, lineno


def reference_apply(view, op):
    """Reference semantics of an operation.  Returns (new view, list of notes about the reference itself)."""
    notes = []
    if op[0] == "axis":
        new = closure_refine(view, op[1], op[2])
        fix = closure_fixpoint(view, op[1], op[2])
        if new.leaves != fix.leaves:
            notes.append("recursive closure and least fixed point differ for {} on {}".format(
                op_short(op), view_json(view.leaves)))
        return new, notes
    if op[0] == "refine":            # time bisection, then space bisection of both time halves
        w = closure_refine(view, op[1], 0)
        for h in halves(op[1], 0):
            w = ref.ensure_bisected(w, h, 1)
        return w, notes
    if op[0] == "uniform":           # every leaf once in time, then every leaf once in space
        w = view.copy()
        for ax in (0, 1):
            for r in list(w.leaves):
                w.bisect(r, ax)
        return w, notes
    if op[0] == "uniform_space":
        w = view.copy()
        for r in list(w.leaves):
            w.bisect(r, 1)
        return w, notes
    if op[0] == "dorfler":           # first admissible tie-break; Run.apply selects among all of them
        return next(dorfler_expected_all(view, op)), notes
    raise ValueError(op)


def dorfler_expected_all(view, op):
    """Reference results of a marking step, one per admissible tie-break of the marking rule."""
    rects = sorted(view.leaves)
    cands = marking_candidates(_dorfler_entries(rects, op[1], op[2]), op[3], cap=10 ** 4)
    asc = _orders(view.leaves, random.Random(1))[0]
    for m in cands:
        yield dorfler_reference(view, op[1], m, asc)


def _dorfler_entries(rects, variant, eta_sorted):
    if variant == "isotropic":
        return [(eta_sorted[i], (rects[i], 0)) for i in range(len(rects))]
    return [(eta_sorted[i][ax], (rects[i], ax)) for i in range(len(rects)) for ax in (0, 1)]


def _dorfler_eta_for(mesh, variant, eta_sorted):
    """numpy indicator array in leaf_elements order from values aligned with the SORTED leaf rectangles."""
    import numpy as np
    elems = list(mesh.leaf_elements)
    pos = {r: i for i, r in enumerate(sorted(elem_rect(e) for e in elems))}
    idx = [pos[elem_rect(e)] for e in elems]
    if variant == "isotropic":
        return np.array([float(eta_sorted[i]) for i in idx], dtype=float)
    return np.array([[float(eta_sorted[i][0]), float(eta_sorted[i][1])] for i in idx], dtype=float).reshape(-1, 2)


def real_apply(mesh, op):
    if op[0] == "axis":
        mesh.refine_axis(leaf_by_rect(mesh, op[1]), op[2])
    elif op[0] == "refine":
        mesh.refine(leaf_by_rect(mesh, op[1]))
    elif op[0] == "uniform":
        mesh.uniform_refine()
    elif op[0] == "uniform_space":
        mesh.uniform_refine_space()
    elif op[0] == "dorfler":
        eta = _dorfler_eta_for(mesh, op[1], op[2])
        if op[1] == "isotropic":
            mesh.dorfler_refine_isotropic(eta, op[3])
        else:
            mesh.dorfler_refine_anisotropic(eta, op[3])
    else:
        raise ValueError(op)


class Run:
    """A real mesh and the reference view, advanced in lock-step.  The reference never looks at the real one."""

    def __init__(self, init):
        self.init = init
        self.mesh = init.build()
        self.view = init.view()
        self.history = []
        self.broken = False

    def replay(self, ops, check=False):
        out = []
        for op in ops:
            out = self.apply(op, check=check)
            if self.broken:
                break
        return out

    def apply(self, op, check=True):
        """Apply `op` to both; returns list of (clause, detail)."""
        self.history.append(op)
        if check:
            expected, notes = reference_apply(self.view, op)
        else:
            expected, notes = reference_apply_fast(self.view, op), []
        bad = [("reference-agreement", n) for n in notes]
        try:
            with contextlib.redirect_stdout(io.StringIO()):
                real_apply(self.mesh, op)
        except (Exception, RecursionError) as e:
            self.broken = True
            tn, fn, text, ln = describe_exception(e)
            bad.append((no_raise_clause(op), "{} raised {} in {} at `{}` (mesh.py:{})".format(op_short(op), tn, fn, text, ln)))
            return bad
        if op[0] == "dorfler":
            # any tie-break among equal indicators is admissible: follow the one the real code took
            rl = real_leaves(self.mesh)
            expected = next((e for e in dorfler_expected_all(self.view, op) if e.leaves == rl), expected)
        self.view = expected
        if check:
            bad.extend(well_formed(self.mesh, self.init, expected))
            if bad:
                self.broken = True
        return bad


def reference_apply_fast(view, op):
    if op[0] == "axis":
        return closure_refine(view, op[1], op[2])
    return reference_apply(view, op)[0]


def history_json(ops):
    return [op_json(o) for o in ops]


def history_short(ops):
    return " ".join(op_short(o) for o in ops)


def replay(spec):
    """Re-run a recorded case against the real code and return {'clauses': [...], 'details': [...]}.
    `spec` is the JSON-able dict stored in a failure record (see `_failure`)."""
    kind = spec.get("kind", "history")
    if kind == "history":
        init = Init.from_spec(spec["init"])
        run = Run(init)
        ops = [op_parse(o) for o in spec["ops"]]
        bad = run.replay(ops[:-1], check=False) if ops else []
        if not run.broken and ops:
            bad = run.apply(ops[-1], check=True)
        elif not ops:
            bad = well_formed(run.mesh, init, run.view)
        return dict(clauses=sorted({c for c, _ in bad}), details=[list(b) for b in bad[:10]])
    if kind == "dorfler":
        bad = dorfler_case(spec)
        return dict(clauses=sorted({c for c, _ in bad}), details=[list(b) for b in bad[:10]])
    if kind == "interleaved":
        bad = interleaved_case(spec)
        return dict(clauses=sorted({c for c, _ in bad}), details=[list(b) for b in bad[:10]])
    if kind == "grading":
        # process history: earlier refine_grading calls (other exponents, fresh copies of the same mesh) of the same process
        for ps in spec.get("prior", []):
            try:
                grading_case(dict(spec, sigma=ps, prior=[]))
            except BaseException:
                pass
        res = grading_case(spec)
        return dict(clauses=sorted({c for c, _ in res["bad"]}), details=[list(b) for b in res["bad"][:10]],
                    status=res["status"])
    raise ValueError(kind)


REPLAY_TEMPLATE = """\
# replay of a bounded-explorer finding; run with the repository first and /verif second on sys.path
import json
import src.mesh
from bounded import mesh_explorer as mx
spec = json.loads({spec!r})
observed = mx.replay(spec)
violated = {clause!r} in observed['clauses']
"""


def make_replay_code(spec, clause):
    return REPLAY_TEMPLATE.format(spec=json.dumps(spec), clause=clause)


def _confirm_child(code):
    ns = {}
    try:
        with contextlib.redirect_stdout(io.StringIO()):
            exec(compile(code, "<replay>", "exec"), ns)
    except BaseException:
        return True
    return bool(ns.get("violated"))


def confirm(spec, clause):
    """Run the replay snippet in a freshly forked child (module- or class-level state of the repository left behind by the
    exploration or by an earlier confirmation must not leak into it); True iff it sets violated (raising counts)."""
    code = make_replay_code(spec, clause)
    try:
        ctx = multiprocessing.get_context("fork")
        with ctx.Pool(1, maxtasksperchild=1) as p1:
            return code, bool(p1.apply_async(_confirm_child, (code,)).get(timeout=600))
    except Exception:
        return code, _confirm_child(code)


# =====================================================================================================
# 4. failure records
# =====================================================================================================
MAX_PER_CLAUSE = 5


def _failure(group, clause, spec, detail, length):
    return dict(group=group, clause=clause, spec=spec, detail=detail, length=length)


class Findings:
    """Per (group, clause): the few shortest distinct failing cases; per (group, clause): pass counters."""

    def __init__(self):
        self.fails = {}
        self.checked = {}

    def add_fail(self, f):
        lst = self.fails.setdefault((f["group"], f["clause"]), [])
        key = json.dumps(f["spec"], sort_keys=True)
        if any(json.dumps(g["spec"], sort_keys=True) == key for g in lst):
            return
        lst.append(f)
        lst.sort(key=lambda g: (g["length"], json.dumps(g["spec"], sort_keys=True)))
        del lst[MAX_PER_CLAUSE:]

    def merge_fails(self, fs):
        for f in fs:
            self.add_fail(f)

    def mark_checked(self, group, clauses, n=1):
        for c in clauses:
            self.checked[(group, c)] = self.checked.get((group, c), 0) + n

    def emit(self, chk, prop, clause_filter=None):
        """DISCHARGED ob per clean (group, clause); FAILED ob (confirmed by replay) per distinct failure."""
        n_failed = 0
        failing = set()
        # at most MAX_PER_CLAUSE reports per clause over all groups: shortest first, round-robin over groups
        by_clause = {}
        for (group, clause), lst in sorted(self.fails.items()):
            if clause_filter is None or clause_filter(clause):
                by_clause.setdefault(clause, []).append((group, list(lst)))
        selected = {}
        for clause, groups in by_clause.items():
            groups.sort(key=lambda g: (g[1][0]["length"], g[0]))
            picked, rnd = 0, 0
            while picked < MAX_PER_CLAUSE and any(len(l) > rnd for _, l in groups):
                for group, l in groups:
                    if len(l) > rnd and picked < MAX_PER_CLAUSE:
                        selected.setdefault((group, clause), []).append(l[rnd])
                        picked += 1
                rnd += 1
            for group, l in groups:
                failing.add((group, clause))
        for (group, clause), lst in sorted(selected.items()):
            for i, f in enumerate(lst):
                code, ok = confirm(f["spec"], clause)
                if not ok:
                    # seen during the exploration but not reproducible from its recorded history in a fresh process: never a
                    # violation, but not a pass either (state shared between calls that the recorded history does not capture?)
                    chk.notes.append("explorer: failure {}/{} not confirmed by replay: {}".format(group, clause, f["detail"][:300]))
                    chk.add(Ob("{}/bounded/{}/{}#unconfirmed{}".format(prop, group, clause, i + 1), UNDECIDED, kind="bounded",
                               backend="explorer", detail=dict(observed=f["detail"], spec=f["spec"],
                                                               reason="failure during exploration not reproduced by the replay of its history")))
                    continue
                failing.add((group, clause))
                n_failed += 1
                name = "{}/bounded/{}/{}".format(prop, group, clause) + ("" if i == 0 else "#{}".format(i + 1))
                det = dict(history=f["spec"].get("ops", f["spec"].get("idx_ops")), init=f["spec"].get("init", f["spec"].get("curve")),
                           observed=f["detail"], expected="clause `{}` holds".format(clause), spec=f["spec"],
                           all_failing_groups=sorted(g for g, _ in by_clause[clause]))
                chk.add(Ob(name, FAILED, kind="bounded", backend="explorer", detail=det,
                           replay={"code": code, "confirmed": True, "raises_is_violation": True}))
        for (group, clause), n in sorted(self.checked.items()):
            if clause_filter is not None and not clause_filter(clause):
                continue
            if (group, clause) in failing:
                continue
            chk.add(Ob("{}/bounded/{}/{}".format(prop, group, clause), DISCHARGED, kind="bounded",
                       backend="explorer", detail=dict(evaluations=n)))
        return n_failed


# =====================================================================================================
# 5. breadth-first exploration
# =====================================================================================================
def interleaved_case(spec):
    """Several meshes alive at once with interleaved life cycles.  spec['events'] is a list of ["build", k] (construct mesh k from
    spec['inits'][k]) and ["op", k, op] (apply op to mesh k); after every operation the affected mesh is checked against its own
    reference (full class invariant incl. unique element indices), at the end every mesh."""
    inits = [Init.from_spec(d) for d in spec["inits"]]
    runs, bad = {}, []
    for ev in spec["events"]:
        if ev[0] == "build":
            with contextlib.redirect_stdout(io.StringIO()):
                runs[ev[1]] = Run(inits[ev[1]])
        else:
            run = runs[ev[1]]
            if run.broken:
                continue
            for c, d in run.apply(op_parse(ev[2]), check=True):
                bad.append((c, "mesh {} ({}): {}".format(ev[1], inits[ev[1]].name, d)))
    for k, run in sorted(runs.items()):
        if not run.broken:
            for c, d in well_formed(run.mesh, run.init, run.view):
                bad.append((c, "mesh {} ({}) at the end: {}".format(k, inits[k].name, d)))
    return bad


def interleaved_specs(tier, seed):
    """deterministic schedules: the meshes are constructed in every order, a further (smaller / larger) mesh is constructed between
    the construction and the first bisection of another one, and the bisections alternate between the meshes"""
    rng = random.Random(4242 + seed)
    names = [("3x1-glued", "1x1-open", "2x1-glued"), ("2x2-open", "1x1-glued", "1x2-open"), ("1x1-open", "2x2-glued", "1x1-glued"),
             ("uneven-glued", "1x2-glued", "3x1-open")]
    if tier == "thorough":
        names += [("2x2-glued", "2x1-open", "1x1-open"), ("3x1-open", "1x2-open", "2x2-open"), ("1x2-glued", "1x1-open", "3x1-glued")]
    specs = []
    for trio in names:
        inits = [FAMILIES[n] for n in trio]
        for pattern in ("all-first", "late-third", "late-second"):
            views = {}
            events = []
            def build(k):
                events.append(["build", k])
                views[k] = inits[k].view()
            def op(k):
                rects = sorted(views[k].leaves)
                r = rects[rng.randrange(len(rects))]
                ax = rng.randrange(2)
                kind = rng.random()
                o = ("axis", r, ax) if kind < 0.8 else (("refine", r) if kind < 0.95 else ("uniform",))
                views[k] = reference_apply_fast(views[k], o)
                events.append(["op", k, op_json(o)])
            if pattern == "all-first":
                build(0), build(1), build(2)
                order = [0, 1, 2, 0, 2, 1, 0, 0, 1, 2]
            elif pattern == "late-third":
                build(0), build(1)
                op(1)
                build(2)
                order = [0, 2, 1, 0, 2, 0, 1, 2]
            else:
                build(0)
                build(1)
                order = [1, 1]
                for k in order:
                    op(k)
                build(2)
                order = [0, 2, 0, 1, 2, 0]
            for k in order:
                op(k)
            specs.append(dict(kind="interleaved", inits=[i.spec() for i in inits], events=events, pattern=pattern))
    return specs


def _deep_task(task):
    fam, target, depth = task
    init = FAMILIES[fam]
    run = Run(init)
    fails, nops = [], 0
    pt = (F(0), F(0)) if target == "corner" else (F(1, 3), F(1, 3))
    for k in range(depth):
        rects = [r for r in run.view.leaves if r[0] <= pt[0] <= r[1] and r[2] <= pt[1] <= r[3]]
        r = min(rects, key=lambda r: ((r[1] - r[0]) * (r[3] - r[2]), r))
        bad = run.apply(("refine", r), check=True)
        nops += 1
        if bad:
            spec = dict(kind="history", init=init.spec(), ops=history_json(run.history))
            for clause, detail in bad:
                fails.append(_failure("deep", clause, spec, detail, len(run.history)))
            break
    return nops, fails


def _interleaved_task(spec):
    try:
        bad = interleaved_case(spec)
    except BaseException as e:       # noqa
        bad = [(REAL_NAME["refine"] + "/no-raise", "interleaved schedule: {}: {}".format(type(e).__name__, e))]
    return spec, bad


def _scale(init, depth):
    return init.den * 2 ** (depth + 2)


def enc_rect(r, S):
    out = []
    for c in r:
        q = c * S
        assert q.denominator == 1
        out.append(q.numerator)
    return tuple(out)


def dec_rect(ir, S):
    return tuple(F(i, S) for i in ir)


def enc_hist(ops, S):
    return tuple(enc_rect(o[1], S) + (o[2],) for o in ops)


def dec_hist(h, S):
    return [("axis", dec_rect(o[:4], S), o[4]) for o in h]


def _real_replay(init, ops):
    mesh = init.build()
    for op in ops:
        real_apply(mesh, op)
    return mesh


def _expand_chunk(task):
    """Worker: expand every state of the chunk by every refine_axis(leaf, ax) (+ terminal compound ops)."""
    fam, S, hists, compound, own = task
    init = FAMILIES[fam]
    new, fails, evals = [], [], 0
    for h in hists:
        ops = dec_hist(h, S)
        view0 = init.view()
        for op in ops:
            view0 = closure_refine(view0, op[1], op[2])
        cand = [("axis", r, ax) for r in sorted(view0.leaves) for ax in (0, 1)]
        if compound:
            cand += [("refine", r) for r in sorted(view0.leaves)] + [("uniform",), ("uniform_space",)]
            # marking-driven bisection as a terminal operation (C02 quantifies over it): indicator families with ties / zeros
            nl = len(view0.leaves)
            if nl <= DORFLER_TERMINAL_MAX_LEAVES:
                rs = sorted(view0.leaves)
                inv_area = tuple(float(1 / ((r[1] - r[0]) * (r[3] - r[2]))) for r in rs)      # the finer the leaf, the larger its indicator
                cand += [("dorfler", "isotropic", inv_area, 0.9),
                         ("dorfler", "isotropic", tuple(nl - i for i in range(nl)), 0.9),
                         ("dorfler", "isotropic", tuple(i + 1 for i in range(nl)), 0.9),
                         ("dorfler", "isotropic", tuple(1 for _ in range(nl)), 0.5),
                         ("dorfler", "anisotropic", tuple((1, 1) for _ in range(nl)), 0.5),
                         ("dorfler", "anisotropic", tuple((3, 0) if i == 0 else (0, 0) for i in range(nl)), 0.5),
                         ("dorfler", "anisotropic", tuple((i % 3, (i + 1) % 2) for i in range(nl)), 0.7)]
        for op in cand:
            run = Run.__new__(Run)
            run.init, run.view, run.history, run.broken = init, view0, list(ops), False
            with contextlib.redirect_stdout(io.StringIO()):
                run.mesh = _real_replay(init, ops)
            bad = run.apply(op, check=True)
            evals += 1
            if bad:
                spec = dict(kind="history", init=init.spec(), ops=history_json(run.history))
                seen_c = set()
                for clause, detail in bad:
                    if clause not in seen_c:
                        seen_c.add(clause)
                        fails.append(_failure(fam, clause, spec, detail, len(run.history)))
            # a state is not expanded further if the operation raised or a clause of the property under check
            # failed; violations of clauses owned by another property do not stop the exploration
            if op[0] == "axis" and not any(_stops(c, own) for c, _ in bad):
                key = repr(sorted(enc_rect(r, S) for r in run.view.leaves))
                new.append((key, h + (enc_rect(op[1], S) + (op[2],),), len(run.view.leaves)))
    # keep the report small: at most MAX_PER_CLAUSE shortest per clause from this chunk
    fd = Findings()
    fd.merge_fails(fails)
    return fam, new, [f for lst in fd.fails.values() for f in lst], evals


DORFLER_TERMINAL_MAX_LEAVES = 6


def _stops(clause, own):
    return own is None or clause in own or clause.endswith("no-raise")


def explore_bfs(family_depths, depth=None, pool=None, compound=True, progress=None, own=None):
    """Breadth-first over ALL sequences of refine_axis(leaf, ax) up to the given depth per family, states
    de-duplicated by leaf set.  Returns dict family -> dict(evals, states, nontrivial, fails, reached)
    where reached = list of (encoded history, n_leaves, scale) of every distinct state.
    Call as explore_bfs({family: depth, ...}) or explore_bfs(family_name, depth).  `own` = clauses whose
    violation stops the expansion of a state (None: any violation stops it)."""
    if isinstance(family_depths, str):
        family_depths = {family_depths: depth}
    res = {}
    frontier = {}
    scale = {}
    for fam, d in family_depths.items():
        init = FAMILIES[fam]
        scale[fam] = _scale(init, d)
        key0 = repr(sorted(enc_rect(r, scale[fam]) for r in init.view().leaves))
        res[fam] = dict(evals=0, seen={key0}, fails=[], reached=[((), len(init.view()), scale[fam])], depth=d)
        frontier[fam] = [()]
    level = 0
    while any(frontier.values()):
        tasks = []
        for fam, fr in frontier.items():
            if not fr or level >= family_depths[fam]:
                frontier[fam] = []
                continue
            n = len(fr)
            chunk = max(1, min(200, n // (NPROC * 4) + 1))
            for i in range(0, n, chunk):
                tasks.append((fam, scale[fam], fr[i:i + chunk], compound, own))
        if not tasks:
            break
        it = pool.imap_unordered(_expand_chunk, tasks) if pool is not None else map(_expand_chunk, tasks)
        nxt = {fam: [] for fam in frontier}
        for fam, new, fails, evals in it:
            r = res[fam]
            r["evals"] += evals
            r["fails"].extend(fails)
            for key, h, n in new:
                if key not in r["seen"]:
                    r["seen"].add(key)
                    nxt[fam].append(h)
                    r["reached"].append((h, n, scale[fam]))
        frontier = nxt
        level += 1
        if progress:
            progress("bfs level {} done: {}".format(level, {f: len(v) for f, v in frontier.items() if v}))
    for fam, r in res.items():
        r["states"] = len(r["seen"])
        r["nontrivial"] = sum(1 for _, n, _ in r["reached"] if n > 1)
        del r["seen"]
    return res


# =====================================================================================================
# 6. C06: Doerfler marking
# =====================================================================================================
THETAS = (0.05, 0.3, 0.5, 0.7, 0.95)
TIE_CAP = 64


def marking_candidates(entries, theta, cap=TIE_CAP):
    """Independent statement of the marking rule.  `entries` = list of (value, tag).  Returns the list of all
    admissible marked tag-sets: shortest non-empty prefix of a descending ordering whose sum reaches
    theta^2 * total, for every tie-break among equal values (None if more than `cap` tie-breaks).
    Sums are exact rationals of the float inputs; a relative band of 1e-12 around the threshold accepts
    both outcomes where float accumulation could legitimately differ from exact arithmetic."""
    vals = sorted((F(float(v)) for v, _ in entries), reverse=True)
    total = sum(vals, F(0))
    thr = F(float(theta)) ** 2 * total
    eps = F(1, 10 ** 12)
    pref, ks = F(0), []
    for k in range(1, len(vals) + 1):
        prev, pref = pref, pref + vals[k - 1]
        if pref >= thr * (1 - eps) and (k == 1 or prev < thr * (1 + eps)):
            ks.append(k)
    out = []
    for k in ks:
        vk = vals[k - 1]
        greater = [tag for v, tag in entries if F(float(v)) > vk]
        equal = [tag for v, tag in entries if F(float(v)) == vk]
        need = k - len(greater)
        if math.comb(len(equal), need) + len(out) > cap:
            return None
        for combo in itertools.combinations(equal, need):
            out.append(frozenset(greater) | frozenset(combo))
    return out


def dorfler_reference(view0, variant, marked, order):
    """Reference result: closure of the marked time bisections, then closure of the marked space bisections
    applied to the time halves.  `marked` = set of (rect, ax); for the isotropic variant ax is always 0 and
    every marked element is also refined in space.  `order` permutes the processing order (the result must
    not depend on it)."""
    w = view0
    mt = order([r for r, ax in marked if ax == 0])
    for r in mt:
        w = ref.ensure_bisected(w, r, 0)
    if variant == "isotropic":
        targets = [h for r in mt for h in halves(r, 0)]
    else:
        targets = []
        for r in order([r for r, ax in marked if ax == 1]):
            targets.extend([r] if r in w.leaves else list(halves(r, 0)))
    for r in order(targets):
        w = ref.ensure_bisected(w, r, 1)
    return w


def _orders(levels, rng):
    def asc(lst):
        return sorted(lst, key=lambda r: (sum(levels.get(r, (9, 9))), r))

    def desc(lst):
        return list(reversed(asc(lst)))

    def shuffled(lst):
        lst = sorted(lst)
        rng.shuffle(lst)
        return lst
    return asc, desc, shuffled


def dorfler_case(spec, pre=None):
    """One Doerfler call on the mesh reached by spec['ops'].  spec['eta'] is aligned with the SORTED leaf
    rectangles (so it does not depend on internal orderings).  Returns list of (clause, detail)."""
    init = Init.from_spec(spec["init"])
    variant, theta = spec["variant"], float(spec["theta"])
    ops = [op_parse(o) for o in spec["ops"]]
    if pre is None:
        view0 = init.view()
        for op in ops:
            view0 = reference_apply_fast(view0, op)
    else:
        view0 = pre
    with contextlib.redirect_stdout(io.StringIO()):
        mesh = _real_replay(init, ops)
    rects = sorted(view0.leaves)
    if sorted(elem_rect(e) for e in mesh.leaf_elements) != rects:
        return [("precondition", "real leaves differ from the reference before the call")]
    eta = _dorfler_eta_for(mesh, variant, spec["eta"])
    entries = _dorfler_entries(rects, variant, spec["eta"])
    cands = marking_candidates(entries, theta)
    if cands is None:
        return [("skipped-too-many-ties", "")]
    bad = []
    try:
        with contextlib.redirect_stdout(io.StringIO()):
            if variant == "isotropic":
                mesh.dorfler_refine_isotropic(eta, theta)
            else:
                mesh.dorfler_refine_anisotropic(eta, theta)
    except (Exception, RecursionError) as e:
        tn, fn, text, ln = describe_exception(e)
        return [("no-raise", "dorfler_refine_{} raised {} in {} at `{}` (mesh.py:{})".format(variant, tn, fn, text, ln))]
    new = real_leaves(mesh)
    if new is None:
        new = {elem_rect(e): tuple(e.levels) for e in mesh.leaf_elements}
        bad.append(("wf/tiling", "two leaves share a rectangle"))
    rng = random.Random(1)
    asc, desc, shuffled = _orders(view0.leaves, rng)
    match, first_exp = None, None
    for m in cands:
        exp = dorfler_reference(view0, variant, m, asc)
        if first_exp is None:
            first_exp = (m, exp)
        if exp.leaves == new:
            match = (m, exp)
            break
    if match is None:
        m, exp = first_exp
        bad.append(("result-is-closure", "marked (any of {} tie-breaks, e.g. {}): real-only {} reference-only {}".format(
            len(cands), sorted((rect_str(r), ax) for r, ax in m),
            sorted(rect_str(r) for r in set(new) - set(exp.leaves))[:4],
            sorted(rect_str(r) for r in set(exp.leaves) - set(new))[:4])))
    # (d) every marked element is refined in the marked direction(s)
    nv = _geo_view(init, new)

    def refined_ok(m):
        for r, ax in m:
            axes = (0, 1) if variant == "isotropic" else (ax,)
            for a in axes:
                if r in new or ref.crossing_leaves(nv, r, a):
                    return (r, a)
        return None
    miss = refined_ok(match[0]) if match else None
    if match is None:
        misses = [refined_ok(m) for m in cands]
        miss = misses[0] if all(x is not None for x in misses) else None
    if miss is not None:
        bad.append(("marked-refined", "marked {} is not bisected in axis {}".format(rect_str(miss[0]), miss[1])))
    # order independence of the reference itself
    if match is not None:
        for od in (desc, shuffled):
            alt = dorfler_reference(view0, variant, match[0], od)
            if alt.leaves != match[1].leaves:
                bad.append(("reference-order-independent", "reference closure depends on the processing order"))
                break
    for clause, detail in well_formed(mesh, init, match[1] if match else None):
        bad.append(("wf/" + clause, detail))
    return bad


def eta_designs(n, variant, rng, perm_limit):
    """Indicator vectors (aligned with sorted leaf rectangles) inducing all / many rank orders, plus ties,
    zeros and a dominant entry.  Integer-valued floats, so all sums are exact."""
    m = n if variant == "isotropic" else 2 * n
    base = list(range(1, m + 1))
    vecs = []
    if math.factorial(m) <= perm_limit:
        vecs.extend(itertools.permutations(base))
    else:
        seen = set()
        while len(seen) < perm_limit:
            p = base[:]
            rng.shuffle(p)
            seen.add(tuple(p))
        vecs.extend(sorted(seen))
    special = [[1] * m if math.comb(m, m // 2) <= TIE_CAP else [1 + (i % 3) for i in range(m)],   # ties
               [0] * m,                                                                           # all zero
               [0] * (m - 1) + [5],                                                               # one nonzero
               [1000 if i == rng.randrange(m) else 1 + i for i in range(m)]]                       # dominant
    d = [float(2 ** i) for i in range(m)]
    rng.shuffle(d)
    special.append(d)                                                                             # geometric
    z = [0 if i % 2 else i + 1 for i in range(m)]
    rng.shuffle(z)
    special.append(z)                                                                             # half zeros
    t = [3, 3] + [1 + i for i in range(m - 2)] if m >= 2 else [3]
    rng.shuffle(t)
    special.append(t)                                                                             # a tied pair
    if variant == "anisotropic":
        special.append([v for i in range(n) for v in (i + 1, 0)])                                 # time only
        special.append([v for i in range(n) for v in (0, i + 1)])                                 # space only
        j = rng.randrange(n)
        special.append([v for i in range(n) for v in ((100, 90) if i == j else (1 + i, 2 + i))])  # both axes
    vecs.extend(tuple(s) for s in special)
    # magnitudes: the marking rule is invariant under scaling by a power of two (exact in floating point); squared indicators of the
    # size 1e-12 .. 1e-18 occur late in an adaptive run, very large ones with unscaled data
    scaled = []
    for sc in (2.0 ** -40, 2.0 ** -60, 2.0 ** 40):
        for s_ in (special[3], special[4], special[6], tuple(base)):
            scaled.append(tuple(float(v) * sc for v in s_))
    vecs.extend(scaled)
    if variant == "anisotropic":
        vecs = [tuple((v[2 * i], v[2 * i + 1]) for i in range(n)) for v in vecs]
    return vecs


def _dorfler_chunk(task):
    """Worker: all Doerfler cases of a list of states."""
    fam, S, hists, perm_limit, seed = task
    init = FAMILIES[fam]
    fails, evals, skipped, marked_sets = [], 0, 0, set()
    for h in hists:
        ops = dec_hist(h, S)
        view0 = init.view()
        for op in ops:
            view0 = closure_refine(view0, op[1], op[2])
        n = len(view0.leaves)
        rng = random.Random("{}-{}-{}".format(seed, fam, h))
        rects = sorted(view0.leaves)
        for variant in ("isotropic", "anisotropic"):
            done = set()
            for eta in eta_designs(n, variant, rng, perm_limit):
                for theta in THETAS:
                    # de-duplicate executions that only differ in the order of the unmarked tail
                    if variant == "isotropic":
                        ent = [(eta[i], i) for i in range(n)]
                    else:
                        ent = [(eta[i][ax], (i, ax)) for i in range(n) for ax in (0, 1)]
                    ent.sort(key=lambda e: -e[0])
                    tot, acc, k = sum(e[0] for e in ent) * theta ** 2, 0.0, 0
                    for k, e in enumerate(ent, 1):
                        acc += e[0]
                        if acc >= tot:
                            break
                    # marked prefix (ordered, with values) + every later entry tied with the last marked value
                    sig = tuple(ent[:k]) + tuple(e for e in ent[k:] if e[0] == ent[k - 1][0])
                    if sig in done:
                        continue
                    done.add(sig)
                    spec = dict(kind="dorfler", init=init.spec(), ops=history_json(ops), variant=variant,
                                eta=[list(e) if isinstance(e, tuple) else e for e in eta], theta=theta)
                    bad = dorfler_case(spec, pre=view0)
                    if bad and bad[0][0] == "skipped-too-many-ties":
                        skipped += 1
                        continue
                    evals += 1
                    for clause, detail in bad:
                        fails.append(_failure(variant, clause, spec, detail, len(ops) + 1))
    fd = Findings()
    fd.merge_fails(fails)
    return [f for lst in fd.fails.values() for f in lst], evals, skipped


DORFLER_CLAUSES = ("no-raise", "result-is-closure", "marked-refined", "reference-order-independent", "wf/tiling",
                   "wf/levels-dyadic", "wf/leaf-bookkeeping", "wf/glob-idx-unique", "wf/vertex-unique",
                   "wf/edge-elem", "wf/one-irregular", "wf/nbrs-exact", "wf/nbrs-no-raise", "wf/nbrs-symmetric",
                   "wf/nbrs-boundary", "wf/nbr-edge-symmetric", "wf/minimal")


# =====================================================================================================
# 7. C19: grading
# =====================================================================================================
class _Abort(BaseException):
    pass


GRADING_CLAUSES = ("refine_grading/assert-not-children-space-loop", "refine_grading/no-raise", "window",
                   "only-refines", "well-formed", "history/no-raise", "refine_grading/terminates-on-deep-corner-meshes")


def guarded_grading(mesh, sigma, K, max_leaves, max_seconds):
    """mesh.refine_grading(sigma, K) with a leaf/time cap; returns 'ok' | 'not_finished'; exceptions of the
    repository code propagate.  The cap is enforced in instance-level wrappers of refine_time/refine_space
    (refine_grading calls them through self), plus an interval timer as a back stop."""
    t_end = time.time() + max_seconds

    def guard():
        if len(mesh.leaf_elements) > max_leaves or time.time() > t_end:
            raise _Abort()
    cls = type(mesh)

    def rt(elem):
        guard()
        return cls.refine_time(mesh, elem)

    def rx(elem):
        guard()
        return cls.refine_space(mesh, elem)
    mesh.refine_time, mesh.refine_space = rt, rx
    use_timer = hasattr(signal, "setitimer")
    old = None
    if use_timer:
        try:
            def _alarm(signum, frame):
                raise _Abort()
            old = signal.signal(signal.SIGALRM, _alarm)
            signal.setitimer(signal.ITIMER_REAL, max_seconds + 5)
        except ValueError:          # not in the main thread
            use_timer = False
    try:
        with contextlib.redirect_stdout(io.StringIO()):
            mesh.refine_grading(sigma=sigma, K=K)
        return "ok"
    except _Abort:
        return "not_finished"
    finally:
        if use_timer:
            signal.setitimer(signal.ITIMER_REAL, 0)
            signal.signal(signal.SIGALRM, old)
        del mesh.refine_time, mesh.refine_space


def build_from_spec(spec):
    """Real mesh (and Init or None) from a grading spec: exact tensor mesh + rectangle ops, or a curve of
    src.parametrization + index ops [[leaf index in leaf_elements order, ax], ...] (float coordinates)."""
    with contextlib.redirect_stdout(io.StringIO()):
        if "curve" in spec:
            import src.parametrization as P
            mesh = RM.MeshParametrized(getattr(P, spec["curve"])())
            for i, ax in spec["idx_ops"]:
                mesh.refine_axis(list(mesh.leaf_elements)[i], ax)
            _corner(mesh, spec)
            return mesh, None
        init = Init.from_spec(spec["init"])
        mesh = _real_replay(init, [op_parse(o) for o in spec["ops"]])
        _corner(mesh, spec)
        return mesh, init


def _corner(mesh, spec):
    """spec['corner_depth'] isotropic bisections of the leaf at the corner (t, x) = (0, 0): elements down to 2^-depth"""
    for _ in range(int(spec.get("corner_depth", 0))):
        e0 = min(mesh.leaf_elements, key=lambda e: (e.time_interval[0], e.space_interval[0], e.h_t, e.h_x))
        mesh.refine(e0)


def grading_case(spec):
    """History, then refine_grading(sigma, K).  Returns dict(status, bad=[(clause, detail)], n0, n1)."""
    sigma, K = spec["sigma"], spec.get("K", 4)
    try:
        mesh, init = build_from_spec(spec)
    except (Exception, RecursionError) as e:
        tn, fn, text, ln = describe_exception(e)
        return dict(status="failed", n0=None, n1=None, bad=[("history/no-raise", "building the history raised {} in {} at `{}` (mesh.py:{})".format(
            tn, fn, text, ln))])
    # earlier gradings of the SAME mesh object with other exponents (a graded mesh is a reachable mesh): whatever they leave on the
    # mesh or on its elements must not influence this call
    for ps in spec.get("prior_same", []):
        try:
            if guarded_grading(mesh, ps, K, spec.get("max_leaves", 20000), spec.get("max_seconds", 20)) != "ok":
                return dict(status="not_finished", n0=None, n1=None, bad=[])
        except (Exception, RecursionError):
            return dict(status="not_finished", n0=None, n1=None, bad=[])      # reported by the case that grades with `ps` itself
    old = list(mesh.leaf_elements)
    old_set = set(old)
    bad = []
    try:
        status = guarded_grading(mesh, sigma, K, spec.get("max_leaves", 20000), spec.get("max_seconds", 20))
    except (Exception, RecursionError) as e:
        tn, fn, text, ln = describe_exception(e)
        if tn == "AssertionError" and fn == "refine_grading" and text == "assert not elem.children":
            clause = "refine_grading/assert-not-children-space-loop"
        else:
            clause = "refine_grading/no-raise"
        return dict(status="failed", n0=len(old), n1=None, bad=[(clause, "refine_grading(sigma={}, K={}) raised {} in {} at `{}` (mesh.py:{})".format(
            sigma, K, tn, fn, text, ln))])
    if status == "not_finished":
        if spec.get("cap_is_violation"):
            # deep-corner family: the unchanged tree finishes with a few thousand leaves; the cap (leaves / seconds) is the stated bound
            return dict(status="failed", n0=len(old), n1=len(mesh.leaf_elements), bad=[(
                "refine_grading/terminates-on-deep-corner-meshes",
                "refine_grading(sigma={}, K={}) did not finish within {} leaves / {} s on a mesh refined {} times towards the corner "
                "({} leaves before the call)".format(sigma, K, spec.get("max_leaves"), spec.get("max_seconds"), spec.get("corner_depth"), len(old)))])
        return dict(status=status, bad=[], n0=len(old), n1=len(mesh.leaf_elements))
    for e in mesh.leaf_elements:
        r = elem_rect(e)
        ht, hx = r[1] - r[0], r[3] - r[2]
        if not (ht / K < hx ** sigma < K * ht):
            bad.append(("window", "leaf {} has h_t={} h_x={} outside the window (sigma={}, K={})".format(e, ht, hx, sigma, K)))
            break
    for e in mesh.leaf_elements:
        a, steps = e, 0
        while a is not None and a not in old_set and steps < 10000:
            a, steps = a.parent, steps + 1
        if a is None or a not in old_set:
            bad.append(("only-refines", "leaf {} has no ancestor-or-self among the old leaves".format(e)))
            break
    leaf_set = set(mesh.leaf_elements)
    for o in old:
        if not o.children and o not in leaf_set:
            bad.append(("only-refines", "old leaf {} vanished".format(o)))
            break
    if len(mesh.leaf_elements) <= spec.get("wf_limit", 3000):
        wf = well_formed(mesh, init, None) if init is not None else well_formed(mesh, None, None, exact=False)
        if wf:
            bad.append(("well-formed", "; ".join("{}: {}".format(c, d) for c, d in wf[:3])))
    return dict(status="ok", bad=bad, n0=len(old), n1=len(mesh.leaf_elements))


# =====================================================================================================
# 8. seeded random histories
# =====================================================================================================
BIASES = (0.2, 0.5, 0.8)        # probability that a random bisection is a TIME bisection
ELEMENT_CAP = 400
CURVES = ("UnitSquare", "LShape", "Circle")


def _random_wf_task(task):
    """One random history on an exact mesh, every operation checked with the full `well_formed` + `minimal`
    (the only economy on big meshes: the fixed-point minimality oracle scans locally above
    _mesh_ref.FULL_SCAN_LIMIT leaves).  mode 'dorfler' interleaves marking steps."""
    mode, i, seed, steps, cap, own = task
    names = list(FAMILIES)
    init = FAMILIES[names[i % len(names)]]
    bias = BIASES[(i // len(names)) % 3]
    rng = random.Random("{}/{}/{}".format(seed, mode, i))
    group = "random" if mode == "wf" else "sequences"
    run = Run(init)
    fails, evals, keys, rebuilds = [], 0, set(), 0
    allow_uspace = True
    for _ in range(steps):
        n = len(run.view.leaves)
        if n > cap:
            break
        rects = sorted(run.view.leaves)
        u = rng.random()
        r = rects[rng.randrange(n)]
        ax = 0 if rng.random() < bias else 1
        if mode == "dorfler" and u < 0.5 and n <= 150:
            variant = "isotropic" if u < 0.25 else "anisotropic"
            eta = [rng.random() if variant == "isotropic" else (rng.random(), rng.random()) for _ in range(n)]
            if rng.random() < 0.15:      # some zeros (never all: ties among zeros are covered by the state cases)
                eta = [(0.0 if variant == "isotropic" else (0.0, e[1])) if (rng.random() < 0.4 and j > 0) else e
                       for j, e in enumerate(eta)]
            op = ("dorfler", variant, tuple(eta), rng.choice(THETAS))
            spec = dict(kind="dorfler", init=init.spec(), ops=history_json(run.history), variant=variant,
                        eta=[list(e) if isinstance(e, tuple) else e for e in eta], theta=op[3])
            bad = dorfler_case(spec, pre=run.view)
            evals += 1
            for clause, detail in bad:
                fails.append(_failure("sequences-" + variant, clause, spec, detail, len(run.history) + 1))
            if bad:
                break
            run.apply(op, check=False)
            continue
        if u < 0.80 or mode == "dorfler":
            op = ("axis", r, ax)
        elif u < 0.92:
            op = ("refine", r)
        elif u < 0.96 and 4 * n <= cap:
            op = ("uniform",)
        elif u >= 0.96 and 2 * n <= cap and allow_uspace:
            op = ("uniform_space",)
        else:
            op = ("axis", r, ax)
        bad = run.apply(op, check=(mode == "wf"))
        evals += 1
        if bad:
            spec = dict(kind="history", init=init.spec(), ops=history_json(run.history))
            seen_c = set()
            for clause, detail in bad:
                if clause not in seen_c:
                    seen_c.add(clause)
                    fails.append(_failure(group, clause, spec, detail, len(run.history)))
            if not any(_stops(c, own) for c, _ in bad):
                run.broken = False      # only clauses of another property failed: go on
                keys.add(hash(frozenset(run.view.leaves)))
                continue
            if all(c.endswith("no-raise") for c, _ in bad) and rebuilds < 3:
                # the operation raised half way: rebuild the mesh without it and go on
                rebuilds += 1
                if op[0] == "uniform_space":
                    allow_uspace = rebuilds < 2
                hist = run.history[:-1]
                run = Run(init)
                run.replay(hist, check=False)
                if run.broken:
                    break
                continue
            break
        keys.add(hash(frozenset(run.view.leaves)))
    sample = dict(init=init.name, bias=bias, history=history_short(run.history[:4]) + (" ..." if len(run.history) > 4 else ""),
                  steps=len(run.history), leaves=len(run.view.leaves))
    fd = Findings()
    fd.merge_fails(fails)
    return [f for lst in fd.fails.values() for f in lst], evals, keys, sample


def random_histories(n, steps, seed, pool=None, mode="wf", cap=ELEMENT_CAP, own=None):
    """n seeded random histories (time bias cycling through 0.2/0.5/0.8, families cycling), ops drawn from
    {refine_axis 80%, refine 12%, uniform_refine 4%, uniform_refine_space 4%}; every op checked."""
    tasks = [(mode, i, seed, steps, cap, own) for i in range(n)]
    it = pool.imap_unordered(_random_wf_task, tasks) if pool is not None else map(_random_wf_task, tasks)
    fails, evals, keys, samples = [], 0, set(), []
    for f, e, k, s in it:
        fails.extend(f)
        evals += e
        keys |= k
        samples.append(s)
    samples.sort(key=lambda s: (s["init"], s["bias"]))
    return dict(fails=fails, evals=evals, distinct=len(keys), samples=samples[:3])


# the exponents are tried in one process, in varying order: the property quantifies over histories, and refine_grading must not
# carry anything from one call to the next (third-round seed: class-level cache of h_x**sigma keyed by h_x only)
SIGMA_ORDERS = ((1, 1.5, 2), (2, 1.5, 1), (1.5, 2, 1), (2, 1, 1.5))


def _grading_task(task):
    """Worker: grading cases.  kind 'states': explorer states x sigma; kind 'random': one random history on an
    exact mesh or on a MeshParametrized curve (float coordinates), then refine_grading for every sigma."""
    kind = task[0]
    out = dict(fails=[], evals=0, not_finished=0, keys=set(), samples=[])
    if kind == "deep":
        _, spec = task
        res = grading_case(spec)
        out["evals"] += 1
        for clause, detail in res["bad"]:
            out["fails"].append(_failure("deep-corner", clause, spec, detail, spec["corner_depth"]))
        out["deep"] = True
        return _shrink(out)

    def one(group, spec, length):
        res = grading_case(spec)
        out["evals"] += 1
        if res["status"] == "not_finished":
            out["not_finished"] += 1
        for clause, detail in res["bad"]:
            out["fails"].append(_failure(group, clause, spec, detail, length))
        return res

    if kind == "states":
        _, fam, S, hists, caps = task
        init = FAMILIES[fam]
        for h in hists:
            ops = dec_hist(h, S)
            order = SIGMA_ORDERS[len(ops) % len(SIGMA_ORDERS)]
            for n_prior, sigma in enumerate(order):
                spec = dict(kind="grading", init=init.spec(), ops=history_json(ops), sigma=sigma, K=4, prior=list(order[:n_prior]), **caps)
                one(fam, spec, len(ops))
            # the same mesh graded again with another exponent
            spec = dict(kind="grading", init=init.spec(), ops=history_json(ops), sigma=order[1], K=4, prior=list(order),
                        prior_same=[order[0]], **caps)
            one(fam, spec, len(ops))
        return _shrink(out)
    _, i, seed, steps, caps = task
    rng = random.Random("{}/grading/{}".format(seed, i))
    bias = rng.choice(BIASES)
    nsteps = rng.choice((10, 30, steps))
    if i % 3 != 0:
        curve = CURVES[(i // 3) % 3]
        spec0 = dict(kind="grading", curve=curve, idx_ops=[])
        mesh, _ = build_from_spec(spec0)
        for _ in range(nsteps):
            n = len(mesh.leaf_elements)
            if n > ELEMENT_CAP:
                break
            j, ax = rng.randrange(n), (0 if rng.random() < bias else 1)
            spec0["idx_ops"].append([j, ax])
            try:
                mesh.refine_axis(list(mesh.leaf_elements)[j], ax)
            except (Exception, RecursionError):
                break               # grading_case re-raises it and reports clause history/no-raise
        group, length = "curve-" + curve, len(spec0["idx_ops"])
        out["keys"].add(hash(frozenset(elem_rect(e) for e in mesh.leaf_elements)))
        out["samples"].append(dict(curve=curve, bias=bias, steps=length, leaves=len(mesh.leaf_elements)))
    else:
        names = list(GRADING_FAMILIES)
        init = GRADING_FAMILIES[names[(i // 3) % len(names)]]
        run = Run(init)
        for _ in range(nsteps):
            rects = sorted(run.view.leaves)
            if len(rects) > ELEMENT_CAP:
                break
            op = ("axis", rects[rng.randrange(len(rects))], 0 if rng.random() < bias else 1)
            if run.apply(op, check=False):
                break
        spec0 = dict(kind="grading", init=init.spec(), ops=history_json(run.history))
        group, length = "random", len(run.history)
        out["keys"].add(hash(frozenset(run.view.leaves)))
        out["samples"].append(dict(init=init.name, bias=bias, steps=length, leaves=len(run.view.leaves)))
    order = SIGMA_ORDERS[i % len(SIGMA_ORDERS)]
    for n_prior, sigma in enumerate(order):
        spec = dict(spec0, sigma=sigma, K=4, prior=list(order[:n_prior]), **caps)
        one(group, spec, length)
    # chains on the SAME mesh object: sigma_a, then sigma_b (and sigma_c) -- the window of the last call is checked
    one(group, dict(spec0, sigma=order[1], K=4, prior=list(order), prior_same=[order[0]], **caps), length)
    one(group, dict(spec0, sigma=order[2], K=4, prior=list(order), prior_same=[order[0], order[1]], **caps), length)
    return _shrink(out)


def _shrink(out):
    fd = Findings()
    fd.merge_fails(out["fails"])
    out["fails"] = [f for lst in fd.fails.values() for f in lst]
    return out


# =====================================================================================================
# 9. the interface used by the check drivers
# =====================================================================================================
def _chunks(lst, n):
    return [lst[i:i + n] for i in range(0, len(lst), n)]


def _depth_text(depths):
    by = {}
    for f, d in depths.items():
        by.setdefault(d, []).append(f)
    return "; ".join("depth {} on {}".format(d, ",".join(fs)) for d, fs in sorted(by.items()))


def _sample_histories(res, k=3):
    out = []
    for fam, r in res.items():
        if len(out) >= k:
            break
        h, n, S = r["reached"][-1]
        out.append(dict(init=fam, history=history_short(dec_hist(h, S)), leaves=n))
    return out


def _run_structure(chk, prop, tier, seed, pool, log):
    """C02 / C10: exhaustive BFS + random histories, class invariant + minimality after every operation."""
    own = C02_CLAUSES if prop == "C02" else C10_CLAUSES
    compound_nr = tuple(REAL_NAME[k] + "/no-raise" for k in ("refine", "uniform", "uniform_space", "dorfler"))

    def mine(clause):
        return clause in own or (prop == "C02" and clause in compound_nr)
    depths = bfs_depths(tier)
    t0 = time.time()
    res = explore_bfs(depths, pool=pool, compound=True, progress=log, own=own)
    fd = Findings()
    for fam, r in res.items():
        fd.merge_fails(r["fails"])
        fd.mark_checked(fam, own + (compound_nr if prop == "C02" else ()), r["evals"])
        chk.add_bounded("{}/bounded/bfs/{}".format(prop, fam), r["evals"], r["nontrivial"],
                        "all sequences of refine_axis(leaf, ax) up to depth {} from initial mesh {} (time {} space {}{}); "
                        "plus refine(leaf), uniform_refine, uniform_refine_space and seven Doerfler steps (tied / zero / monotone / inverse-area indicators, states with <= 6 leaves) as terminal operations on every "
                        "state".format(r["depth"], fam, [str(t) for t in FAMILIES[fam].time],
                                       [str(x) for x in FAMILIES[fam].space], " glued" if FAMILIES[fam].glued else ""),
                        "breadth-first, every leaf x both axes, states de-duplicated by exact leaf set; one evaluation = "
                        "one operation executed on the real mesh + well_formed + comparison with the reference closure",
                        _sample_histories({fam: r}, 1))
    log("bfs: {} evaluations, {} states in {:.1f}s".format(sum(r["evals"] for r in res.values()),
                                                          sum(r["states"] for r in res.values()), time.time() - t0))
    n, steps = (66, 80) if tier == "quick" else (330, 200)
    t0 = time.time()
    rr = random_histories(n, steps, seed, pool, own=own)
    fd.merge_fails(rr["fails"])
    fd.mark_checked("random", own + (compound_nr if prop == "C02" else ()), rr["evals"])
    chk.add_bounded("{}/bounded/random".format(prop), rr["evals"], rr["distinct"],
                    "{} random histories of up to {} operations, at most {} leaves, seed {}".format(n, steps, ELEMENT_CAP, seed),
                    "ops drawn from refine_axis 80% / refine 12% / uniform_refine 4% / uniform_refine_space 4%, time bias "
                    "cycling 0.2/0.5/0.8, initial meshes cycling through all families; full invariant after every op "
                    "(above {} leaves the least-fixed-point minimality oracle scans only the neighbourhood of the leaves "
                    "it created)".format(ref.FULL_SCAN_LIMIT),
                    rr["samples"])
    log("random: {} evaluations in {:.1f}s".format(rr["evals"], time.time() - t0))
    # deep refinement towards a corner and towards an interior point (levels up to 30 / 34: coordinates and sizes down to 1e-10; nothing
    # in the bookkeeping may compare coordinates "up to rounding")
    deep = []
    for fam in ("1x1-open", "1x1-glued", "2x2-glued", "uneven-glued"):
        for target in ("corner", "interior"):
            deep.append((fam, target, 30 if tier == "quick" else 34))
    ctx0 = multiprocessing.get_context("fork")
    with ctx0.Pool(min(NPROC, len(deep)), maxtasksperchild=1) as p0:
        douts = p0.map(_deep_task, deep, 1)
    n_deep = 0
    for (fam, target, depth), (nops, fails) in zip(deep, douts):
        n_deep += nops
        seen_c = set()
        for f in fails:
            if f["clause"] not in seen_c and mine(f["clause"]):
                seen_c.add(f["clause"])
                fd.add_fail(f)
    fd.mark_checked("deep", own, n_deep)
    chk.add_bounded("{}/bounded/deep-refinement".format(prop), n_deep, len(deep),
                    "4 initial meshes x (towards the corner (0, 0) / towards the interior point (1/3, 1/3)), {} combined bisections each".format(deep[0][2]),
                    "full class invariant + reference closure after every operation", [])
    # several meshes alive at once (class- or module-level bookkeeping shared between meshes shows only here)
    specs = interleaved_specs(tier, seed)
    ctx = multiprocessing.get_context("fork")
    with ctx.Pool(min(NPROC, len(specs)), maxtasksperchild=1) as p1:
        outs = p1.map(_interleaved_task, specs, 1)
    n_ops = 0
    for spec, bad in outs:
        n_ops += sum(1 for ev in spec["events"] if ev[0] == "op")
        seen_c = set()
        for clause, detail in bad:
            if clause not in seen_c and mine(clause):
                seen_c.add(clause)
                fd.add_fail(_failure("interleaved", clause, spec, detail, len(spec["events"])))
    fd.mark_checked("interleaved", own, n_ops)
    chk.add_bounded("{}/bounded/interleaved-meshes".format(prop), n_ops, len(specs),
                    "{} schedules with three meshes alive at once (construction orders: all first / a third mesh constructed between the "
                    "construction and the first bisection of another / after two bisections), 8-10 alternating operations".format(len(specs)),
                    "full class invariant of the affected mesh after every operation and of every mesh at the end", [outs[0][0]["pattern"]])
    return fd.emit(chk, prop, mine)


def _collect_states(tier, pool, max_leaves, depth_quick, depth_thorough, log):
    depths = {f: (depth_quick if tier == "quick" else depth_thorough) for f in FAMILIES}
    res = explore_bfs(depths, pool=pool, compound=False, progress=None)
    states = {f: [(h, n) for h, n, _ in r["reached"] if n <= max_leaves] for f, r in res.items()}
    scales = {f: r["reached"][0][2] for f, r in res.items()}
    log("collected {} states with <= {} leaves".format(sum(map(len, states.values())), max_leaves))
    return states, scales, depths


def _run_dorfler(chk, prop, tier, seed, pool, log):
    states, scales, depths = _collect_states(tier, pool, 6, 3, 4, log)
    rng = random.Random("{}/C06".format(seed))
    perm_limit = 24 if tier == "quick" else 120
    per_family = 40 if tier == "quick" else 400
    tasks, n_states = [], 0
    for fam, lst in states.items():
        small = [s for s in lst if s[1] <= 3]
        rest = [s for s in lst if s[1] > 3]
        rng.shuffle(rest)
        chosen = small + rest[:max(0, per_family - len(small))]
        n_states += len(chosen)
        for ch in _chunks([h for h, _ in chosen], 2 if tier == "quick" else 4):
            tasks.append((fam, scales[fam], ch, perm_limit, seed))
    fd = Findings()
    evals = skipped = 0
    t0 = time.time()
    for fails, e, sk in (pool.imap_unordered(_dorfler_chunk, tasks) if pool else map(_dorfler_chunk, tasks)):
        fd.merge_fails(fails)
        evals += e
        skipped += sk
    for variant in ("isotropic", "anisotropic"):
        fd.mark_checked(variant, DORFLER_CLAUSES, evals // 2)
    chk.add_bounded("C06/bounded/states", evals, n_states,
                    "{} explorer states with <= 6 leaves (all with <= 3 leaves, seeded sample of the others; BFS {}) x both "
                    "variants x theta in {} x indicator designs".format(n_states, _depth_text(depths), list(THETAS)),
                    "indicator vectors = all permutations of 1..m (m = n leaves isotropic, 2n anisotropic) when m! <= {0}, "
                    "else {0} seeded permutations; plus all-equal, all-zero, single non-zero, one dominant entry, geometric, "
                    "half zeros, a tied pair, time-only/space-only/both-axes-dominant (anisotropic); executions that only "
                    "differ in the order of the unmarked tail are de-duplicated; {1} tie cases with more than {2} "
                    "admissible tie-breaks skipped".format(perm_limit, skipped, TIE_CAP),
                    [dict(init=f, history=history_short(dec_hist(l[-1][0], scales[f])), leaves=l[-1][1])
                     for f, l in list(states.items())[:2] if l])
    log("dorfler states: {} evaluations in {:.1f}s".format(evals, time.time() - t0))
    n, steps = (32, 25) if tier == "quick" else (320, 40)
    t0 = time.time()
    rr = random_histories(n, steps, seed, pool, mode="dorfler")
    fd.merge_fails(rr["fails"])
    for variant in ("isotropic", "anisotropic"):
        fd.mark_checked("sequences-" + variant, DORFLER_CLAUSES, rr["evals"] // 2)
    chk.add_bounded("C06/bounded/sequences", rr["evals"], rr["distinct"],
                    "{} random sequences of up to {} steps (50% marking steps with random float indicators, 15% of them "
                    "with zeros; 50% refine_axis), at most {} leaves, seed {}".format(n, steps, ELEMENT_CAP, seed),
                    "every marking step is checked against the reference (marked prefix recomputed exactly, closure of "
                    "time marks then space marks on the time halves, order independence, well_formed)", rr["samples"])
    log("dorfler sequences: {} evaluations in {:.1f}s".format(rr["evals"], time.time() - t0))
    return fd.emit(chk, prop)


def _run_grading(chk, prop, tier, seed, pool, log):
    states, scales, depths = _collect_states(tier, pool, 10 ** 9, 3, 4, log)
    caps = dict(max_leaves=20000, max_seconds=4 if tier == "quick" else 20)
    tasks = []
    for fam, lst in states.items():
        for ch in _chunks([h for h, _ in lst], 8):
            tasks.append(("states", fam, scales[fam], ch, caps))
    n_states = sum(map(len, states.values()))
    n_rand, steps = (480, 60) if tier == "quick" else (1800, 200)
    # long histories first (they dominate the wall clock)
    rtasks = [("random", i, seed, steps, caps) for i in range(n_rand)]
    fd = Findings()
    tot = dict(states=dict(evals=0, nf=0), random=dict(evals=0, nf=0))
    keys, samples = set(), []
    t0 = time.time()
    # meshes refined 30 times towards the corner (t, x) = (0, 0) (elements of size 2^-30: the window test compares h_t / K with
    # h_x ** sigma at magnitudes down to 1e-19); here -- and only here -- not finishing within the cap is a violation
    dtasks = []
    for src_ in (dict(curve="UnitSquare", idx_ops=[]), dict(curve="Circle", idx_ops=[]), dict(init=FAMILIES["1x1-open"].spec(), ops=[]),
                 dict(init=FAMILIES["1x1-glued"].spec(), ops=[])):
        for sigma in (1,):       # isotropic refinement is already graded for sigma = 1 (for 1.5 / 2 the unchanged tree needs > 1e5 leaves)
            dtasks.append(("deep", dict(src_, kind="grading", sigma=sigma, K=4, prior=[], corner_depth=30 if tier == "quick" else 34,
                                        cap_is_violation=True, max_leaves=40000, max_seconds=120, wf_limit=0)))
    allt = rtasks + tasks + dtasks
    # one fresh process per task: the recorded history of a case (its `prior` exponents) is then the whole history of
    # refine_grading calls of its process, so that a failure that needs earlier calls is reproducible by its replay
    gpool = multiprocessing.get_context("fork").Pool(NPROC, maxtasksperchild=1) if pool else None
    for out in (gpool.imap_unordered(_grading_task, allt) if gpool else map(_grading_task, allt)):
        fd.merge_fails(out["fails"])
        if out.get("deep"):
            tot.setdefault("deep", dict(evals=0, nf=0))["evals"] += out["evals"]
            continue
        which = "random" if out["samples"] else "states"
        tot[which]["evals"] += out["evals"]
        tot[which]["nf"] += out["not_finished"]
        keys |= out["keys"]
        samples.extend(out["samples"])
    if gpool:
        gpool.terminate()
        gpool.join()
    for fam in states:
        fd.mark_checked(fam, GRADING_CLAUSES, 4 * len(states[fam]))
    for g in ["random"] + ["curve-" + c for c in CURVES]:
        fd.mark_checked(g, GRADING_CLAUSES, tot["random"]["evals"] // (15 if g.startswith("curve") else 5))
    chk.add_bounded("C19/bounded/states", tot["states"]["evals"], sum(1 for l in states.values() for _, n in l if n > 1),
                    "every state of the BFS ({}) x sigma in (1, 1.5, 2), K = 4; cap 20000 leaves / {} s per call: "
                    "{} calls not finished; plus one chain per state (the same mesh graded with a second exponent)".format(_depth_text(depths), caps["max_seconds"], tot["states"]["nf"]),
                    "refine_grading on the real mesh rebuilt from the history; oracle: no exception, window for every leaf, "
                    "only refines, well_formed",
                    [dict(init=f, history=history_short(dec_hist(l[-1][0], scales[f])), leaves=l[-1][1])
                     for f, l in list(states.items())[:2] if l])
    chk.add_bounded("C19/bounded/random", tot["random"]["evals"], len(keys),
                    "{} random histories (10, 30 or {} refine_axis steps, time bias 0.2/0.5/0.8, seed {}): two thirds on "
                    "MeshParametrized(UnitSquare/LShape/Circle) with float coordinates, one third on the exact families; x "
                    "sigma in (1, 1.5, 2); cap 20000 leaves / {} s: {} calls not finished (never a violation)".format(
                        n_rand, steps, seed, caps["max_seconds"], tot["random"]["nf"]),
                    "float meshes: no exception, window, only-refines and the structural part of well_formed; exact meshes: "
                    "full well_formed (up to 3000 leaves)", samples[:3])
    fd.mark_checked("deep-corner", GRADING_CLAUSES, tot.get("deep", dict(evals=0))["evals"])
    chk.add_bounded("C19/bounded/deep-corner", tot.get("deep", dict(evals=0))["evals"], len(dtasks),
                    "4 meshes (unit square, circle, exact 1x1 open / glued) refined {} times towards the corner (0, 0), sigma = 1 (the mesh is already in the window: the call has nothing to do); "
                    "cap 40000 leaves / 120 s".format(dtasks[0][1]["corner_depth"]),
                    "no exception, termination within the cap (a violation on this family), window for every leaf, only refines", [])
    chk.notes.append("C19 explorer: not_finished = {} (states) + {} (random)".format(tot["states"]["nf"], tot["random"]["nf"]))
    log("grading: {} + {} evaluations, not finished {} + {}, {:.1f}s".format(
        tot["states"]["evals"], tot["random"]["evals"], tot["states"]["nf"], tot["random"]["nf"], time.time() - t0))
    return fd.emit(chk, prop)


def run(chk, prop, tier, seed, verbose=False):
    """prop in {'C02','C10','C06','C19'}; chk is a vlib.core.Check.  Runs the exploration relevant for that
    property and records DISCHARGED/FAILED bounded obligations + add_bounded evidence.  Returns the number of
    failed obligations recorded."""
    def log(msg):
        if verbose:
            print("[mesh_explorer {} {}] {}".format(prop, tier, msg), file=sys.stderr)
            sys.stderr.flush()
    ctx = multiprocessing.get_context("fork")
    pool = ctx.Pool(NPROC) if NPROC > 1 else None
    try:
        if prop in ("C02", "C10"):
            return _run_structure(chk, prop, tier, seed, pool, log)
        if prop == "C06":
            return _run_dorfler(chk, prop, tier, seed, pool, log)
        if prop == "C19":
            return _run_grading(chk, prop, tier, seed, pool, log)
        raise ValueError("mesh_explorer.run: unknown property {}".format(prop))
    finally:
        if pool is not None:
            pool.terminate()
            pool.join()


def main(argv):
    from vlib.core import Check
    prop = argv[1] if len(argv) > 1 else "C02"
    tier = argv[2] if len(argv) > 2 else "quick"
    seed = int(os.environ.get("VERIF_SEED", "0") or 0)
    chk = Check(prop, tier, seed, "bounded", "python -m bounded.mesh_explorer")
    t0 = time.time()
    run(chk, prop, tier, seed, verbose=True)
    failed = [o for o in chk.obs if o.status == FAILED]
    print("{} {}: {} obligations discharged, {} failed, wall {:.1f}s (repo {})".format(
        prop, tier, sum(o.status == DISCHARGED for o in chk.obs), len(failed), time.time() - t0, REPO))
    for name, b in chk.bounded.items():
        print("  bounded {}: evaluations={} distinct_nontrivial={}".format(name, b["evaluations"], b["distinct_nontrivial"]))
    for o in failed:
        sp = o.detail.get("spec", {})
        hist = sp.get("ops", sp.get("idx_ops"))
        print("  FAILED {}\n     {}\n     init={} history={}".format(
            o.name, o.detail["observed"][:300], (o.detail.get("init") or {}).get("name", o.detail.get("init"))
            if isinstance(o.detail.get("init"), dict) else o.detail.get("init"),
            history_short([op_parse(x) for x in hist]) if hist and "ops" in sp else hist))
        extra = {k: sp[k] for k in ("variant", "eta", "theta", "sigma") if k in sp}
        if extra:
            print("     " + json.dumps(extra))
    return 1 if failed else 0


if __name__ == "__main__":
    sys.exit(main(sys.argv))
