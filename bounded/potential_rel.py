"""Bounded run-time relational contracts for C08 (initial-potential load vector) and C03 (Galerkin orthogonality of
the residual handed to the estimators).

C08: InitialOperator.linform / linform_vector / evaluate / evaluate_mesh on real boundary meshes of the unit square, the
     pi square and the L-shape, against the closed-form initial potentials of problems.py integrated with an independent
     graded tensor Gauss rule, plus additivity under splitting, linearity in u0 and vector == per-element.
C03: the statements of the driver example.py that build mesh / SL / M0 / rhs / Phi / residual are extracted from the
     file with `ast` (located by the assigned names) and executed on seeded random meshes; the residual function they
     produce must have zero mean on every leaf (|int_E r| <= 5e-5 int_E |r| + 1e-12), the integrals being taken with an
     independent graded composite Gauss rule.
Everything here is a *bounded* check (run-time contract on the real code); bounds are stated in the evidence.

The repo root is vlib.core.REPO (env STBEM_REPO) and is put FIRST on sys.path, so the module can be pointed at a
mutated scratch copy.
"""
import ast
import contextlib
import io
import math
import os
import random
import sys
import time
import traceback

for _k in ("OMP_NUM_THREADS", "OPENBLAS_NUM_THREADS", "MKL_NUM_THREADS"):      # one BLAS thread per forked worker
    os.environ.setdefault(_k, "1")

from vlib.core import REPO, Ob, DISCHARGED, FAILED

if REPO in sys.path:
    sys.path.remove(REPO)
sys.path.insert(0, REPO)

ASPECT_MAX = 32.0
_G = {}                      # state shared with forked workers (built before the pool is created)


@contextlib.contextmanager
def quiet():
    with contextlib.redirect_stdout(io.StringIO()):
        yield


def _workers():
    try:
        n = len(os.sched_getaffinity(0))
    except Exception:
        n = os.cpu_count() or 1
    return max(1, min(16, n))


def _pool_map(fn, tasks, workers=None):
    """fork pool over tasks (plain tuples); state travels through the module global _G"""
    import multiprocessing as mp
    n = workers or _workers()
    tasks = list(tasks)
    if n <= 1 or len(tasks) <= 1:
        return [fn(t) for t in tasks]
    ctx = mp.get_context("fork")
    with ctx.Pool(min(n, len(tasks))) as p:
        return p.map(fn, tasks, 1)


def _f(x):
    return float(x)


# ------------------------------------------------------------------------------------------------------
# meshes and elements
# ------------------------------------------------------------------------------------------------------
def curve_of(domain):
    from src import parametrization as P
    return getattr(P, domain)()


def new_mesh(domain, time_grid=None):
    """MeshParametrized of the curve; the L-shape gets its two length-2 sides split, as in example.py"""
    from src.mesh import MeshParametrized
    with quiet():
        mesh = MeshParametrized(curve_of(domain), initial_time_mesh=list(time_grid or [0, 1]))
        if domain == "LShape":
            for elem in list(mesh.leaf_elements):
                if elem.h_x > 1:
                    mesh.refine_space(elem)
    return mesh


def fix_aspect(mesh):
    """keep every leaf at h_x^2/h_t <= 32 by bisecting offenders in space"""
    while True:
        bad = [e for e in mesh.leaf_elements if e.h_x ** 2 / e.h_t > ASPECT_MAX]
        if not bad:
            return
        bad.sort(key=lambda e: e.level_space)
        for e in bad:
            if not e.children:
                mesh.refine_space(e)


def grade_in_time(mesh, rounds):
    """`rounds` bisections in time of every leaf that starts at t = 0 (thin slabs next to t = 0 all around the curve, aspect kept
    <= 32): short elapsed times between elements that are neighbours through the closing seam"""
    for _ in range(rounds):
        for e in [e for e in mesh.leaf_elements if e.time_interval[0] == 0]:
            if not e.children:
                mesh.refine_time(e)
        fix_aspect(mesh)


def refine_random(mesh, hseed, steps, uniform=0, p_space=0.55, max_leaves=None):
    """`uniform` uniform refinements, then `steps` seeded random bisections (time bisections only where the child keeps
    h_x^2/h_t <= 32; closure refinements that break the aspect are repaired by space bisections)"""
    rng = random.Random(hseed)
    with quiet():
        for _ in range(uniform):
            mesh.uniform_refine()
        for _ in range(steps):
            leaves = list(mesh.leaf_elements)
            if max_leaves and len(leaves) >= max_leaves:
                break
            e = leaves[rng.randrange(len(leaves))]
            ax = 1 if rng.random() < p_space else 0
            if ax == 0 and e.h_x ** 2 / (e.h_t / 2) > ASPECT_MAX:
                ax = 1
            mesh.refine_axis(e, ax)
        fix_aspect(mesh)
    return mesh


def build_mesh(domain, hseed, steps, uniform=0, time_grid=None, p_space=0.55, max_leaves=None):
    return refine_random(new_mesh(domain, time_grid), hseed, steps, uniform, p_space, max_leaves)


def mk_elem(t0, t1, x0, x1, gamma):
    """a DummyElement (repo class) on [t0,t1] x [x0,x1] carrying the parametrization piece gamma"""
    from src.mesh import Vertex
    from src.hierarchical_error_estimator import DummyElement
    vs = [Vertex(t0, x0, -1), Vertex(t0, x1, -1), Vertex(t1, x1, -1), Vertex(t1, x0, -1)]
    return DummyElement(vs, gamma)


def piece_index(curve, x0, x1):
    ps = curve.pw_start
    for i in range(len(ps) - 1):
        if ps[i] <= x0 and x1 <= ps[i + 1]:
            return i
    raise ValueError("space interval ({}, {}) is not inside one piece".format(x0, x1))


def elem_from_desc(domain, d, curve=None):
    """d = (t0, t1, x0, x1): element on the piece of the curve that contains [x0, x1]"""
    curve = curve or curve_of(domain)
    t0, t1, x0, x1 = d
    return mk_elem(t0, t1, x0, x1, curve.pw_gamma[piece_index(curve, x0, x1)])


def desc(e):
    (t0, t1), (x0, x1) = e.time_interval, e.space_interval
    return (_f(t0), _f(t1), _f(x0), _f(x1))


def split(e, kind):
    (t0, t1), (x0, x1) = e.time_interval, e.space_interval
    g = e.gamma_space
    tm, xm = (t0 + t1) / 2, (x0 + x1) / 2
    if kind == "time":
        return [mk_elem(t0, tm, x0, x1, g), mk_elem(tm, t1, x0, x1, g)]
    if kind == "space":
        return [mk_elem(t0, t1, x0, xm, g), mk_elem(t0, t1, xm, x1, g)]
    if kind == "quarters":
        return [mk_elem(ta, tb, xa, xb, g) for (ta, tb) in ((t0, tm), (tm, t1)) for (xa, xb) in ((x0, xm), (xm, x1))]
    raise ValueError(kind)


# ------------------------------------------------------------------------------------------------------
# graded composite Gauss rules (independent of the repo's singular rules)
# ------------------------------------------------------------------------------------------------------
def _max_levels(width, ratio, first_node, dmin, levels):
    """largest L <= levels with width * ratio**L * first_node >= dmin (nodes keep the distance dmin from the graded end)"""
    if not dmin:
        return levels
    L = levels
    while L > 0 and width * ratio ** L * first_node < dmin:
        L -= 1
    return L


def graded_rule(a, b, n, levels_lo=0, levels_hi=0, ratio=0.5, pts01=None, dmin=0.0):
    """nodes, weights of a composite n-point Gauss rule on [a, b], geometrically graded (factor `ratio`) towards a
    with levels_lo layers and towards b with levels_hi layers; with dmin > 0 the number of layers is reduced until every
    node keeps the distance dmin from the graded end points"""
    import numpy as np
    if pts01 is None:
        x, w = np.polynomial.legendre.leggauss(n)
        pts01 = (0.5 * (x + 1), 0.5 * w)
    gx, gw = pts01
    a, b = float(a), float(b)
    g1 = float(min(gx[0], 1 - gx[-1]))
    if levels_lo and levels_hi:
        m = 0.5 * (a + b)
        levels_lo = _max_levels(m - a, ratio, g1, dmin, levels_lo)
        levels_hi = _max_levels(b - m, ratio, g1, dmin, levels_hi)
        lo = [a + (m - a) * ratio ** k for k in range(levels_lo, -1, -1)]
        hi = [b - (b - m) * ratio ** k for k in range(0, levels_hi + 1)]
        brk = [a] + lo + hi[1:] + [b]
    elif levels_lo:
        levels_lo = _max_levels(b - a, ratio, g1, dmin, levels_lo)
        brk = [a] + [a + (b - a) * ratio ** k for k in range(levels_lo, -1, -1)]
    elif levels_hi:
        levels_hi = _max_levels(b - a, ratio, g1, dmin, levels_hi)
        brk = [b - (b - a) * ratio ** k for k in range(0, levels_hi + 1)] + [b]
    else:
        brk = [a, b]
    xs, ws = [], []
    for p, q in zip(brk[:-1], brk[1:]):
        if q > p:
            xs.append(p + (q - p) * gx)
            ws.append((q - p) * gw)
    return np.concatenate(xs), np.concatenate(ws)


def repo_gauss01(order=23):
    """points/weights on [0,1] of the repo's tensor Gauss-Legendre rule ProductScheme2D(gauss_quadrature_scheme(order))
    (its 1-D factor is recovered from the product rule and checked against the product structure)"""
    import numpy as np
    from src.quadrature import ProductScheme2D, gauss_quadrature_scheme
    s1 = gauss_quadrature_scheme(order)
    s2 = ProductScheme2D(s1)
    n = len(s1.points)
    assert s2.points.shape == (2, n * n)
    assert np.array_equal(s2.points[0].reshape(n, n)[:, 0], s1.points) and np.array_equal(s2.points[1][:n], s1.points)
    assert np.allclose(s2.weights.reshape(n, n), np.outer(s1.weights, s1.weights), rtol=1e-15, atol=0)
    assert abs(float(np.sum(s1.weights)) - 1) < 1e-14 and abs(float(np.dot(s1.weights, s1.points ** 3)) - 0.25) < 1e-14
    return np.array(s1.points), np.array(s1.weights)


def closed_form_load(M0u0, e, t_levels=20, x_levels=14, pts01=None):
    """int_E M0u0(t, gamma(x_hat)) dx_hat dt with the repo's Gauss(23) rule per cell of a graded tensor grid: for an element
    starting at t = 0 the time axis is split dyadically t_levels times towards 0 (sqrt-type behaviour) and the space axis
    x_levels times towards both end points (layers erf(dist/(2 sqrt t)) at the corners of the domain)"""
    import numpy as np
    pts01 = pts01 or repo_gauss01(23)
    (t0, t1), (x0, x1) = e.time_interval, e.space_interval
    if t0 == 0:
        T, WT = graded_rule(t0, t1, None, levels_lo=t_levels, pts01=pts01)
        X, WX = graded_rule(x0, x1, None, levels_lo=x_levels, levels_hi=x_levels, pts01=pts01)
    else:
        T, WT = graded_rule(t0, t1, None, pts01=pts01)
        X, WX = graded_rule(x0, x1, None, levels_lo=3, levels_hi=3, pts01=pts01)
    P = e.gamma_space(X)                                            # (2, nx)
    TT = np.repeat(T, len(X))
    PP = np.tile(P, (1, len(T)))
    vals = np.asarray(M0u0(TT, PP), dtype=float).reshape(len(T), len(X))
    return float(WT @ vals @ WX)


# ------------------------------------------------------------------------------------------------------
# C08
# ------------------------------------------------------------------------------------------------------
C08_DOMAINS = ("UnitSquare", "PiSquare", "LShape")
SIDE = {"UnitSquare": 1.0, "LShape": 1.0, "PiSquare": math.pi}
TOL_A, TOL_B, TOL_C, TOL_D, TOL_DM = 1e-5, 1e-6, 1e-12, 1e-5, 1e-10


def initial_mesh_fn(domain):
    from src import initial_mesh as IM
    return getattr(IM, domain + "BoundaryRefined")


def domain_mesh(domain, refinements):
    from src import initial_mesh as IM
    m = getattr(IM, domain)()
    for _ in range(refinements):
        m.uniform_refine()
    return m


def closed_form_problems(domain):
    """name -> dict(u0, M0u0) of problems.py for this domain"""
    import problems
    return {"UnitSquare": {"singular_square": problems.singular_square(), "smooth_square": problems.smooth_square()},
            "PiSquare": {"smooth_pisquare": problems.smooth_pisquare()},
            "LShape": {"singular_lshape": problems.singular_lshape()}}[domain]


def u0_family(name, coef=None):
    """initial data for linearity / additivity; each takes a (2, n) array and returns an (n,) array"""
    import numpy as np
    if name == "one":
        return lambda xy: np.ones(np.shape(xy)[1])
    if name == "x":
        return lambda xy: 1.0 * xy[0]
    if name == "sinxy":
        return lambda xy: np.sin(xy[0]) * xy[1]
    if name == "quad":
        c = list(coef)
        return lambda xy: c[0] + c[1] * xy[0] + c[2] * xy[1] + c[3] * xy[0] * xy[0] + c[4] * xy[0] * xy[1] + c[5] * xy[1] * xy[1]
    raise ValueError(name)


def _u0_from_spec(spec):
    return u0_family(spec[0], spec[1] if len(spec) > 1 else None)


def make_M0(domain, u0, mesh=None):
    from src.initial_potential import InitialOperator
    mesh = mesh or new_mesh(domain)
    return InitialOperator(bdr_mesh=mesh, u0=u0, initial_mesh=initial_mesh_fn(domain))


def domain_contains(domain, x, y):
    s = SIDE[domain]
    if domain == "LShape":
        return (-1 <= x <= 1 and -1 <= y <= 1) and not (x < 0 and y < 0)
    return 0 <= x <= s and 0 <= y <= s


def c08_case(clause, domain, d, arg=None):
    """One evaluation of a C08 clause from plain data (used by workers and by replays). Returns dict(err=..., ...).
    d = (t0, t1, x0, x1) for element clauses, (t, x, y) for the evaluate clauses."""
    import numpy as np
    with quiet():
        if clause == "linform-vs-closed-form":
            prob = closed_form_problems(domain)[arg]
            e = elem_from_desc(domain, d)
            got = float(make_M0(domain, prob["u0"]).linform(e)[0])
            want = closed_form_load(prob["M0u0"], e)
            return dict(err=abs(got - want) / abs(want), got=got, want=want)
        if clause == "additive-under-splitting":
            e = elem_from_desc(domain, d)
            M0 = make_M0(domain, _u0_from_spec(arg))
            whole = float(M0.linform(e)[0])
            out = dict(whole=whole, err=0.0)
            for kind in ("time", "space", "quarters"):
                parts = [float(M0.linform(p)[0]) for p in split(e, kind)]
                s = math.fsum(parts)
                r = abs(s - whole) / max(abs(whole), 1e-300)
                out[kind] = s
                if r > out["err"]:
                    out["err"], out["kind"] = r, kind
            return out
        if clause == "linear-in-u0":
            fs, gs, a, b = arg
            e = elem_from_desc(domain, d)
            f, g = _u0_from_spec(fs), _u0_from_spec(gs)
            Lf = float(make_M0(domain, f).linform(e)[0])
            Lg = float(make_M0(domain, g).linform(e)[0])
            Lc = float(make_M0(domain, lambda xy: a * f(xy) + b * g(xy)).linform(e)[0])
            mag = abs(a * Lf) + abs(b * Lg)
            return dict(err=abs(Lc - (a * Lf + b * Lg)) / max(mag, 1e-300), Lf=Lf, Lg=Lg, Lcomb=Lc)
        if clause in ("evaluate-vs-closed-form", "evaluate_mesh-vs-closed-form"):
            prob = closed_form_problems(domain)[arg[0] if isinstance(arg, (tuple, list)) else arg]
            t, x, y = d
            pt = np.array([[x], [y]], dtype=float)
            M0 = make_M0(domain, prob["u0"])
            want = float(np.asarray(prob["M0u0"](t, pt)).reshape(-1)[0])
            if clause == "evaluate-vs-closed-form":
                got = float(np.asarray(M0.evaluate(t, pt)).reshape(-1)[0])
            else:
                got = float(np.asarray(M0.evaluate_mesh(t, pt, domain_mesh(domain, arg[1]))).reshape(-1)[0])
            return dict(err=abs(got - want) / abs(want), got=got, want=want)
    raise ValueError(clause)


def _c08_task(task):
    clause, domain, d, arg = task
    try:
        return c08_case(clause, domain, d, arg)
    except BaseException as exc:                                   # a raise of the repo code is a violation of the clause
        return dict(err=float("inf"), raised="{}: {}".format(type(exc).__name__, exc),
                    tb=traceback.format_exc(limit=6)[-900:])


def c08_params(tier):
    if tier == "thorough":
        return dict(meshes=[(1, 0, 30, None, .55), (2, 1, 40, None, .3), (3, 2, 30, None, .55), (4, 0, 60, None, .3),
                            (5, 1, 25, [0, 0.25, 1], .4), (6, 3, 0, None, .5), (7, 0, 80, None, .45)],
                    n_a=400, n_b=120, n_c=60, n_d=60, n_dm=16, dm_levels=(2, 3))
    return dict(meshes=[(1, 0, 24, None, .55), (2, 1, 20, None, .3), (3, 2, 0, None, .5), (4, 0, 40, [0, 0.25, 1], .3)],
                n_a=90, n_b=32, n_c=24, n_d=24, n_dm=6, dm_levels=(2,))


def c08_elements(domain, tier, seed):
    """distinct leaf rectangles (t0,t1,x0,x1) of the seeded meshes of this domain, with the mesh elements of one mesh"""
    par = c08_params(tier)
    seen, descs, texts = set(), [], []
    first = None
    for (hs, uni, steps, tg, ps) in par["meshes"]:
        mesh = build_mesh(domain, 7919 * seed + hs, steps, uniform=uni, time_grid=tg, p_space=ps)
        leaves = list(mesh.leaf_elements)
        if first is None or (len(leaves) <= 40 and len(leaves) > len(list(first.leaf_elements))):
            first = mesh
        texts.append("seed={} uniform={} steps={} time_grid={} p_space={} leaves={}".format(7919 * seed + hs, uni, steps, tg, ps, len(leaves)))
        for e in leaves:
            k = desc(e)
            if k not in seen:
                seen.add(k)
                descs.append(k)
    return descs, first, texts


def deep_t0_elements(domain, tier):
    curve = curve_of(domain)
    out = []
    for k in ((24, 27, 30) if tier == "thorough" else (27, 30)):
        h_t = 2.0 ** -k
        for piece, frac in ((0, 5 / 16), (len(curve.pw_start) - 2, 11 / 16)):
            lo, hi = float(curve.pw_start[piece]), float(curve.pw_start[piece + 1])
            m = 0
            while ((hi - lo) * 2.0 ** -m) ** 2 > 8 * h_t:            # aspect <= 8: at aspect exactly 32 the pristine tree is at 1.6e-6
                m += 1
            h_x = (hi - lo) * 2.0 ** -m
            x0 = lo + round(frac * 2 ** m) * h_x
            out.append((0.0, 2 * h_t, x0, x0 + h_x))          # its time halves are [0, h_t] and [h_t, 2 h_t]
            out.append((h_t, 2 * h_t, x0, x0 + h_x))
    return out


def _pick(rng, items, n):
    items = list(items)
    if len(items) <= n:
        return items
    return rng.sample(items, n)


def _points(domain, rng, n):
    """(t, x, y): points inside, on the boundary and at corners of the domain, t >= 0.05 * side^2"""
    s = SIDE[domain]
    out = []
    corners = {"UnitSquare": [(0, 0), (1, 1)], "PiSquare": [(0, 0), (s, s)], "LShape": [(0, 0), (1, -1), (-1, 1), (1, 1)]}[domain]
    while len(out) < n:
        kind = len(out) % 4
        t = s * s * (0.05 * (40 ** rng.random()))                    # 0.05 s^2 .. 2 s^2, log-uniform
        if len(out) < 3:
            t = s * s * 0.05
        if kind == 3 and corners:
            x, y = corners[(len(out) // 4) % len(corners)]
        else:
            lo = -1.0 if domain == "LShape" else 0.0
            x, y = lo + (s - lo) * rng.random(), lo + (s - lo) * rng.random()
            if kind == 1:                                            # on the boundary
                if domain == "LShape":
                    x, y = rng.choice([(x, 1.0), (1.0, y), (abs(x), -1.0), (-1.0, abs(y)), (0.0, -abs(y)), (-abs(x), 0.0)])
                else:
                    x, y = rng.choice([(x, 0.0), (x, s), (0.0, y), (s, y)])
        if domain_contains(domain, x, y):
            out.append((float(t), float(x), float(y)))
    return out


def coincident_elements(levels=(0, 1, 2)):
    """boundary segments that belong to two shipped polygons with identical end points in the same direction:
    [((domain_a, x0, x1), (domain_b, x0, x1)), ...] (dyadic sub-intervals of sides)"""
    import numpy as np
    by = {}
    for domain in C08_DOMAINS:
        curve = curve_of(domain)
        ps = [float(v) for v in curve.pw_start]
        for i in range(len(ps) - 1):
            for lev in levels:
                n = 2 ** lev
                for k in range(n):
                    x0, x1 = ps[i] + (ps[i + 1] - ps[i]) * k / n, ps[i] + (ps[i + 1] - ps[i]) * (k + 1) / n
                    if x1 - x0 > 1 + 1e-12 and domain == "LShape":
                        continue                                    # the L-shape's long sides are pre-split
                    v0 = np.asarray(curve.pw_gamma[i](x0), dtype=float).reshape(-1)
                    v1 = np.asarray(curve.pw_gamma[i](x1), dtype=float).reshape(-1)
                    key = tuple(round(float(c), 12) + 0.0 for c in (*v0, *v1))
                    by.setdefault(key, []).append((domain, x0, x1))
    out = []
    for key, items in sorted(by.items()):
        for a in items:
            for b in items:
                if a[0] < b[0]:
                    out.append((a, b))
    return out


def _c08_sequence_task(seq):
    """several loads computed one after the other in ONE process (history), each reported like a single case"""
    return [_c08_task(("linform-vs-closed-form", dom, d, p)) for dom, d, p in seq]


def _fresh_process_map(fn, tasks):
    """every task in its own forked process (no history at all)"""
    import multiprocessing as mp
    ctx = mp.get_context("fork")
    with ctx.Pool(min(_workers(), max(1, len(tasks))), maxtasksperchild=1) as p:
        return p.map(fn, tasks, 1)


def run_c08_interleaved(results, tier, seed):
    """history clause: operators of two different polygons alive in one process, loads of geometrically coincident boundary segments
    requested alternately; every load must be the one computed in a process of its own (bitwise) and meet the closed form"""
    rng = random.Random(77 + seed)
    pairs = coincident_elements()
    if not pairs:
        return 0
    pairs = _pick(rng, pairs, 12 if tier == "thorough" else 5)
    seqs = []
    for (da, a0, a1), (db, b0, b1) in pairs:
        pa, pb = sorted(closed_form_problems(da))[0], sorted(closed_form_problems(db))[0]
        slabs = [(0.0, 0.25), (0.5, 0.75)]
        seq = []
        for (t0, t1) in slabs:
            seq += [(da, (t0, t1, a0, a1), pa), (db, (t0, t1, b0, b1), pb)]
        seq += [(db, (0.0, 0.25, b0, b1), pb), (da, (0.0, 0.25, a0, a1), pa)]
        seqs.append(seq)
    with quiet():
        together = _fresh_process_map(_c08_sequence_task, seqs)
        flat = [c for seq in seqs for c in seq]
        uniq = sorted(set(flat))
        alone = dict(zip(uniq, _fresh_process_map(_c08_task, [("linform-vs-closed-form",) + c for c in uniq])))
    bad, worst = [], None
    for seq, outs in zip(seqs, together):
        for pos, (c, o) in enumerate(zip(seq, outs)):
            ref = alone[c]
            same = ("got" in o and "got" in ref and o["got"] == ref["got"])
            okc = same and o["err"] <= TOL_A
            if not okc:
                bad.append(dict(case=list(c), position_in_sequence=pos, sequence=[list(x[:2]) for x in seq], in_sequence=o.get("got"),
                                alone=ref.get("got"), closed_form=o.get("want"), raised=o.get("raised")))
    detail = dict(sequences=len(seqs), loads=len(flat), violations=len(bad), first=bad[:3])
    replay = None
    if bad:
        b = bad[0]
        code = ("from bounded import potential_rel as P\nseq = {seq!r}\nouts = P._c08_sequence_task(seq)\n"
                "alone = P._fresh_process_map(P._c08_task, [('linform-vs-closed-form',) + tuple(c) for c in seq])\n"
                "observed = [(o.get('got'), a.get('got'), o.get('want')) for o, a in zip(outs, alone)]\n"
                "violated = any(o.get('got') != a.get('got') or not (o['err'] <= {tol}) for o, a in zip(outs, alone))\n").format(
                    seq=[s for s in seqs if [list(x[:2]) for x in s] == b["sequence"]][0], tol=TOL_A)
        from vlib.replay import run_replay
        res = run_replay(code, True)
        replay = dict(code=code, raises_is_violation=True, outcome=res, confirmed=bool(res.get("violated")))
    results.append(("interleaved-polygons/load-independent-of-earlier-loads-on-another-polygon", not bad, detail, replay))
    return len(flat) + len(uniq)



def run_c08(chk, tier, seed, only=None):
    import numpy as np
    par = c08_params(tier)
    results, samples = [], []
    n_eval = 0
    mesh_texts = {}
    for domain in C08_DOMAINS:
        if only and only != domain:
            continue
        t_dom = time.time()
        rng = random.Random(1000 * seed + len(domain))
        descs, mesh, texts = c08_elements(domain, tier, seed)
        mesh_texts[domain] = texts
        probs = sorted(closed_form_problems(domain))
        aspects = [(d[3] - d[2]) ** 2 / (d[1] - d[0]) for d in descs]
        assert max(aspects) <= ASPECT_MAX * (1 + 1e-12)
        tasks = []
        t0_elems = [d for d in descs if d[0] == 0]
        other = [d for d in descs if d[0] != 0]
        pick_a = _pick(rng, t0_elems, par["n_a"] // 2) + _pick(rng, other, par["n_a"] - par["n_a"] // 2)
        for d in pick_a:
            for p in probs:
                tasks.append(("linform-vs-closed-form", domain, d, p))
        quad = lambda: ("quad", [round(rng.uniform(-1, 1), 3) for _ in range(6)])
        fam = lambda: rng.choice([("one",), ("x",), ("sinxy",), quad()])
        for d in _pick(rng, descs, par["n_b"]):
            tasks.append(("additive-under-splitting", domain, d, fam()))
        for d in _pick(rng, descs, par["n_c"]):
            fs, gs = fam(), fam()
            while gs == fs:
                gs = fam()
            tasks.append(("linear-in-u0", domain, d, (fs, gs, round(rng.uniform(-2, 2), 3), round(rng.uniform(-2, 2), 3))))
        # elements strongly graded towards t = 0 (time levels 24..30, aspect <= 32): the a == 0 / a > 0 distinction of the
        # time-integrated kernel must be exact, not "close to 0" (third-round seed: np.isclose(a, 0) has atol 1e-8)
        for d in deep_t0_elements(domain, tier):
            tasks.append(("additive-under-splitting", domain, d, fam()))
            if d[0] != 0:
                for p in probs:
                    tasks.append(("linform-vs-closed-form", domain, d, p))
        pts = _points(domain, rng, par["n_d"])
        for pt in pts:
            for p in probs:
                tasks.append(("evaluate-vs-closed-form", domain, pt, p))
        for pt in pts[:par["n_dm"]]:
            for p in probs:
                for lev in par["dm_levels"]:
                    tasks.append(("evaluate_mesh-vs-closed-form", domain, pt, (p, lev)))
        outs = _pool_map(_c08_task, tasks)
        n_eval += len(tasks)
        tol = {"linform-vs-closed-form": TOL_A, "additive-under-splitting": TOL_B, "linear-in-u0": TOL_C,
               "evaluate-vs-closed-form": TOL_D, "evaluate_mesh-vs-closed-form": TOL_DM}
        by = {}
        for task, out in zip(tasks, outs):
            by.setdefault(task[0], []).append((task, out))
        for clause in tol:
            rows = by.get(clause, [])
            if not rows:
                continue
            worst = max(rows, key=lambda r: r[1]["err"] if r[1]["err"] == r[1]["err"] else float("inf"))
            errs = [r[1]["err"] for r in rows]
            bad = [r for r in rows if not (r[1]["err"] <= tol[clause])]
            detail = dict(domain=domain, cases=len(rows), tolerance=tol[clause], max_rel=max(errs),
                          worst=dict(task=list(worst[0][2:]), out={k: v for k, v in worst[1].items() if k != "tb"}),
                          violations=len(bad))
            if clause == "linform-vs-closed-form":
                for p in probs:
                    sub = [r for r in rows if r[0][3] == p]
                    detail["max_rel[{}]".format(p)] = max(r[1]["err"] for r in sub)
                    detail["max_rel_t0=0[{}]".format(p)] = max([r[1]["err"] for r in sub if r[0][2][0] == 0] or [0.0])
                detail["max_aspect"] = max((r[0][2][3] - r[0][2][2]) ** 2 / (r[0][2][1] - r[0][2][0]) for r in rows)
            replay = None
            if bad:
                replay = _c08_replay(worst[0], tol[clause], tier, seed)
                if "raised" in worst[1]:
                    detail["traceback"] = worst[1].get("tb")
            results.append(("{}/{}".format(domain, clause), not bad, detail, replay))
        # (e) vector == per-element, bitwise, on one real mesh (serial path of linform_vector)
        elems = list(mesh.leaf_elements)
        prob = closed_form_problems(domain)[probs[0]]
        ok, detail, replay = True, dict(domain=domain, n=len(elems), problem=probs[0]), None
        try:
            with quiet():
                M0 = make_M0(domain, prob["u0"], mesh)
                vec = M0.linform_vector(elems)
                vec_default = M0.linform_vector()
                per = np.array([M0.linform(e)[0] for e in elems])
            n_eval += 3 * len(elems)
            ok = (isinstance(vec, np.ndarray) and vec.shape == (len(elems),) and bool(np.all(vec == per))
                  and bool(np.all(vec_default == per)))
            detail["max_abs_diff"] = float(np.max(np.abs(np.asarray(vec, dtype=float).reshape(-1)[:len(per)] - per))) if len(per) else 0.0
        except BaseException as exc:
            ok = False
            detail["raised"] = "{}: {}".format(type(exc).__name__, exc)
        if not ok:
            replay = _full_replay("C08", "C08/bounded/{}/vector-equals-per-element".format(domain), tier, seed, domain)
        results.append(("{}/vector-equals-per-element".format(domain), ok, detail, replay))
        samples.append(dict(domain=domain, elements=len(descs), meshes=texts, seconds=round(time.time() - t_dom, 1)))
    if not only:
        n_eval += run_c08_interleaved(results, tier, seed)
    bound = ("domains UnitSquare/PiSquare/LShape (L-shape long sides pre-split); boundary meshes MeshParametrized + uniform "
             "refinements + seeded random bisections (quick: 4 meshes/domain, thorough: 7), all leaves aspect h_x^2/h_t <= 32, "
             "space intervals dyadic sub-intervals of sides, time grids [0,1] and [0,0.25,1]; (a) linform vs closed-form M0u0 of "
             "problems.py integrated with the repo's Gauss(23) rule on a grid graded 20x in time / 14x in space for t0 = 0 "
             "(reference accurate to <= 1e-8), rel {a:g}; (b) additivity (time halves, space halves, quarters) rel {b:g} "
             "(unchanged repo measured <= 1e-7: the pieces are integrated with different domain meshes, so this is quadrature "
             "accuracy, not round-off); (c) linearity rel {c:g} of |a L(f)| + |b L(g)|; (d) evaluate vs closed form for "
             "t >= 0.05 side^2 rel {d:g}, evaluate_mesh on 2-3x uniformly refined domain mesh rel {dm:g}; (e) linform_vector "
             "== per-element linform bitwise; (f) history: loads of coincident boundary segments of two polygons requested alternately in one "
             "process == the load computed in a process of its own (bitwise), 5 / 12 segment pairs x 6 loads").format(a=TOL_A, b=TOL_B, c=TOL_C, d=TOL_D, dm=TOL_DM)
    _report(chk, "C08", results, n_eval, bound, "one case per (domain, clause); evaluations = element/point cases", samples)


def _c08_replay(task, tol, tier, seed):
    """targeted replay (one element / point), confirmed in-process; falls back to re-running the domain"""
    clause, domain, d, arg = task
    again = _c08_task(task)
    name = "C08/bounded/{}/{}".format(domain, clause)
    if not (again["err"] <= tol):
        code = ("from bounded import potential_rel as P\n"
                "out = P.c08_case({clause!r}, {domain!r}, {d!r}, {arg!r})   # a raise of the repo code is a violation too\n"
                "print(out)\nviolated = not (out['err'] <= {tol!r})\n").format(clause=clause, domain=domain, d=tuple(d), arg=arg, tol=tol)
        return dict(code=code, confirmed=True, raises_is_violation=True)
    return _full_replay("C08", name, tier, seed, domain)


def _full_replay(pid, name, tier, seed, only):
    code = ("from bounded import potential_rel as P\nfrom vlib.core import Check\n"
            "chk = Check({pid!r}, {tier!r}, {seed}, 'other', 'replay')\n"
            "P.run(chk, {pid!r}, {tier!r}, {seed}, only={only!r})\n"
            "observed = [o.name for o in chk.obs if o.status == 'failed']\nviolated = {name!r} in observed\n").format(
                pid=pid, tier=tier, seed=seed, only=only, name=name)
    return dict(code=code, confirmed=True, raises_is_violation=True)


# ------------------------------------------------------------------------------------------------------
# C03: the driver's own statements, extracted from example.py
# ------------------------------------------------------------------------------------------------------
C03_COMBOS = [("Smooth", "UnitSquare"), ("Smooth", "PiSquare"), ("Singular", "UnitSquare"), ("Singular", "LShape"),
              ("Dirichlet", "UnitSquare"), ("Dirichlet", "PiSquare"), ("Dirichlet", "LShape"), ("Dirichlet", "Circle"),
              ("MildSingular", "UnitSquare"), ("MildSingular", "PiSquare"), ("MildSingular", "LShape"), ("MildSingular", "Circle")]
C03_REL, C03_ABS = 5e-5, 1e-12
SETUP_NAMES = {"mesh", "initial_mesh", "data", "problem", "SL", "M0", "M0u0", "g", "g_linform", "error_estimator"}
SOLVE_NAMES = {"elems", "N", "mat", "rhs", "Phi"}
RESIDUAL_NAMES = {"elems", "N", "residual"}


def _assigned(stmt):
    """names assigned by a statement, looking into if/for/with/try bodies but not into nested defs"""
    out = set()

    def tgt(t):
        if isinstance(t, ast.Name):
            out.add(t.id)
        elif isinstance(t, (ast.Tuple, ast.List)):
            for x in t.elts:
                tgt(x)

    def walk(n):
        if isinstance(n, (ast.FunctionDef, ast.AsyncFunctionDef, ast.ClassDef, ast.Lambda)):
            return
        if isinstance(n, ast.Assign):
            for t in n.targets:
                tgt(t)
        elif isinstance(n, (ast.AugAssign, ast.AnnAssign)):
            tgt(n.target)
        elif isinstance(n, ast.For):
            tgt(n.target)
        for c in ast.iter_child_nodes(n):
            if isinstance(c, ast.stmt):
                walk(c)
    walk(stmt)
    return out


class _NoPool(ast.NodeTransformer):
    """use_mp=True -> use_mp=False (same code path as the pool workers, serial)"""
    def visit_keyword(self, node):
        self.generic_visit(node)
        if node.arg == "use_mp" and isinstance(node.value, ast.Constant) and node.value.value is True:
            node.value = ast.copy_location(ast.Constant(False), node.value)
        return node


class DriverCode:
    """The statements of example.py that create mesh/initial_mesh, data, SL, M0, M0u0, g, g_linform, error_estimator (before
    the adaptive loop) and elems, N, mat, rhs, Phi, residual (inside `for k in range(100)`), located by assigned names."""

    def __init__(self, path=None):
        self.path = path or os.path.join(REPO, "example.py")
        self.ok, self.why = False, ""
        try:
            self._extract()
            self.ok = True
        except Exception as exc:                                   # extraction too fragile for this tree: mirror instead
            self.why = "{}: {}".format(type(exc).__name__, exc)

    def _extract(self):
        with open(self.path) as fh:
            src = fh.read()
        import warnings
        with warnings.catch_warnings():
            warnings.simplefilter("ignore", SyntaxWarning)
            tree = _NoPool().visit(ast.parse(src, self.path))
        ast.fix_missing_locations(tree)
        self.imports = [n for n in tree.body if isinstance(n, (ast.Import, ast.ImportFrom))]
        main = [n for n in tree.body if isinstance(n, ast.If) and isinstance(n.test, ast.Compare)
                and isinstance(n.test.left, ast.Name) and n.test.left.id == "__name__"]
        if len(main) != 1:
            raise LookupError("no unique `if __name__ == '__main__'` block")
        body = main[0].body
        loops = [i for i, n in enumerate(body) if isinstance(n, ast.For) and isinstance(n.target, ast.Name) and n.target.id == "k"
                 and isinstance(n.iter, ast.Call) and getattr(n.iter.func, "id", None) == "range"]
        if len(loops) != 1:
            raise LookupError("no unique `for k in range(...)` loop")
        pre, loop = body[:loops[0]], body[loops[0]]
        self.mesh_stmts = [n for n in pre if "mesh" in _assigned(n)]
        self.ops_stmts = [n for n in pre if (_assigned(n) & SETUP_NAMES) and "mesh" not in _assigned(n)]
        self.solve_stmts = [n for n in loop.body if _assigned(n) & SOLVE_NAMES]
        self.residual_stmts = [n for n in loop.body if _assigned(n) & RESIDUAL_NAMES]
        got = set()
        for n in self.mesh_stmts + self.ops_stmts:
            got |= _assigned(n)
        missing = (SETUP_NAMES - got)
        if missing:
            raise LookupError("driver no longer assigns {}".format(sorted(missing)))
        got = set()
        for n in self.solve_stmts + self.residual_stmts:
            got |= _assigned(n)
        missing = (SOLVE_NAMES | RESIDUAL_NAMES) - got
        if missing:
            raise LookupError("adaptive loop no longer assigns {}".format(sorted(missing)))
        self.lines = dict(mesh=[n.lineno for n in self.mesh_stmts], ops=[n.lineno for n in self.ops_stmts],
                          solve=[n.lineno for n in self.solve_stmts], residual=[n.lineno for n in self.residual_stmts])

    def run(self, ns, stmts):
        code = compile(ast.Module(body=list(stmts), type_ignores=[]), self.path, "exec")
        exec(code, ns)

    def text(self):
        if self.ok:
            return "statements extracted from example.py by ast (lines {})".format(self.lines)
        return "AST extraction failed ({}): driver MIRRORED by hand".format(self.why)


def _driver_args(problem, domain, pw):
    import types
    return types.SimpleNamespace(problem=problem, domain=domain, single_layer_exact=bool(pw), estimator_quadrature="5355",
                                 hierarchical=False, h_h2=False, sobolev=True, l2=True, refinement="uniform", grading=False,
                                 grading_sigma=2, estimator="sobolev", theta=0.9)


def driver_state(problem, domain, pw, mesh_spec, Phi=None, drv=None):
    """Runs the driver statements for one adaptive-loop iteration on the seeded mesh. With Phi=None: up to Phi (assemble and
    solve); with Phi given: everything except assemble/solve, and builds the residual function. Returns the namespace."""
    import numpy as np
    drv = drv or DriverCode()
    hseed, steps, uniform, p_space, max_leaves = mesh_spec[:5]
    tgrade = mesh_spec[5] if len(mesh_spec) > 5 else 0
    ns = {"__name__": "example_driver_extract", "args": _driver_args(problem, domain, pw), "cache_dir": None}
    with quiet():
        if drv.ok:
            drv.run(ns, drv.imports)
            drv.run(ns, drv.mesh_stmts)
            refine_random(ns["mesh"], hseed, steps, uniform, p_space, max_leaves)
            grade_in_time(ns["mesh"], tgrade)
            drv.run(ns, drv.ops_stmts)
            if Phi is None:
                drv.run(ns, drv.solve_stmts)
            else:
                ns["Phi"] = np.array(Phi)
                drv.run(ns, drv.residual_stmts)
        else:
            _mirror_driver(ns, problem, domain, pw, mesh_spec, Phi)
    return ns


def _mirror_driver(ns, problem, domain, pw, mesh_spec, Phi):
    """hand-written mirror of example.py:99-261 (only used when the AST extraction fails)"""
    import numpy as np
    from problems import problem_helper
    from src.error_estimator import ErrorEstimator
    from src.initial_potential import InitialOperator
    from src.single_layer import SingleLayerOperator
    hseed, steps, uniform, p_space, max_leaves = mesh_spec[:5]
    mesh = new_mesh(domain)
    refine_random(mesh, hseed, steps, uniform, p_space, max_leaves)
    grade_in_time(mesh, mesh_spec[5] if len(mesh_spec) > 5 else 0)
    data = problem_helper(problem, domain)
    SL = SingleLayerOperator(mesh, pw_exact=bool(pw), cache_dir=None)
    if "u0" in data:
        M0 = InitialOperator(bdr_mesh=mesh, u0=data["u0"], initial_mesh=initial_mesh_fn(domain), cache_dir=None)
        M0u0 = data["M0u0"]
    else:
        M0, M0u0 = None, None
    g, g_linform = (data["g"], data["g-linform"]) if "g" in data else (None, None)
    error_estimator = ErrorEstimator(mesh, N_poly=(5, 3, 5, 5), cache_dir=None)
    elems = list(mesh.leaf_elements)
    N = len(elems)
    ns.update(mesh=mesh, data=data, SL=SL, M0=M0, M0u0=M0u0, g=g, g_linform=g_linform, error_estimator=error_estimator,
              elems=elems, N=N)
    if Phi is None:
        mat = SL.bilform_matrix(elems, elems, use_mp=False)
        rhs = np.zeros(N)
        if M0:
            rhs = -M0.linform_vector(elems=elems, use_mp=False)
        if g_linform:
            rhs += g_linform(elems)
        ns.update(mat=mat, rhs=rhs, Phi=np.linalg.solve(mat, rhs))
    else:
        ns["Phi"] = np.array(Phi)
        ns["residual"] = error_estimator.residual(elems, ns["Phi"], SL, M0u0, g, SL_exact_eval=bool(pw))


C03_RULE = dict(n=6, lt_lo=6, lt_hi=2, lx=6, ratio=0.25, dmin=2.5e-5)


def _breaks(a, b, values):
    a, b = float(a), float(b)
    inner = sorted({float(v) for v in values if a < float(v) < b})
    return [a] + inner + [b]


def residual_moments(residual, e, leaves, rule=None):
    """(int_E r, int_E |r|, #points) with a composite Gauss rule: E's time interval is split at all mesh time levels strictly
    inside it, its space interval at all mesh vertices strictly inside it, and every piece is graded geometrically towards
    its end points (r has sqrt-type kinks in t where t crosses the t0/t1 of other elements and x log x-type behaviour at
    the element end points in space)"""
    import numpy as np
    rule = dict(C03_RULE, **(rule or {}))
    gx, gw = np.polynomial.legendre.leggauss(rule["n"])
    pts01 = (0.5 * (gx + 1), 0.5 * gw)
    tb = _breaks(*e.time_interval, [t for o in leaves for t in o.time_interval])
    xb = _breaks(*e.space_interval, [x for o in leaves for x in o.space_interval])
    T, WT, X, WX = [], [], [], []
    for a, b in zip(tb[:-1], tb[1:]):
        p, w = graded_rule(a, b, None, levels_lo=rule["lt_lo"], levels_hi=rule["lt_hi"], ratio=rule["ratio"], pts01=pts01)
        T.append(p), WT.append(w)
    for a, b in zip(xb[:-1], xb[1:]):
        p, w = graded_rule(a, b, None, levels_lo=rule["lx"], levels_hi=rule["lx"], ratio=rule["ratio"], pts01=pts01,
                           dmin=rule["dmin"])                  # SL.evaluate asserts |x_hat - end point| > 1e-5 inside a panel
        X.append(p), WX.append(w)
    T, WT, X, WX = map(np.concatenate, (T, WT, X, WX))
    R = np.asarray(residual(np.repeat(T, len(X)), np.tile(X, len(T)), e.gamma_space), dtype=float).reshape(len(T), len(X))
    return float(WT @ R @ WX), float(WT @ np.abs(R) @ WX), R.size


def c03_mesh_spec(tier, seed, k):
    """(hseed, steps, uniform, p_space, max_leaves) of the k-th combination"""
    if tier == "thorough":
        sizes = [(14, 0, 40), (30, 0, 60), (10, 1, 90), (60, 0, 150)]
        steps, uni, cap = sizes[k % len(sizes)]
    else:
        steps, uni, cap = [(5, 0, 14), (8, 0, 18), (3, 0, 12)][k % 3]
    return (104729 * seed + 31 * k + 5, steps, uni, 0.5, cap)


def c03_case(problem, domain, pw, mesh_spec, elem_index=None, rule=None):
    """Standalone evaluation (replays): solves with the driver statements, builds the residual, integrates it over the leaf
    elem_index (or all leaves). Returns list of dict(index, elem, mean, l1, ratio_ok)."""
    drv = DriverCode()
    ns1 = driver_state(problem, domain, pw, mesh_spec, None, drv)
    ns = driver_state(problem, domain, pw, mesh_spec, ns1["Phi"], drv)
    elems = ns["elems"]
    out = []
    for i in (range(len(elems)) if elem_index is None else [elem_index]):
        try:
            with quiet():
                I, A, n = residual_moments(ns["residual"], elems[i], elems, rule)
            out.append(dict(index=i, elem=repr(elems[i]), mean=I, l1=A, ok=abs(I) <= C03_REL * A + C03_ABS))
        except Exception as exc:                                   # evaluating the residual raised: violation
            out.append(dict(index=i, elem=repr(elems[i]), raised="{}: {}".format(type(exc).__name__, exc), ok=False))
    return out


def _c03_solve_task(k):
    problem, domain, pw, spec = _G["combos"][k]
    t0 = time.time()
    try:
        ns = driver_state(problem, domain, pw, spec, None, _G["drv"])
        import numpy as np
        Phi = np.asarray(ns["Phi"], dtype=float)
        return dict(Phi=Phi, n=len(ns["elems"]), cond=float(np.linalg.cond(ns["mat"])), seconds=time.time() - t0,
                    finite=bool(np.all(np.isfinite(Phi))))
    except BaseException as exc:
        return dict(raised="{}: {}".format(type(exc).__name__, exc), tb=traceback.format_exc(limit=8)[-1200:],
                    seconds=time.time() - t0)


def _c03_elem_task(task):
    k, i = task
    st = _G["states"][k]
    elems = st["elems"]
    t0 = time.time()
    try:
        with quiet():
            I, A, n = residual_moments(st["residual"], elems[i], elems)
        return dict(mean=I, l1=A, points=n, seconds=time.time() - t0)
    except BaseException as exc:
        return dict(raised="{}: {}".format(type(exc).__name__, exc), tb=traceback.format_exc(limit=8)[-1200:], seconds=time.time() - t0)


def run_c03(chk, tier, seed, only=None):
    import numpy as np
    drv = DriverCode()
    combos = []
    for k, (problem, domain) in enumerate(C03_COMBOS):
        for pw in (False, True):
            if only and only != "{}_{}".format(problem, domain) and only != "{}_{}/pw={}".format(problem, domain, pw):
                continue
            combos.append((problem, domain, pw, c03_mesh_spec(tier, seed, 2 * k + int(pw))))
    if tier == "thorough" and not only:
        # meshes graded towards t = 0 (6 slabs down to 1/32) on the curves with the longest parameter length
        combos.append(("Dirichlet", "PiSquare", False, (104729 * seed + 7, 0, 0, 0.5, 200, 5)))
        combos.append(("MildSingular", "LShape", True, (104729 * seed + 8, 0, 0, 0.5, 200, 6)))
    _G.clear()
    _G.update(combos=combos, drv=drv)
    t_solve = time.time()
    solved = _pool_map(_c03_solve_task, range(len(combos)))
    t_solve = time.time() - t_solve
    states, tasks = {}, []
    raised = {}
    per_combo_cap = 32 if tier == "thorough" else 10 ** 9
    rng = random.Random(seed + 17)
    for k, (combo, sol) in enumerate(zip(combos, solved)):
        if "raised" in sol:
            raised[k] = sol
            continue
        try:
            ns = driver_state(*combo, Phi=sol["Phi"], drv=drv)
            states[k] = dict(residual=ns["residual"], elems=ns["elems"])
            if len(ns["elems"]) != sol["n"]:
                raise RuntimeError("mesh not reproducible: {} vs {} leaves".format(len(ns["elems"]), sol["n"]))
        except BaseException as exc:
            raised[k] = dict(raised="{}: {}".format(type(exc).__name__, exc), tb=traceback.format_exc(limit=8)[-1200:])
            continue
        idx = list(range(sol["n"]))
        if len(idx) > per_combo_cap:
            idx = sorted(rng.sample(idx, per_combo_cap))
        tasks += [(k, i) for i in idx]
    _G["states"] = states
    # biggest systems first (better balance)
    order = sorted(range(len(tasks)), key=lambda j: -solved[tasks[j][0]]["n"])
    t_int = time.time()
    outs_sorted = _pool_map(_c03_elem_task, [tasks[j] for j in order])
    t_int = time.time() - t_int
    outs = [None] * len(tasks)
    for j, o in zip(order, outs_sorted):
        outs[j] = o
    results, samples = [], []
    n_eval = 0
    # group by (problem, domain): both pw values reported in the same obligation pair
    for (problem, domain) in C03_COMBOS:
        ks = [k for k, c in enumerate(combos) if c[0] == problem and c[1] == domain]
        if not ks:
            continue
        tag = "{}_{}".format(problem, domain)
        bad_raise = [(k, raised[k]) for k in ks if k in raised]
        detail = dict(problem=problem, domain=domain, driver=drv.text(),
                      meshes={("pw=%s" % combos[k][2]): dict(spec=combos[k][3], leaves=solved[k].get("n"), cond=solved[k].get("cond"))
                              for k in ks})
        replay = None
        if bad_raise:
            k, info = bad_raise[0]
            detail.update(raised=info["raised"], traceback=info.get("tb"), pw=combos[k][2])
            replay = _c03_replay(combos[k], None)
        results.append(("{}/no-raise".format(tag), not bad_raise, detail, replay))
        rows = [(tasks[j], outs[j]) for j in range(len(tasks)) if tasks[j][0] in ks]
        n_eval += len(rows)
        worst, worst_ratio, viol, npts = None, -1.0, [], 0
        max_by_pw = {}
        for (k, i), o in rows:
            if "raised" in o:
                ratio, ok = float("inf"), False
            else:
                npts += o["points"]
                ratio = abs(o["mean"]) / o["l1"] if o["l1"] > 0 else (0.0 if o["mean"] == 0 else float("inf"))
                ok = abs(o["mean"]) <= C03_REL * o["l1"] + C03_ABS
            max_by_pw[combos[k][2]] = max(max_by_pw.get(combos[k][2], 0.0), ratio)
            if not ok:
                viol.append((k, i))
            if ratio > worst_ratio:
                worst_ratio, worst = ratio, ((k, i), o)
        detail = dict(problem=problem, domain=domain, elements=len(rows), residual_evaluations=npts, tolerance=[C03_REL, C03_ABS],
                      max_ratio=worst_ratio, violations=len(viol), driver=drv.text(),
                      **{"max_ratio[pw={}]".format(pw): v for pw, v in max_by_pw.items()})
        ok = bool(rows) and not viol
        replay = None
        if worst is not None:
            (k, i), o = worst
            detail["worst"] = dict(pw=combos[k][2], mesh_spec=combos[k][3], leaves=solved[k]["n"], elem_index=i,
                                   elem=repr(states[k]["elems"][i]), out={kk: vv for kk, vv in o.items() if kk != "tb"})
        if viol:
            (k, i) = viol[0] if worst is None else worst[0]
            replay = _c03_replay(combos[k], i)
            if "raised" in outs[tasks.index((k, i))]:
                detail["traceback"] = outs[tasks.index((k, i))].get("tb")
        if not rows:
            detail["note"] = "no residual could be built (see no-raise)"
            replay = replay or _c03_replay(combos[ks[0]], None)
        results.append(("{}/residual-has-zero-mean-per-element".format(tag), ok, detail, replay))
    samples.append(dict(driver=drv.text(), combos=len(combos), element_tasks=len(tasks), solve_seconds=round(t_solve, 1),
                        integrate_seconds=round(t_int, 1)))
    bound = ("problem x domain combinations accepted by the driver (Smooth: UnitSquare, PiSquare; Singular: UnitSquare, LShape; "
             "Dirichlet, MildSingular: UnitSquare, PiSquare, LShape, Circle) x straight-panel switch False/True; one seeded "
             "random-bisection mesh per combination (quick 8-18 leaves, thorough 20-150 leaves with at most 32 sampled leaves "
             "integrated per combination), aspect h_x^2/h_t <= 32; {drv}; use_mp=True patched to False; "
             "|int_E r| <= {rel:g} int_E |r| + {ab:g}, integrals by a composite Gauss({n}) rule split at interior mesh levels "
             "and graded (factor {ratio}) {lo}x towards the start and {hi}x towards the end of every time piece and {lx}x "
             "towards both ends of every space piece (fewer layers where a node would come closer than {dmin:g} to a panel end: "
             "SL.evaluate asserts a distance > 1e-5 there); reference error measured <= 1.3e-6 of int|r| on 60-72 leaf meshes "
             "(the pw_exact residual itself is orthogonal to ~1e-10 under a 150 000-point rule)").format(dmin=C03_RULE["dmin"], drv=drv.text(), rel=C03_REL, ab=C03_ABS, n=C03_RULE["n"],
                                                              ratio=C03_RULE["ratio"], lo=C03_RULE["lt_lo"],
                                                              hi=C03_RULE["lt_hi"], lx=C03_RULE["lx"])
    _report(chk, "C03", results, n_eval, bound, "one case per (problem, domain, clause); evaluations = leaves integrated", samples)


def _c03_replay(combo, elem_index):
    """targeted replay: one combination (one leaf); confirmed in-process"""
    problem, domain, pw, spec = combo
    code = ("from bounded import potential_rel as P\n"
            "out = P.c03_case({p!r}, {d!r}, {pw!r}, {spec!r}, elem_index={i!r})   # a raise of the driver statements is a violation too\n"
            "print(out)\nviolated = any(not o['ok'] for o in out)\n").format(p=problem, d=domain, pw=pw, spec=tuple(spec),
                                                                           i=0 if elem_index is None else elem_index)
    confirmed = True
    try:
        out = c03_case(problem, domain, pw, spec, elem_index=elem_index if elem_index is not None else 0)
        confirmed = any(not o["ok"] for o in out)
    except BaseException:
        confirmed = True
    return dict(code=code, confirmed=confirmed, raises_is_violation=True)


# ------------------------------------------------------------------------------------------------------
# reporting
# ------------------------------------------------------------------------------------------------------
def _jsonable(x):
    """strict-JSON friendly copy of a detail structure (inf/nan -> text, tuples -> lists, numpy scalars -> python)"""
    if isinstance(x, dict):
        return {str(k): _jsonable(v) for k, v in x.items()}
    if isinstance(x, (list, tuple)):
        return [_jsonable(v) for v in x]
    if isinstance(x, bool) or x is None or isinstance(x, (int, str)):
        return x
    try:
        f = float(x)
    except (TypeError, ValueError):
        return str(x)
    if f != f or f in (float("inf"), float("-inf")):
        return str(f)
    return int(x) if hasattr(x, "dtype") and "int" in str(getattr(x, "dtype", "")) else f


def _report(chk, pid, results, n_eval, bound, rule, samples):
    results = [(c, ok, _jsonable(d), r) for c, ok, d, r in results]
    samples = [_jsonable(x) for x in samples]
    for clause, ok, detail, replay in results:
        name = "{}/bounded/{}".format(pid, clause)
        if ok:
            chk.add(Ob(name, DISCHARGED, kind="bounded", backend="runtime-contract", detail=detail))
        else:
            chk.add(Ob(name, FAILED, kind="bounded", backend="runtime-contract", detail=detail, replay=replay))
    chk.add_bounded("{} potential relations".format(pid), n_eval, len(results), bound, rule,
                    list(samples)[:3] + [dict(clause=c, ok=ok, detail=d) for c, ok, d, _ in results[:3]])


def run(chk, prop, tier, seed, only=None):
    if prop == "C08":
        return run_c08(chk, tier, seed, only)
    if prop == "C03":
        return run_c03(chk, tier, seed, only)
    raise ValueError("potential_rel handles C03 and C08, not {}".format(prop))


def main(argv):
    from vlib.core import Check
    prop = argv[1] if len(argv) > 1 else "C08"
    tier = argv[2] if len(argv) > 2 else "quick"
    seed = int(argv[3]) if len(argv) > 3 else 0
    only = argv[4] if len(argv) > 4 else None
    chk = Check(prop, tier, seed, "other", "debug")
    t0 = time.time()
    run(chk, prop, tier, seed, only)
    keys = ("max_rel", "max_ratio", "cases", "n", "elements", "violations", "raised", "worst")
    for o in chk.obs:
        print(o.status, o.name, {k: v for k, v in o.detail.items() if k in keys or k.startswith("max_")})
    for k, b in chk.bounded.items():
        print("bounded:", k, "evaluations", b["evaluations"], "cases", b["distinct_nontrivial"])
    print("{} {} seed={} repo={} failed={} wall={:.1f}s".format(prop, tier, seed, REPO, sum(o.status == FAILED for o in chk.obs),
                                                               time.time() - t0))
    return 1 if any(o.status == FAILED for o in chk.obs) else 0


if __name__ == "__main__":
    sys.exit(main(sys.argv))
