"""Independent reference model of the space-time mesh (DESIGN section 2/3: `view`, `geo_nbrs`, `closure`).

This file deliberately imports NOTHING from the repository under verification.  A state is a set
of axis-parallel rectangles ``(t0, t1, x0, x1)`` with exact coordinates (``fractions.Fraction``;
any exact number type with +, /, comparisons works) together with the refinement levels
``(level_t, level_x)`` of each rectangle, plus the cylinder ``[t_min,t_max] x [x_min,x_max]`` and
the flag ``glued`` (x = x_min identified with x = x_max).

Sides of a rectangle: 0 bottom (t = t0), 1 right (x = x1), 2 top (t = t1), 3 left (x = x0); this is
the edge order of ``src.mesh.Element`` but that correspondence is only used by the explorer.
"""
import math
from fractions import Fraction

BOTTOM, RIGHT, TOP, LEFT = 0, 1, 2, 3
SIDES = (BOTTOM, RIGHT, TOP, LEFT)
OPPOSITE = (TOP, LEFT, BOTTOM, RIGHT)
SIDE_NAMES = ("bottom", "right", "top", "left")


def halves(rect, ax):
    """The two halves of `rect` bisected in axis `ax` (0 = time, 1 = space) at the exact midpoint."""
    t0, t1, x0, x1 = rect
    if ax == 0:
        m = (t0 + t1) / 2
        return (t0, m, x0, x1), (m, t1, x0, x1)
    m = (x0 + x1) / 2
    return (t0, t1, x0, m), (t0, t1, m, x1)


def area(rect):
    return (rect[1] - rect[0]) * (rect[3] - rect[2])


def contains(outer, inner):
    return outer[0] <= inner[0] and inner[1] <= outer[1] and outer[2] <= inner[2] and inner[3] <= outer[3]


def overlap_area_positive(a, b):
    return max(a[0], b[0]) < min(a[1], b[1]) and max(a[2], b[2]) < min(a[3], b[3])


class View:
    """Reference state: dict rect -> (level_t, level_x) + cylinder + glue flag (+ lazy line index)."""
    __slots__ = ("leaves", "glued", "t_min", "t_max", "x_min", "x_max", "_idx", "_cache")

    def __init__(self, leaves, glued, t_min, t_max, x_min, x_max):
        self.leaves = dict(leaves)
        self.glued = bool(glued)
        self.t_min, self.t_max, self.x_min, self.x_max = t_min, t_max, x_min, x_max
        self._idx = None
        self._cache = None      # (L, {rect: scaled integer rect}); append-only, shared between copies

    @classmethod
    def initial(cls, glued, space, time):
        leaves = {}
        for j in range(len(time) - 1):
            for i in range(len(space) - 1):
                leaves[(time[j], time[j + 1], space[i], space[i + 1])] = (0, 0)
        return cls(leaves, glued, time[0], time[-1], space[0], space[-1])

    def copy(self):
        v = View(self.leaves, self.glued, self.t_min, self.t_max, self.x_min, self.x_max)
        v._cache = self._cache
        return v

    def share_cache(self, other):
        """Reuse the (append-only) table rect -> scaled integers of another view of the same cylinder."""
        if other is not None and other._cache is not None:
            self._cache = other._cache
        return self

    def key(self):
        return frozenset(self.leaves)

    def __len__(self):
        return len(self.leaves)

    # -- line index ------------------------------------------------------------------------------------
    # Purely an accelerator of the exact geometry: all coordinates are multiplied by a common denominator
    # `L` (lcm of the denominators, times 4 as head room for new midpoints) so that the comparisons in
    # geo_nbrs are integer comparisons.  idx[k][c] = set of leaves whose k-th coordinate (t0,t1,x0,x1) is c.
    def index(self, min_scale=1):
        if self._idx is None:
            cache = self._cache
            if cache is not None and cache[0] is not None and cache[0] % min_scale == 0:
                L, table = cache
                ir = {}
                for r in self.leaves:
                    q = table.get(r)
                    if q is None:
                        q = []
                        for c in r:
                            v = c * L
                            if v.denominator != 1:
                                q = None
                                break
                            q.append(v.numerator)
                        if q is None:
                            ir = None       # a coordinate off this lattice: rebuild with a finer scale
                            break
                        q = table[r] = tuple(q)
                    ir[r] = q
            else:
                ir = None
            if ir is None:
                dens = set()
                for r in self.leaves:
                    for c in r:
                        dens.add(getattr(c, "denominator", None))
                for c in (self.x_min, self.x_max):
                    dens.add(getattr(c, "denominator", None))
                if None in dens:            # not rationals (float coordinates): compare the numbers themselves
                    L = None
                else:
                    L = math.lcm(4 * math.lcm(*dens), min_scale)
                ir = {r: (r if L is None else tuple(int(c * L) for c in r)) for r in self.leaves}
                self._cache = (L, dict(ir))
            idx = ({}, {}, {}, {})
            for r, q in ir.items():
                for k in range(4):
                    idx[k].setdefault(q[k], set()).add(r)
            seam = (self.x_min, self.x_max) if L is None else (int(self.x_min * L), int(self.x_max * L))
            self._idx = (idx, ir, L, seam)
        return self._idx

    def to_int(self, rect):
        """Scaled integer coordinates of an arbitrary rectangle (None if not representable at this scale)."""
        idx, ir, L, _ = self.index()
        q = ir.get(rect)
        if q is not None or L is None:
            return q if q is not None else rect
        out = []
        for c in rect:
            v = c * L
            if getattr(v, "denominator", 1) != 1:
                return None
            out.append(int(v))
        return tuple(out)

    def bisect(self, rect, ax):
        """Replace leaf `rect` by its two halves in axis `ax` (level[ax] + 1). No closure."""
        lv = self.leaves.pop(rect)
        new_lv = (lv[0] + 1, lv[1]) if ax == 0 else (lv[0], lv[1] + 1)
        h = halves(rect, ax)
        for c in h:
            assert c not in self.leaves
            self.leaves[c] = new_lv
        if self._idx is not None:
            idx, ir, L, _ = self._idx
            q = ir[rect]
            lo, hi = (q[0], q[1]) if ax == 0 else (q[2], q[3])
            if L is not None and (lo + hi) % 2:
                self._idx = None        # midpoint not on the integer lattice: rebuild lazily at a finer scale
                return h
            m = (lo + hi) // 2 if L is not None else (lo + hi) / 2
            qs = ((q[0], m, q[2], q[3]), (m, q[1], q[2], q[3])) if ax == 0 else \
                 ((q[0], q[1], q[2], m), (q[0], q[1], m, q[3]))
            del ir[rect]
            for k in range(4):
                idx[k][q[k]].discard(rect)
            for c, qc in zip(h, qs):
                ir[c] = qc
                if L is not None:
                    self._cache[1][c] = qc
                for k in range(4):
                    idx[k].setdefault(qc[k], set()).add(c)
        return h


def geo_nbrs(view, rect, side):
    """Leaves of `view` that share a piece of positive length of side `side` of `rect`.

    When the view is glued, the lines x = x_min and x = x_max are identified for the left/right sides.
    `rect` itself can be among the result (one root around a glued cylinder)."""
    idx, ir, L, seam = view.index()
    q = view.to_int(rect)
    if q is None:                       # rectangle off the integer lattice: re-index on a finer one
        view._idx = None
        idx, ir, L, seam = view.index(min_scale=L * math.lcm(*[c.denominator for c in rect]))
        q = view.to_int(rect)
    t0, t1, x0, x1 = q
    it0, it1, ix0, ix1 = idx
    out = set()
    if side == BOTTOM or side == TOP:
        cands = it1.get(t0, ()) if side == BOTTOM else it0.get(t1, ())
        for c in cands:
            qc = ir[c]
            if qc[2] < x1 and x0 < qc[3]:
                out.add(c)
        return out
    if side == RIGHT:
        line = x1
        if view.glued and rect[3] == view.x_max:
            line = seam[0]
        cands = ix0.get(line, ())
    else:
        line = x0
        if view.glued and rect[2] == view.x_min:
            line = seam[1]
        cands = ix1.get(line, ())
    for c in cands:
        qc = ir[c]
        if qc[0] < t1 and t0 < qc[1]:
            out.add(c)
    return out


def all_nbrs(view, rect):
    out = set()
    for s in SIDES:
        out |= geo_nbrs(view, rect, s)
    return out


def on_outer_boundary(view, rect, side):
    """Geometric boundary of the cylinder (the seam of a glued view is NOT an outer boundary)."""
    if side == BOTTOM:
        return rect[0] == view.t_min
    if side == TOP:
        return rect[1] == view.t_max
    if view.glued:
        return False
    return rect[3] == view.x_max if side == RIGHT else rect[2] == view.x_min


def on_seam(view, rect, side):
    if not view.glued:
        return False
    return (side == RIGHT and rect[3] == view.x_max) or (side == LEFT and rect[2] == view.x_min)


# ---------------------------------------------------------------------------------------------------
# closure, formulation 1: the recursive rule (reference semantics of refine_axis)
# ---------------------------------------------------------------------------------------------------
def _closure_rec(w, rect, ax, pick, log):
    lvl = w.leaves[rect][ax]
    while True:
        lower = [n for n in all_nbrs(w, rect) if w.leaves[n][ax] < lvl]
        if not lower:
            break
        _closure_rec(w, pick(lower), ax, pick, log)
        assert rect in w.leaves, "reference: recursion bisected the requesting leaf"
    w.bisect(rect, ax)
    if log is not None:
        log.append(rect)


def closure_refine(view, rect, ax, pick=min, log=None):
    """Reference semantics of `refine_axis`: to bisect leaf `rect` in axis `ax`, first bisect (same rule,
    recursively) every edge-neighbour across any of the four sides whose level[ax] is lower; neighbours are
    re-evaluated after each recursive bisection, so the result does not depend on `pick`."""
    assert rect in view.leaves, "closure_refine: not a leaf: %r" % (rect,)
    w = view.copy()
    _closure_rec(w, rect, ax, pick, log)
    return w


# ---------------------------------------------------------------------------------------------------
# closure, formulation 2: least fixed point (minimality oracle)
# ---------------------------------------------------------------------------------------------------
def irregular_pairs(view, ax, limit=None):
    """Pairs (fine, coarse) of edge-neighbours whose level[ax] differs by more than one."""
    out = []
    for r, lv in view.leaves.items():
        for n in all_nbrs(view, r):
            if view.leaves[n][ax] < lv[ax] - 1:
                out.append((r, n))
                if limit and len(out) >= limit:
                    return out
    return out


FULL_SCAN_LIMIT = 80


def closure_fixpoint(view, rect, ax, pick=min):
    """Least 1-irregular (in axis ax) refinement of `view` containing the bisection of `rect` in `ax`:
    start with the requested bisection; while some leaf has an edge-neighbour whose level[ax] is lower by
    more than one, bisect that coarser neighbour in `ax`.

    Views with at most FULL_SCAN_LIMIT leaves (all states of the exhaustive exploration) are re-scanned
    completely in every round; on larger views (random histories) only the neighbourhoods of leaves created in
    this call are scanned, i.e. the previous view is taken to be 1-irregular (which the explorer has checked
    on the previous step)."""
    w = view.copy()
    fresh = list(w.bisect(rect, ax))
    while True:
        if len(w.leaves) <= FULL_SCAN_LIMIT:
            bad = irregular_pairs(w, ax)
        else:
            bad = []
            for r in fresh:
                if r not in w.leaves:
                    continue
                lv = w.leaves[r][ax]
                for n in all_nbrs(w, r):
                    d = w.leaves[n][ax] - lv
                    if d < -1:
                        bad.append((r, n))
                    elif d > 1:
                        bad.append((n, r))
        if not bad:
            return w
        coarse = pick(sorted({c for _, c in bad}))
        fresh.extend(w.bisect(coarse, ax))


def overlapping_pair(view):
    """Two leaves of the view overlapping in positive area, or None (exact; sweep over t0)."""
    idx, ir, L, _ = view.index()
    items = sorted(ir.items(), key=lambda kv: (kv[1][0], kv[1][2]))
    n = len(items)
    for i in range(n):
        r, q = items[i]
        for j in range(i + 1, n):
            r2, q2 = items[j]
            if q2[0] >= q[1]:
                break
            if q2[2] < q[3] and q[2] < q2[3]:
                return r, r2
    return None


# ---------------------------------------------------------------------------------------------------
# "contains the bisection" for rectangles that may already have been refined
# ---------------------------------------------------------------------------------------------------
def leaves_inside(view, rect):
    return [r for r in view.leaves if contains(rect, r)]


def crossing_leaves(view, rect, ax):
    """Leaves inside `rect` that straddle the midline of `rect` in axis `ax` (so the bisection of `rect` in
    `ax` is not yet contained in the view)."""
    lo, hi = (rect[0], rect[1]) if ax == 0 else (rect[2], rect[3])
    m = (lo + hi) / 2
    k = 0 if ax == 0 else 2
    return [r for r in view.leaves if contains(rect, r) and r[k] < m < r[k + 1]]


def ensure_bisected(view, rect, ax, pick=min):
    """Smallest 1-irregular refinement of `view` in which no leaf inside `rect` straddles the midline of
    `rect` in axis `ax`.  If `rect` is a leaf this is closure_refine."""
    w = view
    while True:
        cr = crossing_leaves(w, rect, ax)
        if not cr:
            return w if w is not view else view.copy()
        w = closure_refine(w, pick(cr), ax, pick=pick)


def refines(new_view, old_view):
    """Every old leaf is tiled by new leaves (ancestors-or-self)."""
    new = list(new_view.leaves)
    for o in old_view.leaves:
        if o in new_view.leaves:
            continue
        s = 0
        for r in new:
            if contains(o, r):
                s += area(r)
            elif overlap_area_positive(o, r):
                return False
        if s != area(o):
            return False
    return True


def frac_str(q):
    return str(q)


def parse_num(s):
    return Fraction(s)
