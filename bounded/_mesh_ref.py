"""Independent reference model of the space-time mesh (DESIGN section 2/3: `view`, `geo_nbrs`, `closure`).

This file deliberately imports NOTHING from the repository under verification.  A state is a set
of axis-parallel rectangles ``(t0, t1, x0, x1)`` with exact coordinates (``fractions.Fraction``;
any exact number type with +, /, comparisons works) together with the refinement levels
``(level_t, level_x)`` of each rectangle, plus the cylinder ``[t_min,t_max] x [x_min,x_max]`` and
the flag ``glued`` (x = x_min identified with x = x_max).

Sides of a rectangle: 0 bottom (t = t0), 1 right (x = x1), 2 top (t = t1), 3 left (x = x0); this is
the edge order of ``src.mesh.Element`` but that correspondence is only used by the explorer.
"""
from fractions import Fraction

BOTTOM, RIGHT, TOP, LEFT = 0, 1, 2, 3
SIDES = (BOTTOM, RIGHT, TOP, LEFT)
OPPOSITE = (TOP, LEFT, BOTTOM, RIGHT)
SIDE_NAMES = ("bottom", "right", "top", "left")


def halves(rect, ax):
    """The two halves of `rect` bisected in axis `ax` (0 = time, 1 = space) at the exact midpoint."""
    t0, t1, x0, x1 = rect
    if ax == 0:
        m = (t0 + t1) / 2
        return (t0, m, x0, x1), (m, t1, x0, x1)
    m = (x0 + x1) / 2
    return (t0, t1, x0, m), (t0, t1, m, x1)


def area(rect):
    return (rect[1] - rect[0]) * (rect[3] - rect[2])


def contains(outer, inner):
    return outer[0] <= inner[0] and inner[1] <= outer[1] and outer[2] <= inner[2] and inner[3] <= outer[3]


def overlap_area_positive(a, b):
    return max(a[0], b[0]) < min(a[1], b[1]) and max(a[2], b[2]) < min(a[3], b[3])


class View:
    """Reference state: dict rect -> (level_t, level_x) + cylinder + glue flag (+ lazy line index)."""
    __slots__ = ("leaves", "glued", "t_min", "t_max", "x_min", "x_max", "_idx")

    def __init__(self, leaves, glued, t_min, t_max, x_min, x_max):
        self.leaves = dict(leaves)
        self.glued = bool(glued)
        self.t_min, self.t_max, self.x_min, self.x_max = t_min, t_max, x_min, x_max
        self._idx = None

    @classmethod
    def initial(cls, glued, space, time):
        leaves = {}
        for j in range(len(time) - 1):
            for i in range(len(space) - 1):
                leaves[(time[j], time[j + 1], space[i], space[i + 1])] = (0, 0)
        return cls(leaves, glued, time[0], time[-1], space[0], space[-1])

    def copy(self):
        return View(self.leaves, self.glued, self.t_min, self.t_max, self.x_min, self.x_max)

    def key(self):
        return frozenset(self.leaves)

    def __len__(self):
        return len(self.leaves)

    # -- line index: coordinate -> set of leaves having that coordinate as t0 / t1 / x0 / x1 ---------------
    def index(self):
        if self._idx is None:
            idx = ({}, {}, {}, {})
            for r in self.leaves:
                for k in range(4):
                    idx[k].setdefault(r[k], set()).add(r)
            self._idx = idx
        return self._idx

    def bisect(self, rect, ax):
        """Replace leaf `rect` by its two halves in axis `ax` (level[ax] + 1). No closure."""
        lv = self.leaves.pop(rect)
        new_lv = (lv[0] + 1, lv[1]) if ax == 0 else (lv[0], lv[1] + 1)
        h = halves(rect, ax)
        for c in h:
            assert c not in self.leaves
            self.leaves[c] = new_lv
        if self._idx is not None:
            for k in range(4):
                self._idx[k][rect[k]].discard(rect)
                for c in h:
                    self._idx[k].setdefault(c[k], set()).add(c)
        return h


def geo_nbrs(view, rect, side):
    """Leaves of `view` that share a piece of positive length of side `side` of `rect`.

    When the view is glued, the lines x = x_min and x = x_max are identified for the left/right sides.
    `rect` itself can be among the result (one root around a glued cylinder)."""
    t0, t1, x0, x1 = rect
    it0, it1, ix0, ix1 = view.index()
    out = set()
    if side == BOTTOM or side == TOP:
        cands = it1.get(t0, ()) if side == BOTTOM else it0.get(t1, ())
        for c in cands:
            if max(c[2], x0) < min(c[3], x1):
                out.add(c)
        return out
    if side == RIGHT:
        line = x1
        if view.glued and x1 == view.x_max:
            line = view.x_min
        cands = ix0.get(line, ())
    else:
        line = x0
        if view.glued and x0 == view.x_min:
            line = view.x_max
        cands = ix1.get(line, ())
    for c in cands:
        if max(c[0], t0) < min(c[1], t1):
            out.add(c)
    return out


def all_nbrs(view, rect):
    out = set()
    for s in SIDES:
        out |= geo_nbrs(view, rect, s)
    return out


def on_outer_boundary(view, rect, side):
    """Geometric boundary of the cylinder (the seam of a glued view is NOT an outer boundary)."""
    if side == BOTTOM:
        return rect[0] == view.t_min
    if side == TOP:
        return rect[1] == view.t_max
    if view.glued:
        return False
    return rect[3] == view.x_max if side == RIGHT else rect[2] == view.x_min


def on_seam(view, rect, side):
    if not view.glued:
        return False
    return (side == RIGHT and rect[3] == view.x_max) or (side == LEFT and rect[2] == view.x_min)


# ---------------------------------------------------------------------------------------------------
# closure, formulation 1: the recursive rule (reference semantics of refine_axis)
# ---------------------------------------------------------------------------------------------------
def _closure_rec(w, rect, ax, pick, log):
    lvl = w.leaves[rect][ax]
    while True:
        lower = [n for n in all_nbrs(w, rect) if w.leaves[n][ax] < lvl]
        if not lower:
            break
        _closure_rec(w, pick(lower), ax, pick, log)
        assert rect in w.leaves, "reference: recursion bisected the requesting leaf"
    w.bisect(rect, ax)
    if log is not None:
        log.append(rect)


def closure_refine(view, rect, ax, pick=min, log=None):
    """Reference semantics of `refine_axis`: to bisect leaf `rect` in axis `ax`, first bisect (same rule,
    recursively) every edge-neighbour across any of the four sides whose level[ax] is lower; neighbours are
    re-evaluated after each recursive bisection, so the result does not depend on `pick`."""
    assert rect in view.leaves, "closure_refine: not a leaf: %r" % (rect,)
    w = view.copy()
    _closure_rec(w, rect, ax, pick, log)
    return w


# ---------------------------------------------------------------------------------------------------
# closure, formulation 2: least fixed point (minimality oracle)
# ---------------------------------------------------------------------------------------------------
def irregular_pairs(view, ax, limit=None):
    """Pairs (fine, coarse) of edge-neighbours whose level[ax] differs by more than one."""
    out = []
    for r, lv in view.leaves.items():
        for n in all_nbrs(view, r):
            if view.leaves[n][ax] < lv[ax] - 1:
                out.append((r, n))
                if limit and len(out) >= limit:
                    return out
    return out


def closure_fixpoint(view, rect, ax, pick=min):
    """Least 1-irregular (in axis ax) refinement of `view` containing the bisection of `rect` in `ax`:
    start with the requested bisection; while some leaf has an edge-neighbour whose level[ax] is lower by
    more than one, bisect that coarser neighbour in `ax`."""
    w = view.copy()
    w.bisect(rect, ax)
    while True:
        bad = irregular_pairs(w, ax)
        if not bad:
            return w
        coarse = pick(sorted({c for _, c in bad}))
        w.bisect(coarse, ax)


# ---------------------------------------------------------------------------------------------------
# "contains the bisection" for rectangles that may already have been refined
# ---------------------------------------------------------------------------------------------------
def leaves_inside(view, rect):
    return [r for r in view.leaves if contains(rect, r)]


def crossing_leaves(view, rect, ax):
    """Leaves inside `rect` that straddle the midline of `rect` in axis `ax` (so the bisection of `rect` in
    `ax` is not yet contained in the view)."""
    lo, hi = (rect[0], rect[1]) if ax == 0 else (rect[2], rect[3])
    m = (lo + hi) / 2
    k = 0 if ax == 0 else 2
    return [r for r in view.leaves if contains(rect, r) and r[k] < m < r[k + 1]]


def ensure_bisected(view, rect, ax, pick=min):
    """Smallest 1-irregular refinement of `view` in which no leaf inside `rect` straddles the midline of
    `rect` in axis `ax`.  If `rect` is a leaf this is closure_refine."""
    w = view
    while True:
        cr = crossing_leaves(w, rect, ax)
        if not cr:
            return w if w is not view else view.copy()
        w = closure_refine(w, pick(cr), ax, pick=pick)


def refines(new_view, old_view):
    """Every old leaf is tiled by new leaves (ancestors-or-self)."""
    new = list(new_view.leaves)
    for o in old_view.leaves:
        if o in new_view.leaves:
            continue
        s = 0
        for r in new:
            if contains(o, r):
                s += area(r)
            elif overlap_area_positive(o, r):
                return False
        if s != area(o):
            return False
    return True


def frac_str(q):
    return str(q)


def parse_num(s):
    return Fraction(s)
