"""Bounded run-time contracts for C09 (Sobolev / weighted-L2 indicators) and C20 (h-h/2, hierarchical estimators).

C09: estimate_sobolev / estimate_weighted_l2 on real meshes against per-patch reference values computed independently
     (geometric neighbours from the leaf rectangles; H^{1/2} double integral on the union arc with Euclidean distances by
     Duffy + dyadically graded Gauss); serial == pool; symmetry shortcut == full evaluation.
C20: HierarchicalErrorEstimator.estimate against the definition assembled from single-pair bilform calls on independently
     built quarters; HH2ErrorEstimator.estimate against a really bisected copy of the mesh.
Bounds are stated in the evidence (curves, meshes, orders, tolerances).
"""
import contextlib
import io
import math
import random
import sys

from vlib.core import REPO, Ob, DISCHARGED, FAILED

if REPO not in sys.path:
    sys.path.insert(0, REPO)


@contextlib.contextmanager
def quiet():
    with contextlib.redirect_stdout(io.StringIO()):
        yield


def arch_window():
    """a closed arc-length curve whose pieces are NOT congruent: three straight sides (lengths 4/pi, 2, 2) and a semicircle of
    arc length 2 -- equal element sizes occur on the arc and on the straight sides (a custom curve of the supported kind:
    PiecewiseParametrization with arc-length pieces)"""
    import numpy as np
    from src import parametrization as P
    r = 2 / np.pi
    w, hgt = 2 * r, 2.0
    l0, _ = P.line(np.array([0.0, 0.0]), np.array([w, 0.0]), 0.0)
    l1, _ = P.line(np.array([w, 0.0]), np.array([w, hgt]), w)
    s2 = w + hgt

    def arc(x_hat):
        th = (np.asarray(x_hat) - s2) / r
        return np.vstack([w / 2 + r * np.cos(th), hgt + r * np.sin(th)])
    s3 = s2 + np.pi * r
    l3, _ = P.line(np.array([0.0, hgt]), np.array([0.0, 0.0]), s3)
    return P.PiecewiseParametrization([0, w, s2, s3, s3 + hgt], [l0, l1, arc, l3])


def build_mesh(curve, history_seed, steps, time_grid=None, pre=None):
    from src import parametrization as P
    from src.mesh import MeshParametrized
    rng = random.Random(history_seed)
    with quiet():
        g = arch_window() if curve == "ArchWindow" else getattr(P, curve)()
        mesh = MeshParametrized(g, initial_time_mesh=time_grid or [0, 1])
        if curve == "LShape":
            for e in list(mesh.leaf_elements):
                if e.h_x > 1:
                    mesh.refine_space(e)
        for op in (pre or []):
            getattr(mesh, op)()
        for _ in range(steps):
            leaves = list(mesh.leaf_elements)
            k = rng.randrange(len(leaves))
            ax = 1 if rng.random() < 0.6 else 0
            e = leaves[k]
            if ax == 0 and e.h_x ** 2 / (e.h_t / 2) > 32:      # keep the parabolic aspect moderate
                ax = 1
            mesh.refine_axis(e, ax)
    return mesh


# ------------------------------------------------------------------------------------------------------
# C20

def quarters(e):
    """independent construction of the four quarters (time half, space half) of an element"""
    from src.mesh import Vertex
    from src.hierarchical_error_estimator import DummyElement
    t0, t1 = e.time_interval
    x0, x1 = e.space_interval
    tm, xm = (t0 + t1) / 2, (x0 + x1) / 2
    out = {}
    for kt, (ta, tb) in enumerate(((t0, tm), (tm, t1))):
        for kx, (xa, xb) in enumerate(((x0, xm), (xm, x1))):
            vs = [Vertex(ta, xa, -1), Vertex(ta, xb, -1), Vertex(tb, xb, -1), Vertex(tb, xa, -1)]
            out[(kt, kx)] = DummyElement(vs, e.gamma_space)
    return out


def hier_definition(SL, elems, Phi, glin):
    import numpy as np
    res = []
    for e in elems:
        q = quarters(e)
        vals = []
        for sign in (lambda kt, kx: 1 if kt == 0 else -1, lambda kt, kx: 1 if kx == 0 else -1,
                     lambda kt, kx: 1 if kt == kx else -1):
            num = 0.0
            for key, qe in q.items():
                vphi = sum(Phi[j] * SL.bilform(tr, qe) for j, tr in enumerate(elems))
                num += sign(*key) * (glin(qe) - vphi)
            den = sum(sign(*ka) * sign(*kb) * SL.bilform(q[kb], q[ka]) for ka in q for kb in q)
            vals.append(num * num / den)
        res.append((vals[0] + vals[2] / 2, vals[1] + vals[2] / 2))
    return np.array(res)


def c20_cases(tier):
    cases = [("UnitSquare", 1, 3, None), ("LShape", 2, 2, None), ("Circle", 3, 3, None), ("UnitSquare", 4, 2, [0, 0.25, 1]),
             ("ArchWindow", 5, 2, [0, 0.5, 1])]
    if tier == "thorough":
        cases += [("PiSquare", 5, 6, None), ("LShape", 6, 6, [0, 0.5, 1]), ("Circle", 7, 8, None)]
    return cases


def prolong_ref(vec, coarse, fine):
    """independent piecewise-constant extension: the coarse element whose rectangle contains the fine element's centre"""
    import numpy as np
    out = np.zeros(len(fine))
    for j, f in enumerate(fine):
        tc, xc = sum(f.time_interval) / 2, sum(f.space_interval) / 2
        hit = [i for i, c in enumerate(coarse)
               if c.time_interval[0] < tc < c.time_interval[1] and c.space_interval[0] < xc < c.space_interval[1]]
        assert len(hit) == 1, "reference: coarse elements must tile"
        out[j] = vec[hit[0]]
    return out


class _Timeout(Exception):
    pass


@contextlib.contextmanager
def time_limit(seconds):
    import signal

    def handler(signum, frame):
        raise _Timeout()
    old = signal.signal(signal.SIGALRM, handler)
    signal.alarm(seconds)
    try:
        yield
    finally:
        signal.alarm(0)
        signal.signal(signal.SIGALRM, old)


def run_prolongate(chk, tier, seed, report=True):
    """src.mesh.Prolongate on nested meshes: coarse = leaves at some point of a bisection history, fine = leaves 0..3 levels
    later (mixed: some coarse elements stay leaves); values compared with the geometric reference, bitwise"""
    import numpy as np
    from src.mesh import Prolongate
    results, n_eval = [], 0
    cases = [("UnitSquare", 1, 2, 5), ("Circle", 2, 3, 9), ("LShape", 3, 0, 6), ("UnitSquare", 4, 4, 0), ("UnitSquare", 5, 3, 14)]
    if tier == "thorough":
        cases += [("PiSquare", 6, 6, 25), ("Circle", 7, 8, 40), ("LShape", 8, 5, 30)]
    for curve, hs, steps, extra in cases:
        mesh = build_mesh(curve, hs + 1000 * seed, steps)
        coarse = list(mesh.leaf_elements)
        rng = random.Random(77 + hs + seed)
        with quiet():
            for _ in range(extra):
                leaves = list(mesh.leaf_elements)
                mesh.refine_axis(leaves[rng.randrange(len(leaves))], rng.randrange(2))
        fine = list(mesh.leaf_elements)
        rng.shuffle(coarse)
        rng.shuffle(fine)
        vec = np.array([rng.uniform(-1, 1) for _ in coarse])
        name = "Prolongate/{}/steps={}+{}".format(curve, steps, extra)
        detail = dict(curve=curve, history_seed=hs, n_coarse=len(coarse), n_fine=len(fine))
        try:
            with time_limit(30):
                got = Prolongate(vec, coarse, fine)
            want = prolong_ref(vec, coarse, fine)
            ok = got.shape == want.shape and bool(np.all(got == want))
            if not ok:
                bad = [j for j in range(len(fine)) if got[j] != want[j]][:3]
                detail["first_bad"] = [(fine[j].time_interval, fine[j].space_interval, float(got[j]), float(want[j])) for j in bad]
        except _Timeout:
            ok, detail["error"] = False, "Prolongate did not return within 30 s"
        except Exception as e:
            ok, detail["error"] = False, repr(e)[:300]
        n_eval += len(fine)
        results.append((name, ok, detail))
    if report:
        _report(chk, "C20", results, n_eval, "nested mesh pairs from seeded bisection histories (0-3 levels between coarse and fine, shuffled "
                "element orders); values bitwise equal to the geometric reference", "run_prolongate", tier, seed)
    return results


def run_c20(chk, tier, seed):
    import numpy as np
    from src.single_layer import SingleLayerOperator
    from src.hierarchical_error_estimator import HierarchicalErrorEstimator
    from src.h_h2_error_estimator import HH2ErrorEstimator
    results = []
    n_eval = 0
    for (curve, hs, steps, tg) in c20_cases(tier) + [("UnitSquare", 0, 12 if tier == "thorough" else 11, "deep-corner")]:
        if tg == "deep-corner":
            # isotropic refinement towards the corner (t, x) = (0, 0): two-level energies <V psi, psi> down to 1e-11 -- the
            # indicators are RELATIVE quantities and must not contain absolute thresholds (fourth-round seed)
            from src import parametrization as P_
            from src.mesh import MeshParametrized
            with quiet():
                mesh = MeshParametrized(P_.UnitSquare())
                for _ in range(steps):
                    e0 = min(mesh.leaf_elements, key=lambda e: (e.time_interval[0], e.space_interval[0], e.h_t, e.h_x))
                    mesh.refine(e0)
        else:
            mesh = build_mesh(curve, hs + 1000 * seed, steps, tg)
        elems = list(mesh.leaf_elements)
        rng = np.random.default_rng(hs + seed)
        Phi = rng.normal(size=len(elems))
        glin_vec = lambda es: np.array([1 / 3 * e.h_x * (e.time_interval[1] ** 3 - e.time_interval[0] ** 3) for e in es])
        glin = lambda e: 1 / 3 * e.h_x * (e.time_interval[1] ** 3 - e.time_interval[0] ** 3)
        for pw in (False, True):
            with quiet():
                SL = SingleLayerOperator(mesh, pw_exact=pw)
                got = HierarchicalErrorEstimator(SL=SL, g=glin_vec).estimate(elems, Phi)
                want = hier_definition(SL, elems, Phi, glin)
            n_eval += len(elems)
            rel = float(np.max(np.abs(got - want) / np.maximum(np.abs(want), 1e-300)))
            ok = rel <= 1e-8 and bool(np.all(got >= 0))
            results.append(("hierarchical/{}/steps={}/pw={}".format(curve, steps, pw), ok,
                            dict(curve=curve, history_seed=hs, steps=steps, time_grid=tg, n=len(elems), max_rel=rel)))
        if tg == "deep-corner":
            continue            # (the fine system of the h-h/2 estimator is too ill-conditioned for a 1e-7 comparison there)
        with quiet():
            SL = SingleLayerOperator(mesh)
            got = float(HH2ErrorEstimator(SL=SL, g=glin_vec, use_mp=False).estimate(elems, Phi))
            mesh2 = build_mesh(curve, hs + 1000 * seed, steps, tg)
            coarse2 = list(mesh2.leaf_elements)
            mesh2.uniform_refine()
            fine = list(mesh2.leaf_elements)
            SL2 = SingleLayerOperator(mesh2)
            A = np.array([[SL2.bilform(tr, te) for tr in fine] for te in fine])
            y = np.linalg.solve(A, glin_vec(fine))
            d = y - prolong_ref(Phi, coarse2, fine)
            want = float(np.sqrt(d @ A @ d))
        n_eval += len(fine)
        rel = abs(got - want) / max(abs(want), 1e-300)
        results.append(("h-h/2/{}/steps={}".format(curve, steps), rel <= 1e-7 and len(fine) == 4 * len(elems),
                        dict(curve=curve, history_seed=hs, steps=steps, n=len(elems), got=got, want=want, rel=rel)))
        # homogeneity: both estimators are defined through linear maps of (data, density); scaling both by a power of two scales the
        # h-h/2 value by the same factor and the hierarchical indicators by its square, exactly in floating point up to the solver
        # (squared local errors of size 1e-12 .. 1e-24 occur late in an adaptive run; nothing may depend on absolute magnitudes)
        for sc in (2.0 ** -40, 2.0 ** 40):
            g_s = (lambda es, sc=sc: sc * glin_vec(es))
            with quiet():
                hh2_1 = float(HH2ErrorEstimator(SL=SL, g=glin_vec, use_mp=False).estimate(elems, Phi))
                hh2_s = float(HH2ErrorEstimator(SL=SL, g=g_s, use_mp=False).estimate(elems, sc * Phi))
                hi_1 = HierarchicalErrorEstimator(SL=SL, g=glin_vec).estimate(elems, Phi)
                hi_s = HierarchicalErrorEstimator(SL=SL, g=g_s).estimate(elems, sc * Phi)
            n_eval += 4 * len(elems)
            r_hh2 = abs(hh2_s - sc * hh2_1) / max(abs(sc * hh2_1), 1e-300)
            r_hi = float(np.max(np.abs(hi_s - sc * sc * hi_1) / np.maximum(np.abs(sc * sc * hi_1), 1e-300)))
            results.append(("homogeneous-in-data-and-density/{}/steps={}/scale=2^{}".format(curve, steps, int(round(math.log2(sc)))),
                            r_hh2 <= 1e-9 and r_hi <= 1e-9, dict(curve=curve, scale=sc, hh2=(hh2_s, sc * hh2_1), rel_hh2=r_hh2, rel_hier=r_hi)))
        # the second call on the SAME estimator objects, with the element list (and the density) in another order, must give what
        # fresh estimator objects give: nothing may be kept between calls that depends on the order of the list
        perm = list(range(len(elems)))
        random.Random(5 + hs).shuffle(perm)
        elems_p, Phi_p = [elems[i] for i in perm], Phi[perm]
        with quiet():
            hh2 = HH2ErrorEstimator(SL=SL, g=glin_vec, use_mp=False)
            hier = HierarchicalErrorEstimator(SL=SL, g=glin_vec)
            hh2.estimate(elems, Phi)
            hier.estimate(elems, Phi)
            again_hh2 = float(hh2.estimate(elems_p, Phi_p))
            again_hier = hier.estimate(elems_p, Phi_p)
            fresh_hh2 = float(HH2ErrorEstimator(SL=SL, g=glin_vec, use_mp=False).estimate(elems_p, Phi_p))
            fresh_hier = HierarchicalErrorEstimator(SL=SL, g=glin_vec).estimate(elems_p, Phi_p)
        n_eval += 4 * len(elems)
        ok_re = bool(again_hh2 == fresh_hh2 and np.all(again_hier == fresh_hier))
        results.append(("second-call-with-permuted-list-equals-fresh-estimator/{}/steps={}".format(curve, steps), ok_re,
                        dict(curve=curve, hh2=(again_hh2, fresh_hh2))))
    _report(chk, "C20", results, n_eval, "curves UnitSquare/LShape/Circle(/PiSquare), seeded random bisection histories of 2-8 steps, non-uniform "
            "time grids, random densities, Dirichlet data g = t^2; hierarchical rel 1e-8, h-h/2 rel 1e-7", "run_c20", tier, seed)


# ------------------------------------------------------------------------------------------------------
# C09

def gauss(n):
    import numpy as np
    x, w = np.polynomial.legendre.leggauss(n)
    return 0.5 * (x + 1), 0.5 * w


def ref_diag(F, a, b, n=28):
    """int_a^b int_a^b F(x, y) dy dx for symmetric bounded F, smooth off the diagonal (Duffy on the triangle y < x)"""
    import numpy as np
    x, w = gauss(n)
    X = a + (b - a) * x[:, None] + 0 * x[None, :]
    Y = a + (X - a) * x[None, :]
    return 2 * float(np.sum(w[:, None] * w[None, :] * (b - a) * (X - a) * F(X, Y)))


def ref_cross(F, a1, b1, a2, b2, n=20, levels=34):
    """int_{a1}^{b1} int_{a2}^{b2} F(x, y) with the shared point at x = b1, y = a2 (dyadic grading towards it)"""
    from bounded.corner_ref import reference
    return reference(lambda S, T: F(b1 - S, a2 + T), b1 - a1, b2 - a2, levels=levels, n=n)


def h12_patch_reference(rho, left, right, t):
    """squared H^{1/2} seminorm of rho(t, .) on the union of the two elements' space intervals (Euclidean distances)"""
    import numpy as np

    def pts(e, X):
        X = np.asarray(X, dtype=float)
        X, _ = np.broadcast_arrays(X, X)
        return e.gamma_space(X.reshape(-1)).reshape(2, *X.shape)

    def F2(e1, e2):
        def F(X, Y):
            X, Y = np.broadcast_arrays(np.asarray(X, float), np.asarray(Y, float))
            PX, PY = pts(e1, X), pts(e2, Y)
            return (rho(t, PX) - rho(t, PY)) ** 2 / np.sum((PX - PY) ** 2, axis=0)
        return F
    tot = ref_diag(F2(left, left), *left.space_interval)
    if right is not None:
        tot += ref_diag(F2(right, right), *right.space_interval)
        tot += 2 * ref_cross(F2(left, right), *left.space_interval, *right.space_interval)
    return tot


def space_neighbours(leaves, e, L):
    """geometric neighbours across the two time-edges of e (seam identified), each with positive common time: (left, right) pairs"""
    out = []
    x0, x1 = e.space_interval
    t0, t1 = e.time_interval
    for o in leaves:
        if o is e:
            continue
        ot0, ot1 = o.time_interval
        if min(t1, ot1) - max(t0, ot0) <= 0:
            continue
        ox0, ox1 = o.space_interval
        if ox0 == x1 or (x1 == L and ox0 == 0):
            out.append((e, o))
        elif ox1 == x0 or (x0 == 0 and ox1 == L):
            out.append((o, e))
    return out


def sobolev_space_reference(leaves, e, L, rho, nt=8):
    tx, tw = gauss(nt)
    tot = 0.0
    for (left, right) in [(e, None)] + space_neighbours(leaves, e, L):
        other = right if left is e else left
        ta = e.time_interval[0] if other is None else max(e.time_interval[0], other.time_interval[0])
        tb = e.time_interval[1] if other is None else min(e.time_interval[1], other.time_interval[1])
        val = 0.0
        for x, w in zip(tx, tw):
            val += w * h12_patch_reference(rho, left, right, ta + (tb - ta) * x)
        tot += (tb - ta) * val
    return tot


# (weighted L2, outer Gauss, H^1/4 in time, H^1/2 in space): the time and the space order DIFFER, so that an estimator that hands
# the wrong order to a seminorm routine is visible (the space indicator is compared with a reference at 1e-4: needs order 17)
C09_ORDERS = (11, 11, 5, 17)


def c09_cases(tier):
    # steps < 0: |steps| successive space bisections of the leaf containing x_hat = 0.3 * L in the first time slab (deep local
    # refinement: patches of length down to L * 2^-9 at quadrature order 17 -- the indicators are scale-free quantities and must
    # not contain absolute thresholds)
    cases = [("UnitSquare", 11, 3), ("Circle", 12, 2), ("LShape", 13, 1), ("UnitSquare", 17, -8)]
    if tier == "thorough":
        cases += [("PiSquare", 14, 4), ("Circle", 15, 5), ("UnitSquare", 16, 6), ("Circle", 18, -9)]
    return cases


def run_c09(chk, tier, seed):
    import numpy as np
    from src.error_estimator import ErrorEstimator
    import src.error_estimator as eemod
    import multiprocessing as mp
    results = []
    n_eval = 0
    coef = [0.3, 1.0, -0.5, 0.4, 0.7]

    def rho(t, P):      # smooth polynomial in time and in the embedded coordinates
        return coef[0] + coef[1] * P[0] + coef[2] * P[1] + coef[3] * t * P[0] + coef[4] * t * t

    def residual(t, x_hat, gamma):
        return rho(np.asarray(t), gamma(np.asarray(x_hat)))
    for (curve, hs, steps) in c09_cases(tier):
        mesh = build_mesh(curve, hs + 1000 * seed, max(steps, 0), pre=["uniform_refine_space"] if curve == "Circle" else None)
        L = mesh.gamma_space.gamma_length
        if steps < 0:
            with quiet():
                for _ in range(-steps):
                    e0 = [e for e in mesh.leaf_elements if e.time_interval[0] == 0
                          and e.space_interval[0] <= 0.3 * L < e.space_interval[1]][0]
                    mesh.refine_space(e0)
        elems = list(mesh.leaf_elements)
        curve_name, curve = curve, (curve if steps >= 0 else "{}-deep{}".format(curve, -steps))     # label of this case in the clause names
        with quiet():
            ee = ErrorEstimator(mesh, N_poly=C09_ORDERS)
            sob = ee.estimate_sobolev(elems, residual, use_mp=False)
            full_space = np.array([ee.sobolev_space(e, residual)[0] for e in elems])
            full_time = np.array([ee.sobolev_time(e, residual)[0] for e in elems])
            l2 = ee.estimate_weighted_l2(elems, residual, use_mp=False)
        n_eval += 3 * len(elems)
        # a second residual on the SAME estimator object must give what a fresh estimator gives (no state carried between calls)
        def residual2(t, x_hat, gamma):
            P = gamma(np.asarray(x_hat))
            return 0.7 - 0.2 * P[0] + 1.3 * np.asarray(t) * P[1] + 0.5 * np.asarray(t) ** 2
        with quiet():
            sob2 = ee.estimate_sobolev(elems, residual2, use_mp=False)
            l22 = ee.estimate_weighted_l2(elems, residual2, use_mp=False)
            ee_fresh = ErrorEstimator(mesh, N_poly=C09_ORDERS)
            sob2_f = ee_fresh.estimate_sobolev(elems, residual2, use_mp=False)
            l22_f = ee_fresh.estimate_weighted_l2(elems, residual2, use_mp=False)
        n_eval += 2 * len(elems)
        results.append(("reused-estimator-equals-fresh-estimator/{}".format(curve),
                        bool(np.all(sob2 == sob2_f) and np.all(l22 == l22_f)), dict(curve=curve)))
        rel = float(max(np.max(np.abs(sob[:, 1] - full_space) / np.maximum(np.abs(full_space), 1e-300)),
                        np.max(np.abs(sob[:, 0] - full_time) / np.maximum(np.abs(full_time), 1e-300))))
        results.append(("symmetry-shortcut-equals-full-evaluation/{}".format(curve), rel <= 1e-12, dict(curve=curve, max_rel=rel)))
        # the caller may hand over the leaves in any order (sorted by position, reversed, shuffled): the indicator of an element
        # must not depend on its position in the list
        worst_perm = 0.0
        rngp = random.Random(31 + hs + seed)
        for kind in ("reversed", "by-position", "shuffled"):
            idx = list(range(len(elems)))
            if kind == "reversed":
                idx.reverse()
            elif kind == "by-position":
                idx.sort(key=lambda i: (elems[i].space_interval[0], elems[i].time_interval[0]))
            else:
                rngp.shuffle(idx)
            with quiet():
                sob_p = ee.estimate_sobolev([elems[i] for i in idx], residual, use_mp=False)
            n_eval += len(elems)
            for pos, i in enumerate(idx):
                for col, full in ((0, full_time), (1, full_space)):
                    worst_perm = max(worst_perm, abs(sob_p[pos, col] - full[i]) / max(abs(full[i]), 1e-300))
        results.append(("indicator-independent-of-the-order-of-the-element-list/{}".format(curve), worst_perm <= 1e-12,
                        dict(curve=curve, max_rel=worst_perm)))
        real = mp.cpu_count
        try:
            for w in (2, 5):
                eemod.mp.cpu_count = lambda w=w: w
                with quiet():
                    sob_mp = ee.estimate_sobolev(elems, residual, use_mp=True)
                    l2_mp = ee.estimate_weighted_l2(elems, residual, use_mp=True)
                results.append(("pool-equals-serial/{}/workers={}".format(curve, w),
                                bool(np.all(sob_mp == sob) and np.all(l2_mp == l2)), dict(curve=curve)))
        finally:
            eemod.mp.cpu_count = real
        worst = (0.0, None)
        pick = elems if len(elems) <= 14 or tier == "thorough" else elems[:7] + elems[-7:]
        if steps < 0:
            pick = sorted(elems, key=lambda e: e.h_x)[:6] + pick[:4]
        for e in pick:
            want = sobolev_space_reference(elems, e, L, rho)
            got = sob[elems.index(e), 1]
            r = abs(got - want) / max(abs(want), 1e-300)
            n_eval += 1
            if r > worst[0]:
                worst = (r, dict(elem=repr(e), got=float(got), want=float(want)))
        results.append(("space-indicator-equals-sum-of-H1/2-patch-seminorms/{}".format(curve), worst[0] <= 1e-4,
                        dict(curve=curve, history_seed=hs, steps=steps, max_rel=worst[0], worst=worst[1])))
        gx, gw = gauss(12)
        worst = 0.0
        for i, e in enumerate(elems):
            T = e.time_interval[0] + e.h_t * gx[:, None] + 0 * gx[None, :]
            Xh = e.space_interval[0] + e.h_x * gx[None, :] + 0 * gx[:, None]
            P = e.gamma_space(Xh.reshape(-1)).reshape(2, *Xh.shape)
            val = e.h_t * e.h_x * float(np.sum(gw[:, None] * gw[None, :] * rho(T, P) ** 2))
            worst = max(worst, abs(l2[i, 0] - val / math.sqrt(e.h_t)) / (val / math.sqrt(e.h_t)),
                        abs(l2[i, 1] - val / e.h_x) / (val / e.h_x))
        results.append(("weighted-l2-equals-(h_t^-1/2, h_x^-1)*L2-norm/{}".format(curve), worst <= 1e-9, dict(curve=curve, max_rel=worst)))
    _report(chk, "C09", results, n_eval, "curves UnitSquare/Circle/LShape(/PiSquare), seeded random bisection histories, orders (11,11,17,17), "
            "polynomial residual in t and the embedded coordinates; space indicator vs graded reference rel 1e-4; weighted L2 rel 1e-9; "
            "pool/serial bitwise", "run_c09", tier, seed)


def _report(chk, pid, results, n_eval, bound, fn, tier, seed):
    for clause, ok, detail in results:
        name = "{}/bounded/{}".format(pid, clause)
        if ok:
            chk.add(Ob(name, DISCHARGED, kind="bounded", backend="runtime-contract", detail=detail))
        else:
            code = ("from bounded import estimator_rel as E\nfrom vlib.core import Check\nchk = Check({pid!r}, {tier!r}, {seed}, 'other', 'replay')\n"
                    "E.{fn}(chk, {tier!r}, {seed})\nobserved = [o.name for o in chk.obs if o.status == 'failed']\n"
                    "violated = {name!r} in observed\n").format(pid=pid, tier=tier, seed=seed, fn=fn, name=name)
            chk.add(Ob(name, FAILED, kind="bounded", backend="runtime-contract", detail=detail,
                       replay=dict(code=code, confirmed=True, raises_is_violation=True)))
    chk.add_bounded("{} estimator relations".format(pid), n_eval, len(results), bound,
                    "one case per (curve, mesh, clause)", [dict(clause=c, ok=ok, detail=d) for c, ok, d in results[:3]])


if __name__ == "__main__":
    from vlib.core import Check
    which = sys.argv[1] if len(sys.argv) > 1 else "C09"
    chk = Check(which, "quick", 0, "other", "debug")
    (run_c09 if which == "C09" else run_c20)(chk, sys.argv[2] if len(sys.argv) > 2 else "quick", 0)
    for o in chk.obs:
        print(o.status, o.name, {k: v for k, v in o.detail.items() if k in ("max_rel", "rel", "worst")})
