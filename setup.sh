#!/bin/bash
# Builds the overlay venv /verif/.venv offline: Python 3.12 of /venv (so the repository's own
# numpy/scipy are importable through a .pth) + z3-solver, cvc5, icontract, deal, crosshair, mpmath, jsonschema.
set -euo pipefail
cd "$(dirname "$0")"
export PIP_NO_INDEX=1
if [ -x .venv/bin/python ] && .venv/bin/python -c "import z3, cvc5, numpy, scipy, mpmath, jsonschema" 2>/dev/null; then
  echo "setup: .venv already usable"; exit 0
fi
rm -rf .venv
/venv/bin/python -m venv .venv
.venv/bin/python -m pip install -q --no-index --find-links /opt/veriftools/wheels \
    z3-solver cvc5 icontract deal crosshair-tool mpmath jsonschema sympy >/dev/null
SP=$(.venv/bin/python -c "import sysconfig; print(sysconfig.get_paths()['purelib'])")
echo "import site; site.addsitedir('/venv/lib/python3.12/site-packages')" > "$SP/zz_repo_deps.pth"
.venv/bin/python -c "import z3, cvc5, numpy, scipy, mpmath, jsonschema; print('setup ok: z3', z3.get_version_string(), 'numpy', numpy.__version__)"
