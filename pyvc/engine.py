"""pyvc Mode S: a verification-condition generator for a subset of Python, over the real AST of /repo.

The engine symbolically executes one function at a time (callees with a contract are replaced by
their contract, other callees are inlined), explores every path by deterministic re-execution with a
decision prefix, and emits one obligation per (path, clause).  Obligations are discharged later by
vlib.smt (z3 then cvc5 on the identical SMT-LIB text).

Python semantics assumed (listed in every evidence file):
  ints are mathematical; floats are reals (A-REAL); no operator overloading on modelled classes;
  attribute names resolved statically with name mangling; left-to-right evaluation; decorators of
  the verified functions (@cython.locals, @staticmethod, @property) have their CPython meaning;
  only AssertionError (and division by zero) are tracked as failures.
"""
import ast
import hashlib
import itertools
import os
from fractions import Fraction

import z3

from vlib.core import GeneratorError, REPO


class OutsideSubset(GeneratorError):
    pass


class NeedsContract(GeneratorError):
    pass


class Infeasible(Exception):
    pass


class PathEnd(Exception):
    """the current path ends here (loop iteration cut, assert False, ...)"""


class ReturnEx(Exception):
    def __init__(self, value):
        self.value = value


class BreakEx(Exception):
    pass


class ContinueEx(Exception):
    pass


class NeedCodeMode(Exception):
    pass


class ExternalRaise(Exception):
    """an external function raises (kind = python exception class name); catchable by try/except"""
    def __init__(self, kind, where=""):
        self.kind = kind
        self.where = where


_EXC_PARENTS = {"FileNotFoundError": ["OSError", "Exception", "BaseException"], "OSError": ["Exception", "BaseException"],
                "ValueError": ["Exception", "BaseException"], "EOFError": ["Exception", "BaseException"],
                "TypeError": ["Exception", "BaseException"], "AssertionError": ["Exception", "BaseException"],
                "UnpicklingError": ["PickleError", "Exception", "BaseException"]}


# ------------------------------------------------------------------------------------------
# values

class Vec:
    """small fixed-length numeric vector / array with element-wise arithmetic and scalar broadcasting
    (models the 2-vectors of the curve maps and other fixed-shape numpy arrays)."""
    def __init__(self, items):
        self.items = list(items)

    def __len__(self):
        return len(self.items)

    def __repr__(self):
        return "Vec(%r)" % (self.items,)


class Obj:
    _ids = itertools.count(1)

    def __init__(self, cls, fields=None, label=None):
        self.cls = cls
        self.fields = dict(fields or {})
        self.oid = next(Obj._ids)
        self.label = label or "{}#{}".format(cls, self.oid)

    def __repr__(self):
        return "<{}>".format(self.label)


class Ref:
    """symbolic reference (identity = equality of the Int term); may be callable through engine hooks"""
    def __init__(self, sort, term, call=None, attrs=None):
        self.sort = sort
        self.term = term
        self.call = call
        self.attrs = attrs or {}

    def __repr__(self):
        return "Ref({}, {})".format(self.sort, self.term)


class Closure:
    def __init__(self, node, env, module, cls=None, name=None):
        self.node = node
        self.env = env
        self.module = module
        self.cls = cls
        self.name = name or getattr(node, "name", "<lambda>")


class FuncRef:
    def __init__(self, module, qualname):
        self.module = module
        self.qualname = qualname

    @property
    def target(self):
        return "{}:{}".format(self.module, self.qualname)


class ClassRef:
    def __init__(self, module, name):
        self.module = module
        self.name = name


class BoundMethod:
    def __init__(self, obj, func):
        self.obj = obj
        self.func = func


class Ext:
    def __init__(self, name, fn):
        self.name = name
        self.fn = fn


class SpecClosure:
    """closure value produced by a contract with `returns_closure`"""
    def __init__(self, contract, env, label):
        self.contract = contract
        self.env = env
        self.label = label


class VList:
    def __init__(self, items):
        self.items = list(items)

    def __repr__(self):
        return "VList(%r)" % (self.items,)


class SymDict:
    """dict with possibly symbolic keys: association list, lookups fork on key equality"""
    def __init__(self):
        self.items = []


class OpaqueDict(SymDict):
    """a dict-valued piece of object state the contract knows nothing about (lazily initialised attribute): it may
    already contain arbitrary entries from earlier calls on the same object.  Membership of a key that was not stored on
    this path is an unknown Bool, its value an unknown Real."""
    def __init__(self, label):
        SymDict.__init__(self)
        self.label = label
        self.unknown = []      # (key, has: Bool, value)


class SeqDict:
    """dict built by a comprehension over a sequence of symbolic length: {key(i): val(i) for i < length}.  Python semantics:
    a later item overrides an earlier one with an equal key, so d[k] is val(w) for the LAST w with key(w) == k."""
    def __init__(self, length, key, val, label="seqdict"):
        self.length = length
        self.key = key
        self.val = val
        self.label = label


class UnknownAttr:
    """an attribute of a symbolic reference that the contract does not know (e.g. a flag that a refactoring added): its value is
    read from a ghost heap attr -> (reference -> Bool), arbitrary at function entry (state left by earlier calls) and updated by
    stores; only its truth value can be used"""
    def __init__(self, attr, term):
        self.attr = attr
        self.term = term


class SymSeq:
    """symbolic sequence: length (z3 Int or int) + element function idx(z3 Int) -> value"""
    def __init__(self, length, elem, label="seq"):
        self.length = length
        self.elem = elem
        self.label = label


class SList(SymSeq):
    """mutable list of symbolic length whose items are encoded as terms (decode: term -> value)"""
    def __init__(self, length, enc_elem, decode, encode, initial_true=False, label="slist"):
        self.length = length
        self.enc_elem = enc_elem          # index term -> encoded term
        self.decode = decode
        self.encode = encode
        self.initial_true = initial_true  # models a variable that holds the python value True before its first assignment
        self.label = label
        self.elem = lambda i: self.decode(self.enc_elem(to_z3(i)))

    def append(self, v):
        n, old, t = to_z3(self.length), self.enc_elem, self.encode(v)
        self.enc_elem = lambda i, n=n, old=old, t=t: z3.If(to_z3(i) == n, t, old(i))
        self.length = n + 1
        self.initial_true = False


class Env:
    def __init__(self, parent=None, vars=None):
        self.parent = parent
        self.vars = dict(vars or {})

    def lookup(self, name):
        e = self
        while e is not None:
            if name in e.vars:
                return e.vars[name]
            e = e.parent
        raise KeyError(name)

    def has(self, name):
        e = self
        while e is not None:
            if name in e.vars:
                return True
            e = e.parent
        return False


class Obligation:
    def __init__(self, name, pc, goal, meta=None):
        self.name = name
        self.pc = list(pc)
        self.goal = goal
        self.meta = meta or {}


# ------------------------------------------------------------------------------------------
# helpers on numbers

def is_sym(v):
    return isinstance(v, z3.ExprRef)


def is_num(v):
    return isinstance(v, (int, float, Fraction)) and not isinstance(v, bool) or (is_sym(v) and (z3.is_int(v) or z3.is_real(v)))


def to_z3(v):
    if is_sym(v):
        return v
    if isinstance(v, bool):
        return z3.BoolVal(v)
    if isinstance(v, int):
        return z3.IntVal(v)
    if isinstance(v, Fraction):
        return z3.RealVal(str(v.numerator)) / z3.RealVal(str(v.denominator)) if v.denominator != 1 else z3.RealVal(str(v.numerator))
    if isinstance(v, float):
        fr = Fraction(v)
        return to_z3(fr) if fr.denominator != 1 else z3.RealVal(str(fr.numerator))
    raise OutsideSubset("cannot turn %r into an SMT term" % (v,))


def to_real(v):
    t = to_z3(v)
    if z3.is_int(t):
        return z3.ToReal(t)
    return t


def num_binop(op, a, b):
    """Python arithmetic on ints / reals, concrete where both concrete."""
    conc = not is_sym(a) and not is_sym(b)
    if conc:
        if isinstance(a, float):
            a = Fraction(a)
        if isinstance(b, float):
            b = Fraction(b)
        if op == "+":
            return a + b
        if op == "-":
            return a - b
        if op == "*":
            return a * b
        if op == "/":
            return Fraction(a) / Fraction(b)
        if op == "//":
            return a // b
        if op == "%":
            return a % b
        if op == "**":
            if isinstance(b, int) or (isinstance(b, Fraction) and b.denominator == 1):
                return Fraction(a) ** int(b) if (isinstance(a, Fraction) or int(b) < 0) else a ** int(b)
            raise OutsideSubset("non-integer concrete exponent")
    za, zb = to_z3(a), to_z3(b)
    if op in "+-*":
        if z3.is_int(za) and z3.is_int(zb):
            pass
        else:
            za, zb = to_real(za), to_real(zb)
        return {"+": lambda: za + zb, "-": lambda: za - zb, "*": lambda: za * zb}[op]()
    if op == "/":
        return to_real(za) / to_real(zb)
    if op == "//":
        if z3.is_int(za) and z3.is_int(zb):
            # Python floor division == SMT-LIB div for positive divisor; for negative divisor differs.
            return z3.If(zb > 0, za / zb, -((-za) / (-zb)) if False else z3.If(za % zb == 0, za / zb, za / zb)) if False else _floordiv(za, zb)
        zar, zbr = to_real(za), to_real(zb)
        return z3.ToReal(z3.ToInt(zar / zbr))
    if op == "%":
        if z3.is_int(za) and z3.is_int(zb):
            return za - zb * _floordiv(za, zb)
        # Python float modulo: x - y * floor(x / y) (the sign follows the divisor); z3's ToInt is floor
        zar, zbr = to_real(za), to_real(zb)
        return zar - zbr * z3.ToReal(z3.ToInt(zar / zbr))
    if op == "**":
        if isinstance(b, int) and not isinstance(b, bool):
            if b == 0:
                return 1
            if b > 0:
                r = za
                for _ in range(b - 1):
                    r = r * za
                return r
            r = to_real(za)
            base = r
            for _ in range(-b - 1):
                r = r * base
            return z3.RealVal(1) / r
        raise NeedPow(a, b)
    raise OutsideSubset("operator " + op)


class NeedPow(Exception):
    def __init__(self, a, b):
        self.a, self.b = a, b


def _floordiv(za, zb):
    # SMT-LIB: a div b rounds so that remainder is non-negative.  Python floors.
    q = za / zb
    return z3.If(zb > 0, q, z3.If(za % zb == 0, q, q - 1))


_CMP = {ast.Lt: "<", ast.LtE: "<=", ast.Gt: ">", ast.GtE: ">=", ast.Eq: "==", ast.NotEq: "!="}


def num_cmp(op, a, b):
    if not is_sym(a) and not is_sym(b):
        if isinstance(a, float):
            a = Fraction(a)
        if isinstance(b, float):
            b = Fraction(b)
        return {"<": a < b, "<=": a <= b, ">": a > b, ">=": a >= b, "==": a == b, "!=": a != b}[op]
    za, zb = to_z3(a), to_z3(b)
    if z3.is_bool(za) or z3.is_bool(zb):
        if op == "==":
            return za == zb
        if op == "!=":
            return za != zb
        raise OutsideSubset("ordering on bools")
    if not (z3.is_int(za) and z3.is_int(zb)):
        za, zb = to_real(za), to_real(zb)
    return {"<": za < zb, "<=": za <= zb, ">": za > zb, ">=": za >= zb, "==": za == zb, "!=": za != zb}[op]


def b_and(*xs):
    xs = [x for x in xs if x is not True]
    if any(x is False for x in xs):
        return False
    if not xs:
        return True
    if len(xs) == 1:
        return xs[0]
    return z3.And(*[to_z3(x) for x in xs])


def b_or(*xs):
    xs = [x for x in xs if x is not False]
    if any(x is True for x in xs):
        return True
    if not xs:
        return False
    if len(xs) == 1:
        return xs[0]
    return z3.Or(*[to_z3(x) for x in xs])


def b_not(x):
    if isinstance(x, bool):
        return not x
    return z3.Not(x)


def b_implies(a, b):
    return b_or(b_not(a), b)


def src_of(node, source, limit=60):
    try:
        s = ast.get_source_segment(source, node) or ast.dump(node)
    except Exception:
        s = "?"
    s = " ".join(s.split())
    return s if len(s) <= limit else s[:limit - 3] + "..."


# ------------------------------------------------------------------------------------------

class Module:
    def __init__(self, name, path):
        self.name = name
        self.path = path
        with open(path) as fh:
            self.source = fh.read()
        self.tree = ast.parse(self.source, filename=path)
        self.functions = {}   # qualname -> (FunctionDef, classname or None)
        self.classes = {}     # name -> ClassDef
        self.assigns = {}     # module-level name -> value node
        self.imports = {}     # local name -> (module, name)
        for node in self.tree.body:
            if isinstance(node, ast.FunctionDef):
                self.functions[node.name] = (node, None)
            elif isinstance(node, ast.ClassDef):
                self.classes[node.name] = node
                for sub in node.body:
                    if isinstance(sub, ast.FunctionDef):
                        self.functions["{}.{}".format(node.name, sub.name)] = (sub, node.name)
            elif isinstance(node, ast.Assign):
                for t in node.targets:
                    if isinstance(t, ast.Name):
                        self.assigns[t.id] = node.value
            elif isinstance(node, ast.ImportFrom):
                for a in node.names:
                    self.imports[a.asname or a.name] = (("." * node.level) + (node.module or ""), a.name)
            elif isinstance(node, ast.Import):
                for a in node.names:
                    self.imports[a.asname or a.name] = (a.name, None)
            elif isinstance(node, ast.If):
                pass  # `if __name__ == '__main__':` blocks are extracted separately when needed

    def class_bases(self, cname):
        out = []
        for b in self.classes[cname].bases:
            if isinstance(b, ast.Name):
                out.append(b.id)
        return out


class Contract:
    """Sidecar contract of one repository function.

    target     'module:qualname'
    setup      callable(engine) -> list of scenarios; a scenario is a dict with
                 label, args (name -> value), assume (list of z3 Bool / bool), ghosts (extra names for clauses)
    requires   list of clause strings (or (label, string)); evaluated by the engine's own translator
    ensures    list of clause strings; may use `result`
    result     'Real' | 'Int' | 'Bool' | callable(engine, env) -> value     (type of a fresh result at call sites)
    pure       True: no heap effects (the only kind supported at call sites so far)
    precondition_asserts  number of leading `assert` statements of the body that are preconditions for callers
    returns_closure  dict(params=[...], ghosts={name: expr}, ensures=[...], result='Real')
    loops      {ordinal: LoopContract}
    replay     callable(model_values: dict, scenario) -> python source (sets `violated`) or None
    """
    def __init__(self, target, setup=None, requires=(), ensures=(), result="Real", pure=True,
                 precondition_asserts=0, returns_closure=None, loops=None, replay=None, prop=None,
                 params=None, ghosts=None, inline_callees=(), post_hook=None, modifies=None,
                 literal_cases=(), result_term=None, props=None, body_select=None, post_in_env=False):
        self.target = target
        self.setup = setup
        self.requires = list(requires)
        self.ensures = list(ensures)
        self.result = result
        self.pure = pure
        self.precondition_asserts = precondition_asserts
        self.returns_closure = returns_closure
        self.loops = loops or {}
        self.replay = replay
        self.prop = prop
        self.params = params
        self.ghosts = ghosts or {}
        self.inline_callees = set(inline_callees)
        self.post_hook = post_hook
        self.modifies = modifies
        # [(condition text, python literal)]: at call sites the callee returns exactly this literal when the
        # condition holds (the callee's own verification proves `implies(cond, result is that literal)`)
        self.literal_cases = list(literal_cases)
        # callable(engine, env) -> term naming the result as a function of the arguments (deterministic pure function)
        self.result_term = result_term
        self.props = props or ([prop] if prop else [])
        # callable(list of top-level statements) -> sub-list to execute: verification of a *cut* of the function
        # (from a program point with the contract's requires as mid-condition); what is skipped is stated in the evidence
        self.body_select = body_select
        # post_in_env: ensures clauses are mid-conditions over the local variables at the cut (used with body_select)
        self.post_in_env = post_in_env


class LoopContract:
    """cut of one loop: invariant clauses over the loop state.

    index      name of the ghost iteration counter usable in the clauses (0-based number of completed iterations)
    invariant  list of clause strings
    modifies   {var name: type}   variables assigned in the body (havoced at the cut); type 'Real'|'Int'|'Bool'|callable
    """
    def __init__(self, index="k", invariant=(), modifies=None, label=None, decreases=None, abort=False, ghost_pre=None,
                 assumes=(), unfold=()):
        # unfold: clause texts assumed at the head of the arbitrary iteration (index bound): ground instances of the definitions
        # of ghost spec functions at the current index (definitional, conservative; never facts about program state)
        self.unfold = list(unfold)
        # assumes: clause texts assumed (not proved) at loop entry: definitions of ghost functions and stated lemmas
        self.assumes = list(assumes)
        # ghost_pre: {name: clause text} evaluated at loop entry (before the havoc), usable as names in the invariant
        self.ghost_pre = ghost_pre or {}
        # abort: the path ends when it reaches this loop without further obligations (the contract states which other
        # scenario covers that path)
        self.abort = abort
        self.index = index
        self.invariant = list(invariant)
        self.modifies = modifies or {}
        self.label = label
        self.decreases = decreases


def clause_parts(cl):
    if isinstance(cl, tuple):
        return cl[0], cl[1]
    return None, cl


class Engine:
    def __init__(self, contracts=None, externals=None, prop="", repo=None):
        self.repo = repo or REPO
        self.modules = {}
        self.contracts = {c.target: c for c in (contracts or [])}
        self.externals = externals or {}   # name -> Ext / value / callable(engine) -> value
        self.prop = prop
        self.obligations = []
        self.axioms = []                    # global background facts (z3 Bool)
        self.spec_funcs = {}                # name -> python callable(engine, *args) used in clause strings
        self.module_values = {}             # (module, name) -> value override for module-level constants
        self.fresh_counter = itertools.count()
        self.stats = dict(paths=0, infeasible=0, functions={})
        self.ref_call_hooks = {}            # Ref.sort -> callable(engine, ref, args)
        self.attr_hooks = {}                # (cls, attr) -> callable(engine, obj)   (properties)
        self.used_assumptions = set()
        # per-run state
        self._reset_run()

    # -- modules -------------------------------------------------------------------------
    def module(self, name):
        if name not in self.modules:
            path = os.path.join(self.repo, name.replace(".", "/") + ".py")
            if not os.path.exists(path):
                raise GeneratorError("module {} not found at {}".format(name, path))
            self.modules[name] = Module(name, path)
        return self.modules[name]

    def find_function(self, target):
        mod, qual = target.split(":")
        m = self.module(mod)
        if qual not in m.functions:
            raise GeneratorError("contract names {} but {} has no such function (renamed or removed?)".format(target, m.path))
        node, cls = m.functions[qual]
        return m, node, cls

    def resolve_method(self, module, cls, name):
        """method lookup along the (single-module or imported) base chain"""
        seen = set()
        todo = [(module, cls)]
        while todo:
            mod, c = todo.pop(0)
            if (mod, c) in seen:
                continue
            seen.add((mod, c))
            m = self.module(mod)
            if c not in m.classes:
                if c in m.imports:
                    imod, iname = m.imports[c]
                    todo.append((self._abs_module(mod, imod), iname))
                continue
            q = "{}.{}".format(c, name)
            if q in m.functions:
                return FuncRef(mod, q)
            for b in m.class_bases(c):
                todo.append((mod, b))
        return None

    def _abs_module(self, cur, rel):
        if rel.startswith("."):
            base = cur.rsplit(".", 1)[0] if "." in cur else ""
            rest = rel.lstrip(".")
            return (base + "." + rest) if base else rest
        return rel

    # -- run state -----------------------------------------------------------------------
    def _reset_run(self):
        self.pc = []
        self.prefix = []
        self.didx = 0
        self.path_labels = []
        self.pending = None
        self.solver = None
        self.spec_mode = 0
        self.no_oblig = 0
        self.cur_target = None
        self.cur_contract = None
        self.cur_scenario = None
        self.call_depth = 0
        self.loop_counters = {}
        self.ghost = {}
        self.module_stack = []
        self.module_globals = {}            # (module, name) -> value written through globals()[...] on this path

    def fresh(self, base, sort="Real"):
        n = next(self.fresh_counter)
        name = "{}!{}".format(base, n)
        if sort == "Real":
            return z3.Real(name)
        if sort == "Int":
            return z3.Int(name)
        if sort == "Bool":
            return z3.Bool(name)
        raise OutsideSubset("fresh sort " + str(sort))

    def make(self, typ, base):
        """fresh value of a declared type"""
        if callable(typ):
            return typ(self, base)
        if typ in ("Real", "Int", "Bool"):
            return self.fresh(base, typ)
        if isinstance(typ, tuple) and typ[0] == "Tuple":
            return tuple(self.make(t, "{}.{}".format(base, i)) for i, t in enumerate(typ[1]))
        raise OutsideSubset("type " + repr(typ))

    # -- path conditions -----------------------------------------------------------------
    def assume(self, cond):
        if cond is True:
            return
        if cond is False:
            raise Infeasible()
        self.pc.append(cond)
        self.solver.add(cond)

    def feasible(self, cond=None):
        if cond is None:
            r = self.solver.check()
        else:
            r = self.solver.check(cond)
        return r != z3.unsat

    def decide(self, cond, label):
        """fork on a symbolic condition; returns the python bool chosen on this path"""
        if isinstance(cond, bool):
            return cond
        if self.spec_mode:
            raise NeedCodeMode()
        if self.didx < len(self.prefix):
            choice = self.prefix[self.didx]
        else:
            ct = self.feasible(cond)
            cf = self.feasible(z3.Not(cond))
            if ct and cf:
                choice = True
                self.pending.append(self.prefix[:self.didx] + [False])
            elif ct:
                choice = True
            elif cf:
                choice = False
            else:
                raise Infeasible()
            self.prefix.append(choice)
        self.didx += 1
        self.assume(cond if choice else z3.Not(cond))
        self.path_labels.append("{}={}".format(label, "T" if choice else "F"))
        return choice

    def choose(self, n, label):
        """n-way artificial fork (loop cut: iteration / exit)"""
        if self.didx < len(self.prefix):
            choice = self.prefix[self.didx]
        else:
            choice = 0
            for alt in range(1, n):
                self.pending.append(self.prefix[:self.didx] + [alt])
            self.prefix.append(choice)
        self.didx += 1
        self.path_labels.append("{}#{}".format(label, choice))
        return choice

    def path_name(self):
        s = ",".join(self.path_labels) or "-"
        if len(s) > 150:
            s = s[:110] + "~" + hashlib.md5(s.encode()).hexdigest()[:8]
        return s

    def oblige(self, clause, goal, meta=None):
        """record obligation pc => goal; afterwards the goal is assumed on this path"""
        if self.no_oblig:
            raise NeedCodeMode()
        name = "{}/{}/{}/{}".format(self.prop, self.cur_target, self.path_name(), clause)
        if goal is True:
            self.obligations.append(Obligation(name, [], z3.BoolVal(True), meta))
            return
        g = to_z3(goal) if not is_sym(goal) else goal
        m = dict(meta or {})
        m.setdefault("scenario", self.cur_scenario.get("label") if self.cur_scenario else None)
        m["scenario_obj"] = self.cur_scenario
        self.obligations.append(Obligation(name, self.pc, g, m))
        if goal is False:
            raise PathEnd()
        self.assume(g)

    @property
    def cur_module_name(self):
        return self.module_stack[-1] if self.module_stack else self.cur_target.split(":")[0]

    # -- truthiness ----------------------------------------------------------------------
    def truth(self, v):
        if isinstance(v, bool):
            return v
        if v is None:
            return False
        if is_sym(v):
            if z3.is_bool(v):
                return v
            if z3.is_int(v):
                return v != 0
            if z3.is_real(v):
                return v != 0
        if isinstance(v, (int, Fraction, float)):
            return v != 0
        if isinstance(v, (tuple, list, str, dict)):
            return len(v) > 0
        if isinstance(v, VList):
            return len(v.items) > 0
        if isinstance(v, Vec):
            raise OutsideSubset("truth value of an array")
        if isinstance(v, SList):
            nz = num_cmp("!=", v.length, 0)
            if v.initial_true is False:
                return nz
            return b_or(v.initial_true, nz)
        if isinstance(v, SymSeq):
            return num_cmp("!=", v.length, 0)
        if isinstance(v, (Obj, Closure, FuncRef, BoundMethod, Ext, SpecClosure, ClassRef)):
            return True
        if isinstance(v, Ref):
            if "none" in v.attrs:
                return z3.Not(v.attrs["none"])
            return True
        if isinstance(v, UnknownAttr):
            return z3.Select(self.ghost_heap(v.attr), v.term)
        raise OutsideSubset("truth of %r" % (v,))

    def ghost_heap(self, attr):
        hp = self.ghost.setdefault("__ghost_heap__", {})
        if attr not in hp:
            hp[attr] = z3.Const("heap_{}!{}".format(attr, next(self.fresh_counter)), z3.ArraySort(z3.IntSort(), z3.BoolSort()))
        return hp[attr]

    def branch(self, v, label):
        t = self.truth(v)
        if isinstance(t, bool):
            return t
        return self.decide(t, label)

    # ------------------------------------------------------------------------------------
    # expression evaluation
    def ev(self, node, env):
        m = getattr(self, "ev_" + type(node).__name__, None)
        if m is None:
            raise OutsideSubset("expression {} (line {})".format(type(node).__name__, getattr(node, "lineno", "?")))
        return m(node, env)

    def ev_Constant(self, node, env):
        v = node.value
        if isinstance(v, float):
            return Fraction(v)
        return v

    def ev_Name(self, node, env):
        name = node.id
        if env.has(name):
            return env.lookup(name)
        return self.global_name(name, env)

    @staticmethod
    def mutable_container_kind(dn):
        """'dict' / 'seq' for an expression that creates an EMPTY mutable container (the usual shape of a memo), else None"""
        if isinstance(dn, ast.Dict) and not dn.keys:
            return "dict"
        if isinstance(dn, (ast.List, ast.Set)) and not dn.elts:
            return "seq"
        if isinstance(dn, ast.Call) and isinstance(dn.func, (ast.Name, ast.Attribute)) and not dn.args:
            fn = dn.func.id if isinstance(dn.func, ast.Name) else dn.func.attr
            if fn in ("dict", "OrderedDict", "defaultdict", "WeakValueDictionary", "WeakKeyDictionary"):
                return "dict"
            if fn in ("list", "set", "deque"):
                return "seq"
        if isinstance(dn, ast.Call) and isinstance(dn.func, (ast.Name, ast.Attribute)):
            fn = dn.func.id if isinstance(dn.func, ast.Name) else dn.func.attr
            if fn == "defaultdict":
                return "dict"
        return None

    def global_name(self, name, env):
        mod = env.lookup("__module__") if env.has("__module__") else None
        if mod is not None:
            if (mod, name) in self.module_globals:
                return self.module_globals[(mod, name)]
            if (mod, name) in self.module_values:
                v = self.module_values[(mod, name)]
                return v(self) if callable(v) and not isinstance(v, (Ext,)) else v
            m = self.module(mod)
            if name in m.functions:
                return FuncRef(mod, name)
            if name in m.classes:
                return ClassRef(mod, name)
            if name in m.imports:
                imod, iname = m.imports[name]
                key = "{}.{}".format(imod.lstrip("."), iname) if iname else imod
                if imod.startswith("."):
                    amod = self._abs_module(mod, imod)
                    am = self.module(amod)
                    if iname in am.functions:
                        return FuncRef(amod, iname)
                    if iname in am.classes:
                        return ClassRef(amod, iname)
                    if (amod, iname) in self.module_values:
                        v = self.module_values[(amod, iname)]
                        return v(self) if callable(v) else v
                    if iname in am.assigns:
                        # a module-level constant of the other module (e.g. an exported list of keys): same rules as for the
                        # module's own constants (empty mutable containers are state, not constants)
                        return self.global_name(iname, Env(None, {"__module__": amod}))
                    raise OutsideSubset("imported name {} from {}".format(iname, amod))
                if key in self.externals:
                    return self.externals[key]
                if name in self.externals:
                    return self.externals[name]
                raise OutsideSubset("external name {} ({}) has no model".format(name, key))
            if name in m.assigns:
                if name in self.externals:
                    return self.externals[name]
                # module-level constant: evaluate its defining expression symbolically.  A module-level *mutable container*
                # (an empty dict / list / set: the usual shape of a memo) is not a constant: it is state shared by all calls
                # of the process, hence arbitrary at function entry (opaque dict, kept for the rest of the path) or outside
                # the subset -- never a fresh empty container.
                dn = m.assigns[name]
                kind = self.mutable_container_kind(dn)
                if kind == "dict":
                    v = OpaqueDict("{}.{}".format(mod, name))
                    self.module_globals[(mod, name)] = v
                    self.used_assumptions.add("module-level mutable dictionaries are arbitrary state at function entry (they may hold entries "
                                              "from earlier calls in the same process)")
                    return v
                if kind == "seq":
                    raise OutsideSubset("module-level mutable container {}.{} (state shared between calls) is not modelled".format(mod, name))
                return self.ev(dn, Env(None, {"__module__": mod}))
        if name in self.externals:
            return self.externals[name]
        if name in self.spec_funcs:
            return Ext(name, self.spec_funcs[name])
        raise OutsideSubset("unknown name " + name)

    def ev_Tuple(self, node, env):
        out = []
        for e in node.elts:
            if isinstance(e, ast.Starred):
                out.extend(self.iter_concrete(self.ev(e.value, env)))
            else:
                out.append(self.ev(e, env))
        return tuple(out)

    def ev_List(self, node, env):
        return VList(self.ev_Tuple(node, env))

    def ev_Dict(self, node, env):
        out = SymDict()
        for k, v in zip(node.keys, node.values):
            if k is None:
                raise OutsideSubset("dict unpacking")
            out.items.append((self.ev(k, env), self.ev(v, env)))
        return out

    def ev_UnaryOp(self, node, env):
        v = self.ev(node.operand, env)
        if isinstance(node.op, ast.Not):
            t = self.truth(v)
            return b_not(t)
        if isinstance(node.op, ast.USub):
            return self.arith("-", 0, v)
        if isinstance(node.op, ast.UAdd):
            return v
        raise OutsideSubset("unary op")

    def ev_BinOp(self, node, env):
        a = self.ev(node.left, env)
        b = self.ev(node.right, env)
        op = {ast.Add: "+", ast.Sub: "-", ast.Mult: "*", ast.Div: "/", ast.FloorDiv: "//", ast.Mod: "%",
              ast.Pow: "**", ast.BitXor: "^", ast.BitAnd: "&", ast.MatMult: "@"}.get(type(node.op))
        if op is None:
            raise OutsideSubset("binary op " + type(node.op).__name__)
        if op == "^":
            ta, tb = self.truth(a), self.truth(b)
            if isinstance(ta, bool) and isinstance(tb, bool):
                return ta ^ tb
            return z3.Xor(to_z3(ta), to_z3(tb))
        if op == "&":
            return b_and(self.truth(a), self.truth(b))
        return self.arith(op, a, b, node)

    def arith(self, op, a, b, node=None):
        if op == "@":
            for hook in self.arith_hooks:
                r = hook(self, op, a, b)
                if r is not NotImplemented:
                    return r
            raise OutsideSubset("matrix product of {!r}, {!r}".format(type(a).__name__, type(b).__name__))
        if isinstance(a, Vec) or isinstance(b, Vec):
            if isinstance(a, Vec) and isinstance(b, Vec):
                if len(a) != len(b):
                    if len(a) == 1:
                        a = Vec(a.items * len(b))
                    elif len(b) == 1:
                        b = Vec(b.items * len(a))
                    else:
                        raise OutsideSubset("vector length mismatch")
                return Vec([self.arith(op, x, y, node) for x, y in zip(a.items, b.items)])
            if isinstance(a, Vec):
                return Vec([self.arith(op, x, b, node) for x in a.items])
            return Vec([self.arith(op, a, y, node) for y in b.items])
        if op == "+" and isinstance(a, tuple) and isinstance(b, tuple):
            return a + b
        if op == "+" and isinstance(a, VList) and isinstance(b, VList):
            return VList(a.items + b.items)
        if op == "+" and isinstance(a, str) and isinstance(b, str):
            return a + b
        if op == "*" and isinstance(a, (tuple,)) and isinstance(b, int):
            return a * b
        for hook in self.arith_hooks:
            r = hook(self, op, a, b)
            if r is not NotImplemented:
                return r
        if not (is_num(a) and is_num(b)):
            raise OutsideSubset("arithmetic {} on {!r}, {!r}".format(op, type(a).__name__, type(b).__name__))
        if op in ("/", "//", "%"):
            nz = num_cmp("!=", b, 0)
            if nz is not True:
                if self.spec_mode:
                    pass   # clause language: SMT-LIB total division
                else:
                    self.oblige("div-nonzero@L{}".format(getattr(node, "lineno", "?")), nz)
        try:
            return num_binop(op, a, b)
        except NeedPow as e:
            return self.power(e.a, e.b)

    arith_hooks = []

    def power(self, a, b):
        """a ** b with non-literal or fractional exponent: uninterpreted POW with the instances needed"""
        if isinstance(b, Fraction) and b == Fraction(1, 2):
            return self.call_ext("sqrt", [a])
        if isinstance(b, Fraction) and b == Fraction(3, 2):
            s = self.call_ext("sqrt", [a])
            return self.arith("*", a, s)
        POW = z3.Function("POW", z3.RealSort(), z3.RealSort(), z3.RealSort())
        self.used_assumptions.add("X-POW: x**s for real s is an uninterpreted function, positive for x > 0")
        t = POW(to_real(a), to_real(b))
        self.assume(z3.Implies(to_real(a) > 0, t > 0))
        return t

    def call_ext(self, name, args):
        e = self.externals.get(name)
        if e is None:
            raise OutsideSubset("external " + name)
        return e.fn(self, *args)

    def ev_BoolOp(self, node, env):
        is_and = isinstance(node.op, ast.And)
        if self.spec_mode:
            vals = []
            for v in node.values:
                t = self.truth(self.ev(v, env))
                if isinstance(t, bool) and t == (not is_and):
                    return t          # python short-circuit on a concrete operand
                vals.append(t)
            return b_and(*vals) if is_and else b_or(*vals)
        # python semantics: value of the deciding operand; we only need truthiness-preserving results
        last = None
        for i, v in enumerate(node.values):
            last = self.ev(v, env)
            if i == len(node.values) - 1:
                return last
            t = self.branch(last, "{}[{}]".format("and" if is_and else "or", src_of(v, self.cur_source(env), 40)))
            # the VALUE of the deciding operand (`c or a` with a number c yields c itself, not True)
            if is_and and not t:
                return False if (is_sym(last) and z3.is_bool(last)) else last
            if not is_and and t:
                return True if (is_sym(last) and z3.is_bool(last)) else last
        return last

    def cur_source(self, env):
        try:
            return self.module(env.lookup("__module__")).source
        except Exception:
            return ""

    def ev_Compare(self, node, env):
        left = self.ev(node.left, env)
        res = []
        for op, comp in zip(node.ops, node.comparators):
            right = self.ev(comp, env)
            res.append(self.compare(op, left, right))
            left = right
        return b_and(*res)

    def compare(self, op, a, b):
        if isinstance(op, (ast.Is, ast.IsNot)):
            r = self.identical(a, b)
            return r if isinstance(op, ast.Is) else b_not(r)
        if isinstance(op, (ast.In, ast.NotIn)):
            r = self.contains(b, a)
            return r if isinstance(op, ast.In) else b_not(r)
        o = _CMP[type(op)]
        if isinstance(a, tuple) and isinstance(b, tuple):
            return self.tuple_cmp(o, a, b)
        if isinstance(a, (Obj, Ref)) or isinstance(b, (Obj, Ref)) or a is None or b is None:
            if o in ("==", "!="):
                r = self.identical(a, b)   # no __eq__ on modelled classes (checked by contracts)
                return r if o == "==" else b_not(r)
            raise OutsideSubset("ordering on objects")
        if isinstance(a, VList) and isinstance(b, VList) and o in ("==", "!="):
            r = self.tuple_cmp("==", tuple(a.items), tuple(b.items))
            return r if o == "==" else b_not(r)
        if isinstance(a, (VList, tuple)) != isinstance(b, (VList, tuple)):
            if o == "==":
                return False
            if o == "!=":
                return True
        if isinstance(a, str) or isinstance(b, str):
            if o == "==":
                return a == b
            if o == "!=":
                return a != b
        if isinstance(a, bool) or isinstance(b, bool) or (is_sym(a) and z3.is_bool(a)) or (is_sym(b) and z3.is_bool(b)):
            if o == "==":
                ta, tb = self.truth(a), self.truth(b)
                if isinstance(ta, bool) and isinstance(tb, bool):
                    return ta == tb
                return to_z3(ta) == to_z3(tb)
        if isinstance(a, Vec) and isinstance(b, Vec) and o == "==" and len(a) == len(b):
            # element-wise equality; the only use in the subset is under np.all(...)
            return b_and(*[self.compare(ast.Eq(), x, y) for x, y in zip(a.items, b.items)])
        if isinstance(a, Vec) or isinstance(b, Vec):
            raise OutsideSubset("comparison of arrays")
        if not (is_num(a) and is_num(b)):
            raise OutsideSubset("comparison {} of {!r} and {!r}".format(o, a, b))
        return num_cmp(o, a, b)

    def tuple_cmp(self, o, a, b):
        """Python's lexicographic comparison of fixed-arity tuples"""
        if o == "==":
            if len(a) != len(b):
                return False
            return b_and(*[self.compare(ast.Eq(), x, y) for x, y in zip(a, b)])
        if o == "!=":
            return b_not(self.tuple_cmp("==", a, b))
        strict = {"<": "<", "<=": "<", ">": ">", ">=": ">"}[o]
        n = min(len(a), len(b))
        # a < b  iff  exists i: prefix equal and a_i < b_i, or all common equal and len tie-break
        alts = []
        prefix = []
        for i in range(n):
            alts.append(b_and(*(prefix + [num_cmp(strict, a[i], b[i])])))
            prefix = prefix + [num_cmp("==", a[i], b[i])]
        if len(a) == len(b):
            tail = o in ("<=", ">=")
        else:
            tail = (len(a) < len(b)) if o in ("<", "<=") else (len(a) > len(b))
        alts.append(b_and(*(prefix + [tail])))
        return b_or(*alts)

    def identical(self, a, b):
        if a is None or b is None:
            if a is None and b is None:
                return True
            other = b if a is None else a
            if isinstance(other, Ref) and "none" in other.attrs:
                return other.attrs["none"]
            return False
        if isinstance(a, Ref) and isinstance(b, Ref):
            return a.term == b.term
        if isinstance(a, Obj) and isinstance(b, Obj):
            return a is b
        if isinstance(a, (Obj, Ref)) or isinstance(b, (Obj, Ref)):
            if isinstance(a, Ref) and isinstance(b, Obj) or isinstance(a, Obj) and isinstance(b, Ref):
                raise OutsideSubset("identity between concrete and symbolic object")
            return False
        if isinstance(a, bool) and isinstance(b, bool):
            return a == b
        if isinstance(a, (Closure, FuncRef, Ext)) or isinstance(b, (Closure, FuncRef, Ext)):
            return a is b
        raise OutsideSubset("identity of %r, %r" % (a, b))

    def contains(self, cont, item):
        if isinstance(cont, (tuple, list)):
            return b_or(*[self.compare(ast.Eq(), item, x) for x in cont])
        if isinstance(cont, VList):
            return b_or(*[self.compare(ast.Eq(), item, x) for x in cont.items])
        if isinstance(cont, dict):
            return b_or(*[self.compare(ast.Eq(), item, x) for x in cont.keys()])
        if isinstance(cont, OpaqueDict):
            stored = b_or(*[self.compare(ast.Eq(), item, k) for k, _ in cont.items])
            return b_or(stored, self.opaque_entry(cont, item)[1])
        if isinstance(cont, SymDict):
            return b_or(*[self.compare(ast.Eq(), item, k) for k, _ in cont.items])
        if isinstance(cont, SeqDict):
            q = z3.Int("q!in{}".format(next(self.fresh_counter)))
            return z3.Exists([q], z3.And(q >= 0, to_z3(num_cmp("<", q, cont.length)), to_z3(self.compare(ast.Eq(), cont.key(q), item))))
        for hook in self.contains_hooks:
            r = hook(self, cont, item)
            if r is not NotImplemented:
                return r
        raise OutsideSubset("`in` on %r" % (cont,))

    contains_hooks = []

    def opaque_entry(self, od, key):
        for ent in od.unknown:
            if self.compare(ast.Eq(), ent[0], key) is True or ent[0] is key:
                return ent
        n = next(self.fresh_counter)
        ent = (key, z3.Bool("{}_has!{}".format(od.label, n)), z3.Real("{}_val!{}".format(od.label, n)))
        od.unknown.append(ent)
        self.used_assumptions.add("lazy object state: attributes the contract does not know are arbitrary (they may hold entries from earlier "
                                  "calls on the same object)")
        return ent

    def ev_IfExp(self, node, env):
        t = self.branch(self.ev(node.test, env), "ifexp[{}]".format(src_of(node.test, self.cur_source(env), 40)))
        return self.ev(node.body if t else node.orelse, env)

    def ev_Lambda(self, node, env):
        return Closure(node, env, env.lookup("__module__"), cls=env.lookup("__class__") if env.has("__class__") else None)

    def ev_Attribute(self, node, env):
        base = self.ev(node.value, env)
        return self.getattr(base, self.mangle(node.attr, env), env)

    def mangle(self, attr, env):
        if attr.startswith("__") and not attr.endswith("__") and env.has("__class__") and env.lookup("__class__"):
            return "_{}{}".format(env.lookup("__class__").lstrip("_"), attr)
        return attr

    def getattr(self, base, attr, env=None):
        if isinstance(base, Obj):
            if attr in base.fields:
                return base.fields[attr]
            hook = self.attr_hooks.get((base.cls, attr)) or self.attr_hooks.get(("*", attr))
            if hook:
                return hook(self, base)
            # method / property lookup
            modname = base.fields.get("__module__")
            if modname:
                fr = self.resolve_method(modname, base.cls, attr)
                if fr is None and attr.startswith("_") and "__" in attr[1:]:
                    # name-mangled private method: _Class__name -> __name defined in Class
                    cname, _, rest = attr[1:].partition("__")
                    fr = self.resolve_method(modname, base.cls, "__" + rest)
                if fr is not None:
                    m, fnode, cls = self.find_function(fr.target)
                    if any(isinstance(d, ast.Name) and d.id == "property" for d in fnode.decorator_list):
                        return self.call_funcref(fr, [base], {})
                    if any(isinstance(d, ast.Name) and d.id == "staticmethod" for d in fnode.decorator_list):
                        return fr
                    return BoundMethod(base, fr)
            if base.fields.get("__lazy_state__", True):    # unknown attributes are arbitrary state left by earlier calls (default)
                base.fields[attr] = OpaqueDict("{}.{}".format(base.cls, attr))
                return base.fields[attr]
            raise OutsideSubset("attribute {}.{} not modelled".format(base.cls, attr))
        if isinstance(base, Ref):
            if attr in base.attrs:
                v = base.attrs[attr]
                return v(self, base) if callable(v) else v
            hook = self.attr_hooks.get((base.sort, attr))
            if hook:
                return hook(self, base)
            if base.sort == "Elem" and not attr.startswith("__"):
                self.used_assumptions.add("unknown attributes of symbolic elements are arbitrary Boolean state at function entry "
                                          "(ghost heap), updated by stores")
                return UnknownAttr(attr, base.term)
            raise OutsideSubset("attribute {} of symbolic {}".format(attr, base.sort))
        if isinstance(base, ClassRef):
            fr = self.resolve_method(base.module, base.name, attr)
            if fr is not None:
                return fr
        if isinstance(base, Ext) and isinstance(base.fn, dict):
            if attr in base.fn:
                return base.fn[attr]
            raise OutsideSubset("external {}.{} has no model".format(base.name, attr))
        if isinstance(base, SymSeq) and not isinstance(base, SList) and attr == "sort":
            return Ext("seq.sort", lambda eng, _b=base, **kw: eng.seq_sort(_b, kw))
        if isinstance(base, SList):
            if attr == "append":
                return Ext("slist.append", lambda eng, v, _b=base: _b.append(v))
            if attr == "sort":
                return Ext("slist.sort", lambda eng, _b=base, **kw: eng.slist_sort(_b, kw))
        if isinstance(base, VList):
            if attr in ("append", "extend", "sort", "pop"):
                return Ext("list." + attr, lambda eng, *a, _b=base, _at=attr, **kw: eng.list_method(_b, _at, a, kw))
        if isinstance(base, str) and attr in ("format", "encode", "join"):
            for hook in self.str_hooks:
                r = hook(self, base, attr)
                if r is not NotImplemented:
                    return r
        if isinstance(base, Vec):
            if attr == "T":
                return base
            if attr == "shape":
                it = base.items[0] if base.items else None
                if hasattr(it, "length"):
                    return (len(base), it.length)
                return (len(base), 1)
            if attr == "reshape":
                return Ext("reshape", lambda eng, *a, _b=base: _b)
        for hook in self.getattr_hooks:
            r = hook(self, base, attr)
            if r is not NotImplemented:
                return r
        if isinstance(base, SymSeq) and attr == "shape":
            return (base.length,)
        if attr == "item" and (is_num(base) or (isinstance(base, Vec) and len(base) == 1)):
            # ndarray.item() / numpy scalar .item(): the single element as a python scalar
            return Ext("item", lambda eng, _b=base: _b.items[0] if isinstance(_b, Vec) else _b)
        raise OutsideSubset("attribute {} of {!r}".format(attr, type(base).__name__))

    getattr_hooks = []
    str_hooks = []

    def slist_sort(self, lst, kw):
        """X-SORT: list.sort permutes the list in place (every new item is an old item, length unchanged)"""
        self.used_assumptions.add("X-SORT: list.sort(key=...) permutes the list in place (length unchanged, items preserved)")
        n = next(self.fresh_counter)
        perm = z3.Function("PERM!%d" % n, z3.IntSort(), z3.IntSort())
        old = lst.enc_elem
        lst.enc_elem = lambda i, old=old, perm=perm: old(perm(to_z3(i)))
        lst.sort_perm = perm
        q = z3.Int("q!sort%d" % n)
        self.assume(z3.ForAll([q], z3.Implies(z3.And(0 <= q, q < to_z3(lst.length)), z3.And(0 <= perm(q), perm(q) < to_z3(lst.length)))))
        return None

    def seq_sort(self, seq, kw):
        """X-SORT: list.sort(key=k, reverse=r) permutes the list in place so that the keys are monotone"""
        self.used_assumptions.add("X-SORT: list.sort(key=..., reverse=...) permutes the list in place; keys monotone afterwards")
        n = next(self.fresh_counter)
        perm = z3.Function("PERM!%d" % n, z3.IntSort(), z3.IntSort())
        old = seq.elem
        seq.elem = lambda i, old=old, perm=perm: old(perm(to_z3(i)))
        seq.sort_perm = perm
        N = to_z3(seq.length)
        q, r = z3.Int("q!srt%d" % n), z3.Int("r!srt%d" % n)
        self.assume(z3.ForAll([q], z3.Implies(z3.And(0 <= q, q < N), z3.And(0 <= perm(q), perm(q) < N))))
        self.assume(z3.ForAll([q, r], z3.Implies(z3.And(0 <= q, q < r, r < N), perm(q) != perm(r))))
        key = kw.get("key")
        if key is not None:
            rev = kw.get("reverse", False)
            kq, kq1 = self.call(key, [seq.elem(q)]), self.call(key, [seq.elem(q + 1)])
            mono = num_cmp(">=" if rev else "<=", kq, kq1)
            self.assume(z3.ForAll([q], z3.Implies(z3.And(0 <= q, q + 1 < N), to_z3(mono))))
        return None

    def list_method(self, lst, attr, args, kw):
        if attr == "append":
            lst.items.append(args[0])
            return None
        if attr == "extend":
            lst.items.extend(self.iter_concrete(args[0]))
            return None
        raise OutsideSubset("list." + attr)

    def ev_Subscript(self, node, env):
        base = self.ev(node.value, env)
        if isinstance(node.slice, ast.Tuple) and any(isinstance(e, ast.Slice) for e in node.slice.elts):
            for hook in self.slice_hooks:
                r = hook(self, base, node.slice, env)
                if r is not NotImplemented:
                    return r
            raise OutsideSubset("slice subscript")
        if isinstance(node.slice, ast.Slice):
            lo = self.ev(node.slice.lower, env) if node.slice.lower else None
            hi = self.ev(node.slice.upper, env) if node.slice.upper else None
            if isinstance(base, (tuple,)):
                return base[lo:hi]
            if isinstance(base, VList):
                return VList(base.items[lo:hi])
            raise OutsideSubset("slice")
        idx = self.ev(node.slice, env)
        return self.index(base, idx)

    def index(self, base, idx):
        if isinstance(base, (tuple, list)):
            if isinstance(idx, int):
                return base[idx]
            if is_sym(idx) and len(base) <= 4:
                # small tuple, symbolic index (levels[ax], edges[1 - ax]): case split as an ite chain
                items = list(base)
                if all(is_num(x) for x in items):
                    r = to_z3(items[-1])
                    allint = all(z3.is_int(to_z3(x)) for x in items)
                    r = r if allint else to_real(r)
                    for j in range(len(items) - 2, -1, -1):
                        xj = to_z3(items[j]) if allint else to_real(items[j])
                        r = z3.If(idx == j, xj, r)
                    return r
            raise OutsideSubset("tuple index %r" % (idx,))
        if isinstance(base, VList):
            if isinstance(idx, int):
                return base.items[idx]
            if is_sym(idx) and len(base.items) <= 4 and not self.spec_mode:
                for j in range(len(base.items) - 1):
                    if self.decide(idx == j, "index=={}".format(j)):
                        return base.items[j]
                return base.items[-1]
            raise OutsideSubset("list index %r" % (idx,))
        if isinstance(base, Vec):
            if isinstance(idx, int):
                return base.items[idx]
            if isinstance(idx, tuple) and len(idx) == 2 and idx[1] == 0 and isinstance(idx[0], int):
                return base.items[idx[0]]
            raise OutsideSubset("array index %r" % (idx,))
        if isinstance(base, SymSeq):
            return base.elem(to_z3(idx))
        if isinstance(base, dict):
            for k, v in base.items():
                same = self.compare(ast.Eq(), k, idx)
                if same is True:
                    return v
            raise OutsideSubset("dict lookup of symbolic key")
        if isinstance(base, OpaqueDict):
            for k, v in reversed(base.items):
                same = self.compare(ast.Eq(), k, idx)
                if self.branch(same, "dict-key=="):
                    return v
            ent = self.opaque_entry(base, idx)
            self.oblige("dict-key-present", ent[1])
            return ent[2]
        if isinstance(base, SeqDict):
            self.oblige("dict-key-present", self.contains(base, idx))
            w = self.fresh("w", "Int")
            q = z3.Int("q!last{}".format(next(self.fresh_counter)))
            self.assume(z3.And(w >= 0, to_z3(num_cmp("<", w, base.length)), to_z3(self.compare(ast.Eq(), base.key(w), idx))))
            self.assume(z3.ForAll([q], z3.Implies(z3.And(q > w, to_z3(num_cmp("<", q, base.length))),
                                                  z3.Not(to_z3(self.compare(ast.Eq(), base.key(q), idx))))))
            return base.val(w)
        if isinstance(base, SymDict):
            # the most recent binding wins; fork on symbolic key equality
            for k, v in reversed(base.items):
                same = self.compare(ast.Eq(), k, idx)
                if self.branch(same, "dict-key=="):
                    return v
            self.oblige("dict-key-present", False)
        for hook in self.index_hooks:
            r = hook(self, base, idx)
            if r is not NotImplemented:
                return r
        raise OutsideSubset("subscript of %r" % (type(base).__name__,))

    index_hooks = []
    slice_hooks = []

    def iter_concrete(self, v):
        if isinstance(v, (tuple, list)):
            return list(v)
        if isinstance(v, VList):
            return list(v.items)
        if isinstance(v, Vec):
            return list(v.items)
        if isinstance(v, dict):
            return list(v.keys())
        raise OutsideSubset("iteration over %r" % (type(v).__name__,))

    def _comp(self, generators, env, emit):
        g = generators[0]
        for item in self.iter_concrete(self.ev(g.iter, env)):
            e2 = Env(env)
            self.assign(g.target, item, e2)
            ok = True
            for cond in g.ifs:
                if not self.branch(self.ev(cond, e2), "compif"):
                    ok = False
                    break
            if not ok:
                continue
            if len(generators) > 1:
                self._comp(generators[1:], e2, emit)
            else:
                emit(e2)

    def ev_ListComp(self, node, env):
        if len(node.generators) == 1 and not node.generators[0].ifs:
            it = self.ev(node.generators[0].iter, env)
            if isinstance(it, SymSeq) and getattr(it, "items", None) is None:
                g = node.generators[0]

                def elem(i, it=it, g=g):
                    e2 = Env(env)
                    self.assign(g.target, it.elem(i), e2)
                    return self.ev(node.elt, e2)
                return SymSeq(it.length, elem, "comprehension")
        if len(node.generators) == 2 and not node.generators[0].ifs and not node.generators[1].ifs:
            it = self.ev(node.generators[0].iter, env)
            if isinstance(it, SymSeq) and getattr(it, "items", None) is None:
                # flattening [elt for row in rows for x in row] of a symbolic sequence of fixed-length rows:
                # item j comes from row j // m, position j % m
                g0, g1 = node.generators

                def row_vals(i):
                    e2 = Env(env)
                    self.assign(g0.target, it.elem(i), e2)
                    vals = []
                    for item in self.iter_concrete(self.ev(g1.iter, e2)):
                        e3 = Env(e2)
                        self.assign(g1.target, item, e3)
                        vals.append(self.ev(node.elt, e3))
                    return vals
                m = len(row_vals(self.fresh("rowprobe", "Int")))
                if m == 0:
                    return VList([])

                def elem(j, m=m):
                    j = to_z3(j)
                    i = _floordiv(j, z3.IntVal(m))
                    r = j - m * i
                    vals = row_vals(i)
                    out = vals[-1]
                    for k in reversed(range(m - 1)):
                        out = self.ite_value(r == k, vals[k], out)
                    if isinstance(out, Ref) and out.sort in self.ref_rebuild_hooks and self._flatten_is_position(row_vals, m, out.sort):
                        # the merged identity term is provably the position itself (rows of fresh objects numbered m*i + k)
                        return self.ref_rebuild_hooks[out.sort](self, j)
                    return out
                return SymSeq(self.arith("*", it.length, m), elem, "flatten")
        out = []
        self._comp(node.generators, env, lambda e2: out.append(self.ev(node.elt, e2)))
        return VList(out)

    def _flatten_is_position(self, row_vals, m, sort):
        """valid(row_vals(i)[k].term == m * i + k for every k): decided once per flattening by a ground LIA query"""
        key = ("flatten-pos", id(row_vals))
        if key not in self.ghost:
            i = z3.Int("i!flatpos")
            vals = row_vals(i)
            s = z3.Solver()
            s.set("timeout", 2000)
            s.add(i >= 0)
            s.add(z3.Or(*[to_z3(v.term) != m * i + k if isinstance(v, Ref) and v.sort == sort else z3.BoolVal(True)
                          for k, v in enumerate(vals)]))
            self.ghost[key] = (s.check() == z3.unsat, row_vals)     # row_vals kept alive: id() stays unique
        return self.ghost[key][0]

    def ev_DictComp(self, node, env):
        if len(node.generators) == 1 and not node.generators[0].ifs:
            it = self.ev(node.generators[0].iter, env)
            if isinstance(it, SymSeq) and getattr(it, "items", None) is None:
                g = node.generators[0]

                def at(i, what, it=it, g=g):
                    e2 = Env(env)
                    self.assign(g.target, it.elem(i), e2)
                    return self.ev(what, e2)
                return SeqDict(it.length, lambda i: at(i, node.key), lambda i: at(i, node.value))
        out = {}

        def emit(e2):
            k = self.ev(node.key, e2)
            out[k] = self.ev(node.value, e2)
        self._comp(node.generators, env, emit)
        return out

    def ev_GeneratorExp(self, node, env):
        return self.ev_ListComp(node, env)

    def ev_Call(self, node, env):
        # old(expr) in spec clauses
        if isinstance(node.func, ast.Name) and node.func.id == "old" and self.spec_mode:
            return self.ev(node.args[0], self.old_env or env)
        fv = self.ev(node.func, env)
        args = []
        for a in node.args:
            if isinstance(a, ast.Starred):
                args.extend(self.iter_concrete(self.ev(a.value, env)))
            else:
                args.append(self.ev(a, env))
        kwargs = {k.arg: self.ev(k.value, env) for k in node.keywords}
        return self.call(fv, args, kwargs, node)

    old_env = None

    def call(self, fv, args, kwargs=None, node=None):
        kwargs = kwargs or {}
        if isinstance(fv, Ext):
            if not callable(fv.fn):
                raise OutsideSubset("external {} is not callable".format(fv.name))
            return fv.fn(self, *args, **kwargs)
        if isinstance(fv, Closure):
            return self.call_closure(fv, args, kwargs)
        if isinstance(fv, FuncRef):
            return self.call_funcref(fv, args, kwargs)
        if isinstance(fv, BoundMethod):
            return self.call_funcref(fv.func, [fv.obj] + list(args), kwargs)
        if isinstance(fv, ClassRef):
            return self.instantiate(fv, args, kwargs)
        if isinstance(fv, SpecClosure):
            return self.apply_spec_closure(fv, args)
        if isinstance(fv, Ref):
            hook = fv.call or self.ref_call_hooks.get(fv.sort)
            if hook:
                return hook(self, fv, args)
        if callable(fv) and not isinstance(fv, (Obj,)):
            return fv(self, *args, **kwargs)
        raise OutsideSubset("call of %r" % (fv,))

    def instantiate(self, cref, args, kwargs):
        obj = Obj(cref.name, {"__module__": cref.module})
        init = self.resolve_method(cref.module, cref.name, "__init__")
        if init is not None:
            self.call_funcref(init, [obj] + list(args), kwargs)
        return obj

    def call_funcref(self, fr, args, kwargs):
        c = self.contracts.get(fr.target)
        inline = (self.cur_contract is not None and fr.target in self.cur_contract.inline_callees)
        if c is not None and not inline and fr.target != self.verifying_body_of:
            return self.apply_contract(c, fr, args, kwargs)
        m, fnode, cls = self.find_function(fr.target)
        if self.call_depth > 40:
            raise NeedsContract("recursion through {} needs a contract".format(fr.target))
        clo = Closure(fnode, Env(None, {"__module__": fr.module, "__class__": cls}), fr.module, cls=cls, name=fr.qualname)
        return self.call_closure(clo, args, kwargs)

    def bind_params(self, fnode, closure, args, kwargs):
        a = fnode.args
        names = [x.arg for x in a.args]
        env = Env(closure.env, {"__module__": closure.module, "__class__": closure.cls})
        defaults = a.defaults
        nd = len(defaults)
        bound = {}
        if len(args) > len(names) and not a.vararg:
            raise OutsideSubset("too many positional arguments for " + closure.name)
        for n, v in zip(names, args):
            bound[n] = v
        if a.vararg:
            bound[a.vararg.arg] = tuple(args[len(names):])
        for k, v in kwargs.items():
            if k in bound:
                raise OutsideSubset("duplicate argument " + k)
            bound[k] = v
        for i, n in enumerate(names):
            if n not in bound:
                di = i - (len(names) - nd)
                if di >= 0:
                    # a mutable default (def f(x, _memo={})) is created once per process: state shared between calls
                    kind = self.mutable_container_kind(defaults[di])
                    if kind == "dict":
                        key = (closure.module, "<default of {}>".format(closure.name), n)
                        if key not in self.module_globals:
                            self.module_globals[key] = OpaqueDict("{}.{}".format(closure.name, n))
                            self.used_assumptions.add("mutable default arguments are arbitrary state at function entry")
                        bound[n] = self.module_globals[key]
                        continue
                    if kind == "seq":
                        raise OutsideSubset("mutable default argument {} of {} (state shared between calls) is not modelled".format(n, closure.name))
                    bound[n] = self.ev(defaults[di], Env(None, {"__module__": closure.module}))
                else:
                    raise OutsideSubset("missing argument {} for {}".format(n, closure.name))
        env.vars.update(bound)
        return env

    @staticmethod
    def check_decorators(fnode, name):
        """only decorators that do not change the call semantics under CPython are accepted (anything else, e.g. a cache
        decorator, would be silently ignored otherwise)"""
        for d in getattr(fnode, "decorator_list", []):
            f = d.func if isinstance(d, ast.Call) else d
            if isinstance(f, ast.Name) and f.id in ("property", "staticmethod"):
                continue
            if isinstance(f, ast.Attribute) and isinstance(f.value, ast.Name) and f.value.id == "cython":
                continue
            raise OutsideSubset("decorator `{}` on {} is not modelled".format(ast.unparse(d), name))

    def call_closure(self, clo, args, kwargs):
        fnode = clo.node
        self.check_decorators(fnode, clo.name)
        env = self.bind_params(fnode, clo, args, kwargs)
        if isinstance(fnode, ast.Lambda):
            return self.ev(fnode.body, env)
        self.call_depth += 1
        self.module_stack.append(clo.module)
        try:
            self.exec_block(fnode.body, env)
            return None
        except ReturnEx as r:
            return r.value
        finally:
            self.call_depth -= 1
            self.module_stack.pop()

    # -- contracts at call sites -----------------------------------------------------------
    def clause_env(self, base_env, extra):
        e = Env(base_env)
        e.vars.update(extra)
        return e

    def ev_clause(self, text, env):
        tree = ast.parse(text.strip(), mode="eval")
        self.spec_mode += 1
        try:
            v = self.ev(tree.body, env)
        finally:
            self.spec_mode -= 1
        return self.truth(v)

    def apply_contract(self, c, fr, args, kwargs):
        m, fnode, cls = self.find_function(fr.target)
        clo = Closure(fnode, Env(None, {"__module__": fr.module, "__class__": cls}), fr.module, cls=cls, name=fr.qualname)
        env = self.bind_params(fnode, clo, args, kwargs)
        self.add_ghosts(c, env)
        short = fr.qualname
        if self.skip_pre:
            # lazily evaluated element of a map/imap result: preconditions were checked once for an arbitrary
            # in-range index when the sequence was created; the value must be a term of the arguments
            if c.result_term is None:
                raise OutsideSubset("lazy application of {} needs a result_term".format(fr.target))
            return c.result_term(self, env)
        for i, cl in enumerate(c.requires):
            lab, text = clause_parts(cl)
            self.oblige("call:{}/pre{}[{}]".format(short, i, lab or " ".join(text.split())[:50]), self.ev_clause(text, env))
        if c.returns_closure:
            return SpecClosure(c, env, short)
        for cond_text, lit in c.literal_cases:
            t = self.ev_clause(cond_text, env)
            if self.decide(t, "call:{}[{}]".format(short, cond_text)) if not isinstance(t, bool) else t:
                return lit
        self.ghost_call_env = env
        if c.result_term is not None:
            res = c.result_term(self, env)
        else:
            res = self.make(c.result, "res_" + short.replace(".", "_"))
        env.vars["result"] = res
        for cl in c.ensures:
            lab, text = clause_parts(cl)
            self.assume(to_z3(self.ev_clause(text, env)))
        return res

    def add_ghosts(self, c, env):
        for g, text in c.ghosts.items():
            tree = ast.parse(text.strip(), mode="eval")
            self.spec_mode += 1
            try:
                env.vars[g] = self.ev(tree.body, env)
            finally:
                self.spec_mode -= 1

    def apply_spec_closure(self, sc, args):
        rc = sc.contract.returns_closure
        env = Env(sc.env)
        for n, v in zip(rc["params"], args):
            env.vars[n] = v
        for g, text in rc.get("ghosts", {}).items():
            tree = ast.parse(text.strip(), mode="eval")
            self.spec_mode += 1
            try:
                env.vars[g] = self.ev(tree.body, env)
            finally:
                self.spec_mode -= 1
        res = self.make(rc.get("result", "Real"), "res_" + sc.label)
        env.vars["result"] = res
        for cl in rc["ensures"]:
            lab, text = clause_parts(cl)
            self.assume(to_z3(self.ev_clause(text, env)))
        return res

    # ------------------------------------------------------------------------------------
    # statements
    def exec_block(self, stmts, env):
        for st in stmts:
            m = getattr(self, "ex_" + type(st).__name__, None)
            if m is None:
                raise OutsideSubset("statement {} (line {})".format(type(st).__name__, st.lineno))
            m(st, env)

    def ex_Pass(self, st, env):
        pass

    def ex_Try(self, st, env):
        try:
            self.exec_block(st.body, env)
        except ExternalRaise as e:
            for h in st.handlers:
                names = []
                if h.type is None:
                    names = None
                elif isinstance(h.type, ast.Name):
                    names = [h.type.id]
                elif isinstance(h.type, ast.Tuple):
                    names = [t.id for t in h.type.elts if isinstance(t, ast.Name)]
                if names is None or e.kind in names or any(p in names for p in _EXC_PARENTS.get(e.kind, [])):
                    self.path_labels.append("except[{}]".format(e.kind))
                    self.exec_block(h.body, env)
                    break
            else:
                if st.finalbody:
                    self.exec_block(st.finalbody, env)
                raise
        else:
            if st.orelse:
                self.exec_block(st.orelse, env)
        if st.finalbody:
            self.exec_block(st.finalbody, env)

    def ex_Global(self, st, env):
        pass

    def ex_Import(self, st, env):
        pass

    ex_ImportFrom = ex_Import

    def ex_Expr(self, st, env):
        if isinstance(st.value, ast.Constant):
            return
        if isinstance(st.value, ast.Call) and isinstance(st.value.func, ast.Name) and st.value.func.id == "print":
            return
        self.ev(st.value, env)

    def ex_Return(self, st, env):
        raise ReturnEx(self.ev(st.value, env) if st.value is not None else None)

    def ex_Break(self, st, env):
        raise BreakEx()

    def ex_Continue(self, st, env):
        raise ContinueEx()

    def ex_FunctionDef(self, st, env):
        env.vars[st.name] = Closure(st, env, env.lookup("__module__"),
                                    cls=env.lookup("__class__") if env.has("__class__") else None, name=st.name)

    def ex_Assign(self, st, env):
        v = self.ev(st.value, env)
        for t in st.targets:
            self.assign(t, v, env)

    def ex_AnnAssign(self, st, env):
        if st.value is not None:
            self.assign(st.target, self.ev(st.value, env), env)

    def assign(self, target, v, env):
        if isinstance(target, ast.Name):
            env.vars[target.id] = v
        elif isinstance(target, (ast.Tuple, ast.List)):
            items = self.iter_concrete(v)
            if len(items) != len(target.elts):
                raise OutsideSubset("unpack arity (line {})".format(target.lineno))
            for t, x in zip(target.elts, items):
                self.assign(t, x, env)
        elif isinstance(target, ast.Attribute):
            base = self.ev(target.value, env)
            attr = self.mangle(target.attr, env)
            if isinstance(base, Obj):
                base.fields[attr] = v
            elif isinstance(base, Ref) and base.sort == "Elem" and attr not in base.attrs and (isinstance(v, bool) or (is_sym(v) and z3.is_bool(v))):
                hp = self.ghost_heap(attr)
                self.ghost["__ghost_heap__"][attr] = z3.Store(hp, base.term, to_z3(v))
            else:
                for hook in self.setattr_hooks:
                    if hook(self, base, attr, v) is not NotImplemented:
                        return
                raise OutsideSubset("attribute store on %r" % (base,))
        elif isinstance(target, ast.Subscript):
            base = self.ev(target.value, env)
            idx = self.ev(target.slice, env) if not isinstance(target.slice, ast.Slice) else target.slice
            for hook in self.setitem_hooks:
                if hook(self, base, idx, v) is not NotImplemented:
                    return
            if isinstance(base, (VList, Vec)) and isinstance(idx, int):
                base.items[idx] = v
            elif isinstance(base, dict):
                base[idx] = v
            elif isinstance(base, SymDict):
                base.items.append((idx, v))
            else:
                raise OutsideSubset("subscript store")
        else:
            raise OutsideSubset("assignment target")

    setattr_hooks = []
    setitem_hooks = []

    def ex_AugAssign(self, st, env):
        op = {ast.Add: "+", ast.Sub: "-", ast.Mult: "*", ast.Div: "/"}.get(type(st.op))
        if op is None:
            raise OutsideSubset("augmented op")
        load = ast.copy_location(_as_load(st.target), st.target)
        cur = self.ev(load, env)
        rhs = self.ev(st.value, env)
        if isinstance(cur, VList) and op == "+":
            cur.items.extend(self.iter_concrete(rhs))
            return
        if isinstance(cur, SymSeq) and isinstance(rhs, SymSeq) and op == "+" and not getattr(cur, "is_array", False):
            self.assign(st.target, self.seq_concat(cur, rhs), env)
            return
        # numpy semantics: `a op= b` on an array updates the array object IN PLACE, so every alias (an attribute of another object,
        # a second local name) sees the change; rebinding the name would hide "in-place modification of a shared array"
        if isinstance(cur, Vec):
            new = self.arith(op, Vec(list(cur.items)), rhs, st)
            if isinstance(new, Vec) and len(new.items) == len(cur.items):
                cur.items[:] = new.items
                self.assign(st.target, cur, env)
                return
            self.assign(st.target, new, env)
            return
        if getattr(cur, "is_array", False) and hasattr(cur, "elem"):
            snapshot = type(cur)(cur.length, cur.elem, getattr(cur, "label", "arr"))
            new = self.arith(op, snapshot, rhs, st)
            if type(new) is type(cur):
                cur.elem = new.elem
                self.assign(st.target, cur, env)
                return
            self.assign(st.target, new, env)
            return
        self.assign(st.target, self.arith(op, cur, rhs, st), env)

    def seq_concat(self, a, b):
        na = to_z3(a.length)

        def elem(i, a=a, b=b, na=na):
            i = to_z3(i)
            return self.ite_value(i < na, a.elem(i), b.elem(i - na))
        return SymSeq(self.arith("+", a.length, b.length), elem, "concat")

    def ite_value(self, cond, x, y):
        """if-then-else on values (numbers, references, fixed tuples)"""
        if isinstance(x, tuple) and isinstance(y, tuple) and len(x) == len(y):
            return tuple(self.ite_value(cond, p, q) for p, q in zip(x, y))
        if isinstance(x, Ref) and isinstance(y, Ref):
            return Ref(x.sort, z3.If(cond, x.term, y.term), call=x.call, attrs=self.ite_attrs(cond, x, y))
        if is_num(x) and is_num(y):
            zx, zy = to_z3(x), to_z3(y)
            if not (z3.is_int(zx) and z3.is_int(zy)):
                zx, zy = to_real(zx), to_real(zy)
            return z3.If(cond, zx, zy)
        raise OutsideSubset("if-then-else on %r / %r" % (type(x).__name__, type(y).__name__))

    def ite_attrs(self, cond, x, y):
        hook = self.ref_rebuild_hooks.get(x.sort)
        return hook(self, z3.If(cond, x.term, y.term)).attrs if hook else {}

    ref_rebuild_hooks = {}

    def ex_If(self, st, env):
        label = "if[{}]".format(src_of(st.test, self.cur_source(env), 48))
        t = self.eval_test(st.test, env, label)
        self.exec_block(st.body if t else st.orelse, env)

    def eval_test(self, test, env, label):
        # first try: evaluate the whole test purely (one decision); fall back to python's short-circuit forks
        saved = (len(self.pc), self.didx, list(self.path_labels))
        self.spec_mode += 1
        self.no_oblig += 1
        try:
            v = self.truth(self.ev(test, env))
            pure = True
        except NeedCodeMode:
            pure = False
        finally:
            self.spec_mode -= 1
            self.no_oblig -= 1
        if pure:
            return self.decide(v, label) if not isinstance(v, bool) else v
        return self.branch(self.ev(test, env), label)

    def ex_Assert(self, st, env):
        label = "assert[{}]@{}".format(src_of(st.test, self.cur_source(env), 48), self._fn_ordinal(st))
        self.spec_mode += 1
        try:
            try:
                v = self.truth(self.ev(st.test, env))
            except NeedCodeMode:
                self.spec_mode -= 1
                try:
                    v = self.truth(self.ev(st.test, env))
                finally:
                    self.spec_mode += 1
        finally:
            self.spec_mode -= 1
        if id(st) in self.precond_asserts:
            self.assume(to_z3(v) if not isinstance(v, bool) else v)
            return
        self.oblige(label, v, dict(kind="assert", line=st.lineno))

    precond_asserts = frozenset()
    verifying_body_of = None
    skip_pre = 0

    def _fn_ordinal(self, st):
        return "L{}".format(st.lineno - self.cur_fn_line) if self.cur_fn_line is not None else "L?"

    cur_fn_line = None

    # loops --------------------------------------------------------------------------------
    def loop_contract(self, st):
        c = self.cur_contract
        if c is None:
            return None
        ordn = self.loop_ordinals.get(id(st))
        return c.loops.get(ordn)

    loop_ordinals = {}

    def ex_For(self, st, env):
        it = self.ev(st.iter, env)
        lc = self.loop_contract(st)
        if lc is not None and lc.abort:
            self.path_labels.append("loop-covered-by-other-scenario")
            raise PathEnd()
        if lc is None:
            try:
                items = self.iter_concrete(it)
            except OutsideSubset:
                raise NeedsContract("loop at line {} over a symbolic sequence needs an invariant".format(st.lineno))
            broke = False
            for item in items:
                self.assign(st.target, item, env)
                try:
                    self.exec_block(st.body, env)
                except BreakEx:
                    broke = True
                    break
                except ContinueEx:
                    continue
            if not broke and st.orelse:
                self.exec_block(st.orelse, env)
            return
        if not isinstance(it, SymSeq):
            try:
                items = self.iter_concrete(it)
                it = SymSeq(len(items), None, "concrete")
                it.items = items
            except OutsideSubset:
                raise OutsideSubset("loop contract on non-sequence at line {}".format(st.lineno))
        self.cut_loop(st, env, lc, it)

    def eval_ghost_pre(self, lc, env):
        for cl in lc.assumes:
            lab, text = clause_parts(cl)
            self.assume(to_z3(self.ev_clause(text, env)))
        for g, text in lc.ghost_pre.items():
            tree = ast.parse(text.strip(), mode="eval")
            self.spec_mode += 1
            try:
                env.vars[g] = self.ev(tree.body, env)
            finally:
                self.spec_mode -= 1

    _MUTATORS = ("append", "extend", "insert", "pop", "remove", "clear", "sort", "reverse", "add", "discard", "update",
                 "setdefault", "popitem", "fill", "put", "resize")

    def check_loop_frame(self, st, env, lc):
        """frame of a loop cut: every local that the body may change and that exists before the loop (rebinding, augmented assignment,
        stores through a subscript / attribute, mutating method calls on the name) has to be listed in `modifies`; otherwise the
        arbitrary iteration would start from the loop-entry value of that variable (unsound).  A body that changes something outside
        the frame needs a contract: the function is outside the verified subset until the sidecar is extended"""
        changed = set()

        def base_name(t):
            while isinstance(t, (ast.Subscript, ast.Attribute)):
                t = t.value
            return t.id if isinstance(t, ast.Name) else None

        def targets(t):
            if isinstance(t, ast.Name):
                changed.add(t.id)
            elif isinstance(t, (ast.Tuple, ast.List)):
                for e in t.elts:
                    targets(e)
            elif isinstance(t, ast.Starred):
                targets(t.value)
            elif isinstance(t, (ast.Subscript, ast.Attribute)):
                b = base_name(t)
                if b:
                    changed.add(b)
        targets(st.target) if isinstance(st, ast.For) else None
        for node in [n for b in st.body for n in ast.walk(b)]:
            if isinstance(node, ast.Assign):
                for t in node.targets:
                    targets(t)
            elif isinstance(node, (ast.AugAssign, ast.AnnAssign)):
                targets(node.target)
            elif isinstance(node, (ast.For, ast.comprehension)):
                if isinstance(node, ast.For):
                    targets(node.target)
            elif isinstance(node, ast.NamedExpr):
                targets(node.target)
            elif isinstance(node, ast.With):
                for it in node.items:
                    if it.optional_vars is not None:
                        targets(it.optional_vars)
            elif isinstance(node, ast.Call) and isinstance(node.func, ast.Attribute) and node.func.attr in self._MUTATORS:
                b = base_name(node.func.value)
                if b:
                    changed.add(b)
            elif isinstance(node, ast.Delete):
                for t in node.targets:
                    targets(t)
        missing = sorted(n for n in changed if n not in lc.modifies and n != "self" and env.has(n)
                         and not isinstance(env.lookup(n), (FuncRef, ClassRef, Ext)))
        if missing:
            raise NeedsContract("loop at line {}: the body changes {} which the loop contract's frame (modifies) does not list".format(
                st.lineno, ", ".join(missing)))

    def cut_loop(self, st, env, lc, seq):
        tag = lc.label or "loop@{}".format(self._fn_ordinal(st))
        self.check_loop_frame(st, env, lc)
        n = seq.length
        k0 = env.vars.get(lc.index)
        self.eval_ghost_pre(lc, env)
        # 1. establish
        e0 = Env(env, {lc.index: 0, "__n__": n})
        for i, cl in enumerate(lc.invariant):
            lab, text = clause_parts(cl)
            self.oblige("{}/establish/inv{}[{}]".format(tag, i, lab or " ".join(text.split())[:40]), self.ev_clause(text, e0))
        # 2. havoc
        old_snapshot = Env(None, dict(env.vars))
        for name, typ in lc.modifies.items():
            env.vars[name] = self.make(typ, name)
        self.ghost.pop("__ghost_heap__", None)      # stores of earlier iterations: the ghost heap is arbitrary at the cut
        k = self.fresh(lc.index, "Int")
        which = self.choose(2, tag)
        if which == 0:
            # arbitrary iteration
            self.assume(k >= 0)
            self.assume(num_cmp("<", k, n))
            ek = Env(env, {lc.index: k, "__n__": n})
            for cl in lc.invariant:
                lab, text = clause_parts(cl)
                self.assume(to_z3(self.ev_clause(text, ek)))
            if getattr(seq, "items", None) is not None:
                raise OutsideSubset("loop contract over a concrete sequence: unroll instead")
            for cl in lc.unfold:
                lab, text = clause_parts(cl)
                self.assume(to_z3(self.ev_clause(text, ek)))
            self.assign(st.target, seq.elem(k), env)
            self.ghost[lc.index] = k
            try:
                self.exec_block(st.body, env)
            except ContinueEx:
                pass
            except BreakEx:
                return   # continue after the loop with the state at the break
            ek1 = Env(env, {lc.index: k + 1, "__n__": n})
            for i, cl in enumerate(lc.invariant):
                lab, text = clause_parts(cl)
                self.oblige("{}/preserve/inv{}[{}]".format(tag, i, lab or " ".join(text.split())[:40]), self.ev_clause(text, ek1))
            raise PathEnd()
        else:
            # exit after n iterations
            self.assume(num_cmp("==", k, n))
            self.assume(k >= 0)
            ek = Env(env, {lc.index: k, "__n__": n})
            for cl in lc.invariant:
                lab, text = clause_parts(cl)
                self.assume(to_z3(self.ev_clause(text, ek)))
            self.ghost[lc.index] = k
            env.vars["__{}_exit__".format(lc.index)] = k
            if st.orelse:
                self.exec_block(st.orelse, env)

    def ex_While(self, st, env):
        lc = self.loop_contract(st)
        if lc is None:
            count = 0
            while True:
                t = self.truth(self.ev(st.test, env))
                if not isinstance(t, bool):
                    raise NeedsContract("while loop at line {} with symbolic condition needs an invariant".format(st.lineno))
                if not t:
                    break
                count += 1
                if count > 10000:
                    raise OutsideSubset("concrete while loop does not terminate within 10000 iterations")
                try:
                    self.exec_block(st.body, env)
                except BreakEx:
                    break
                except ContinueEx:
                    continue
            return
        tag = lc.label or "while@{}".format(self._fn_ordinal(st))
        self.check_loop_frame(st, env, lc)
        self.eval_ghost_pre(lc, env)
        for i, cl in enumerate(lc.invariant):
            lab, text = clause_parts(cl)
            self.oblige("{}/establish/inv{}[{}]".format(tag, i, lab or " ".join(text.split())[:40]), self.ev_clause(text, env))
        for name, typ in lc.modifies.items():
            env.vars[name] = self.make(typ, name)
        self.ghost.pop("__ghost_heap__", None)      # stores of earlier iterations: the ghost heap is arbitrary at the cut
        for cl in lc.invariant:
            lab, text = clause_parts(cl)
            self.assume(to_z3(self.ev_clause(text, env)))
        t = self.eval_test(st.test, env, tag + "/cond")
        if t:
            try:
                self.exec_block(st.body, env)
            except ContinueEx:
                pass
            except BreakEx:
                return
            for i, cl in enumerate(lc.invariant):
                lab, text = clause_parts(cl)
                self.oblige("{}/preserve/inv{}[{}]".format(tag, i, lab or " ".join(text.split())[:40]), self.ev_clause(text, env))
            raise PathEnd()

    # ------------------------------------------------------------------------------------
    # verifying one function against its contract
    def verify(self, contract, max_paths=4000):
        """generate all obligations of `contract.target`; returns number of completed paths"""
        m, fnode, cls = self.find_function(contract.target)
        self.check_decorators(fnode, contract.target)
        scenarios = contract.setup(self) if contract.setup else [dict(label="", args={}, assume=[])]
        total_paths = 0
        # loop ordinals (source order)
        self.loop_ordinals = {}
        loops = [sub for sub in ast.walk(fnode) if isinstance(sub, (ast.For, ast.While))]
        loops.sort(key=lambda nd: (nd.lineno, nd.col_offset))   # source order
        for n, sub in enumerate(loops):
            self.loop_ordinals[id(sub)] = n
        pre = set()
        for st in fnode.body:
            if isinstance(st, ast.Expr) and isinstance(st.value, ast.Constant):
                continue
            if isinstance(st, ast.Assert) and len(pre) < contract.precondition_asserts:
                pre.add(id(st))
                continue
            if len(pre) >= contract.precondition_asserts:
                break
        for sc in scenarios:
            pending = [[]]
            done = 0
            while pending:
                prefix = pending.pop()
                if total_paths >= max_paths:
                    raise GeneratorError("{}: more than {} paths".format(contract.target, max_paths))
                self._reset_run()
                self.pending = pending
                self.prefix = list(prefix)
                self.solver = z3.Solver()
                self.solver.set("timeout", 5000)
                for ax in self.axioms:
                    self.solver.add(ax)
                self.cur_target = contract.target
                self.cur_contract = contract
                self.cur_scenario = sc
                self.cur_fn_line = fnode.lineno
                self.precond_asserts = frozenset(pre)
                if sc.get("label"):
                    self.path_labels.append("sc:" + sc["label"])
                try:
                    args = sc["args"](self) if callable(sc["args"]) else dict(sc["args"])
                    sc["_args_built"] = args
                    clo = Closure(fnode, Env(None, {"__module__": m.name, "__class__": cls}), m.name, cls=cls,
                                  name=contract.target)
                    env = self.bind_params(fnode, clo, [], args)
                    env.vars.update(sc.get("ghosts", {}))
                    for a in sc.get("assume", []):
                        a = a(self, args) if callable(a) else a
                        self.assume(a)
                    self.add_ghosts(contract, env)
                    for cl in contract.requires:
                        lab, text = clause_parts(cl)
                        self.assume(to_z3(self.ev_clause(text, env)))
                    if not self.feasible():
                        raise GeneratorError("{}: precondition unsatisfiable (vacuous contract), scenario {}".format(
                            contract.target, sc.get("label")))
                    pre_env = Env(None, dict(env.vars))
                    try:
                        if isinstance(fnode, ast.Lambda):
                            result = self.ev(fnode.body, env)
                        else:
                            self.call_depth += 1
                            self.module_stack.append(m.name)
                            body = fnode.body if contract.body_select is None else contract.body_select(fnode.body)
                            self.exec_block(body, env)
                            result = None
                    except ReturnEx as r:
                        result = r.value
                    except ExternalRaise as e:
                        self.oblige("no-exception-escapes[{} from {}]".format(e.kind, e.where), False,
                                    dict(kind="raise"))
                    # postconditions
                    post_env = Env(env, {"result": result})
                    self.old_env = pre_env
                    if contract.returns_closure is not None:
                        self.check_returned_closure(contract, result, env)
                    for i, cl in enumerate(contract.ensures):
                        lab, text = clause_parts(cl)
                        self.oblige("post{}[{}]".format(i, lab or " ".join(text.split())[:60]), self.ev_clause(text, post_env),
                                    dict(kind="post"))
                    if contract.post_hook:
                        contract.post_hook(self, post_env, result)
                    self.old_env = None
                    done += 1
                except PathEnd:
                    done += 1
                except Infeasible:
                    self.stats["infeasible"] += 1
                total_paths += 1
            if done == 0:
                raise GeneratorError("{}: no feasible path (vacuous), scenario {}".format(contract.target, sc.get("label")))
        self.stats["paths"] += total_paths
        self.stats["functions"][contract.target] = total_paths
        return total_paths

    def check_returned_closure(self, contract, result, env):
        rc = contract.returns_closure
        if not isinstance(result, (Closure, Ext, FuncRef, BoundMethod, SpecClosure)):
            self.oblige("returns-closure", False)
        params = [self.make(t, "arg_" + p) for p, t in zip(rc["params"], rc.get("param_types", ["Real"] * len(rc["params"])))]
        for a in rc.get("assume", []):
            pass
        saved_target = self.cur_target
        r = self.call(result, params)
        cenv = Env(env, dict(zip(rc["params"], params)))
        for g, text in rc.get("ghosts", {}).items():
            tree = ast.parse(text.strip(), mode="eval")
            self.spec_mode += 1
            try:
                cenv.vars[g] = self.ev(tree.body, cenv)
            finally:
                self.spec_mode -= 1
        cenv.vars["result"] = r
        for i, cl in enumerate(rc["ensures"]):
            lab, text = clause_parts(cl)
            self.oblige("closure-post{}[{}]".format(i, lab or " ".join(text.split())[:60]), self.ev_clause(text, cenv),
                        dict(kind="post"))


def _as_load(target):
    t = ast.parse(ast.unparse(target), mode="eval").body
    return t
