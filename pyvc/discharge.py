"""Turn engine obligations into SMT queries, solve them on the pool, map results to vlib.core.Ob."""
import re
from fractions import Fraction

import z3

from vlib import smt
from vlib.core import Ob, DISCHARGED, FAILED, UNDECIDED, ERROR
from vlib.replay import attach


def parse_num(s):
    """z3 model value string -> Fraction (None if not a plain rational)"""
    if s is None:
        return None
    s = s.strip()
    try:
        if s.endswith("?"):
            s = s[:-1]
        if "/" in s:
            a, b = s.split("/")
            return Fraction(int(a), int(b))
        return Fraction(s)
    except Exception:
        if s in ("True", "False"):
            return s == "True"
        return None


def model_values(model):
    out = {}
    if isinstance(model, dict):
        for k, v in model.items():
            out[k] = parse_num(v)
    return out


_unknown_replayed = {}


def discharge(engine, chk, contracts_by_target=None, opts=None, expect_fail=None):
    """expect_fail: set of obligation names that are must-fail canaries (sat expected)"""
    opts = opts or {}
    queries = []
    byname = {}
    seen = {}
    for ob in engine.obligations:
        name = ob.name
        if name in seen:
            seen[name] += 1
            name = "{}~{}".format(name, seen[name])
        else:
            seen[name] = 0
        ob.name = name
        byname[name] = ob
        if z3.is_true(ob.goal):
            continue
        text = smt.to_smt2(list(engine.axioms) + list(ob.pc) + [z3.Not(ob.goal)])
        queries.append((name, text, ob.meta.get("smt_opts", {})))
    results = smt.solve_many(queries, opts=opts)
    out = []
    for name, ob in byname.items():
        if z3.is_true(ob.goal):
            out.append(Ob(name, DISCHARGED, backend="trivial"))
            continue
        st, be, dt, info = results[name]
        if st == "unsat":
            out.append(Ob(name, DISCHARGED, backend=be, seconds=dt))
        elif st == "sat":
            o = Ob(name, FAILED, backend=be, seconds=dt, model=info if isinstance(info, dict) else str(info),
                   detail=dict(goal=str(ob.goal)[:600], scenario=ob.meta.get("scenario")))
            target = name.split("/")[1] if "/" in name else None
            c = (contracts_by_target or {}).get(target)
            if c is not None and c.replay is not None:
                try:
                    code = c.replay(model_values(info), ob.meta.get("scenario_obj"), ob)
                except Exception as e:  # replay construction must never turn into a verdict
                    code = None
                    o.detail["replay_error"] = repr(e)
                if code:
                    attach(o, code, raises_is_violation=ob.meta.get("raises_is_violation", True), bucket="modeS")
            if "replay-required" in name and not (o.replay and o.replay.get("confirmed")):
                # the clause is stricter than the property's sentence (it forbids more than the property does); a failed proof
                # counts as a violation only with a concrete input on the real code that violates the property itself
                o.status = UNDECIDED
                o.detail["downgraded"] = "clause stricter than the property; no violating input of the property found by the replay"
            out.append(o)
        elif st == "error":
            out.append(Ob(name, ERROR, backend=be, seconds=dt, detail=dict(err=str(info)[:500])))
        else:
            o = Ob(name, UNDECIDED, backend=be, seconds=dt, detail=dict(reason=str(info)[:300]))
            # an undecided obligation is never a violation by itself; if the contract can drive the real function and a concrete
            # input violates the clause on the real code, that replay (not the solver) is the evidence
            target = name.split("/")[1] if "/" in name else None
            c = (contracts_by_target or {}).get(target)
            if c is not None and getattr(c, "replay_on_unknown", None) is not None and not _unknown_replayed.get(target):
                _unknown_replayed[target] = True
                try:
                    code = c.replay_on_unknown({}, ob.meta.get("scenario_obj"), ob)
                except Exception as e:
                    code = None
                if code:
                    attach(o, code, raises_is_violation=True, bucket="modeS-unknown")
                    if o.replay and o.replay.get("confirmed"):
                        o.status = FAILED
                        o.backend = "replay-after-solver-unknown"
            out.append(o)
    if chk is not None:
        chk.extend(out)
    return out
