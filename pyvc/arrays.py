"""Functional model of 1-D NumPy vectors: NArr(length, elem) with elem: index term -> value.

Element-wise operators compose the element functions, so `a + (b - a) * self.points` is a term.
Reductions are uninterpreted: np.dot(u, w) = DOT(n, lambda i. u_i, lambda i. w_i), np.sum(u) = SUM(n, lambda i. u_i)
(z3 lambda arrays; congruence and extensionality of the lambda terms are decided by z3).
Assumed contracts (ids are reported in the evidence):
  X-REPEAT  np.repeat(a, m)[k] == a[k // m],  len == len(a) * m
  X-TILE    np.tile(a, m)[k]   == a[k % len(a)], len == len(a) * m
  X-KRON    np.kron(a, b)[k]   == a[k // len(b)] * b[k % len(b)], len == len(a) * len(b)
  X-HSTACK  np.hstack([a, b])[k] == a[k] if k < len(a) else b[k - len(a)], len == len(a) + len(b)
  X-DOT     np.dot / np.sum are functions of (length, element function) only
"""
import z3

from . import engine as E
from . import externals as X
from .engine import Vec, OutsideSubset, is_sym, is_num, to_z3, to_real, num_cmp

IdxArr = z3.ArraySort(z3.IntSort(), z3.RealSort())
DOT = z3.Function("DOT", z3.IntSort(), IdxArr, IdxArr, z3.RealSort())
SUM = z3.Function("SUM", z3.IntSort(), IdxArr, z3.RealSort())


_LAM_DEPTH = [0]


def mk_lambda(f):
    """lambda i. f(i) with a bound name that depends on the nesting depth of the construction: an element function that itself
    builds DOT / SUM terms (nested lambdas) must not capture the enclosing index, and equal constructions stay syntactically equal"""
    d = _LAM_DEPTH[0]
    i = z3.Int("i!lam%d" % d if d else "i!lam")
    _LAM_DEPTH[0] += 1
    try:
        body = to_real(f(i))
    finally:
        _LAM_DEPTH[0] -= 1
    return z3.Lambda([i], body)


class NArr(E.SymSeq):
    is_array = True       # numpy semantics: `a += b` is element-wise addition, not list concatenation

    def __init__(self, length, elem, label="arr"):
        self.length = length
        self.elem = elem
        self.label = label

    @property
    def shape(self):
        return (self.length,)

    def __repr__(self):
        return "NArr({}, len={})".format(self.label, self.length)

    def lam(self):
        return mk_lambda(self.elem)


def named_array(name, length):
    """an arbitrary vector given by an uninterpreted function of the index"""
    f = z3.Function(name, z3.IntSort(), z3.RealSort())
    a = NArr(length, lambda i: f(to_z3(i)), name)
    a.func = f
    return a


def _arith_hook(eng, op, a, b):
    if not (isinstance(a, NArr) or isinstance(b, NArr)):
        return NotImplemented
    if isinstance(a, NArr) and isinstance(b, NArr):
        n = a.length
        same = num_cmp("==", a.length, b.length)
        if same is not True:
            if eng.spec_mode:
                pass
            else:
                eng.oblige("array-lengths-agree", same)
        return NArr(n, lambda i, a=a, b=b: eng.arith(op, a.elem(i), b.elem(i)))
    if isinstance(a, NArr):
        if isinstance(b, Vec):
            return Vec([_arith_hook(eng, op, a, y) for y in b.items])
        return NArr(a.length, lambda i, a=a, b=b: eng.arith(op, a.elem(i), b))
    if isinstance(a, Vec):
        return Vec([_arith_hook(eng, op, x, b) for x in a.items])
    return NArr(b.length, lambda i, a=a, b=b: eng.arith(op, a, b.elem(i)))


def _vec_arith_wrap(orig):
    def arith(self, op, a, b, node=None):
        # Vec x NArr broadcasting: (2,1)-vector minus (2,n)-array etc.
        if isinstance(a, Vec) and isinstance(b, NArr):
            return Vec([self.arith(op, x, b, node) for x in a.items])
        if isinstance(a, NArr) and isinstance(b, Vec):
            return Vec([self.arith(op, a, y, node) for y in b.items])
        return orig(self, op, a, b, node)
    return arith


def _index_hook(eng, base, idx):
    if isinstance(base, NArr):
        if isinstance(idx, tuple):
            raise OutsideSubset("multi-index on 1-D array")
        return base.elem(idx)
    return NotImplemented


def _len_hook(eng, v):
    if isinstance(v, NArr):
        return v.length
    return NotImplemented


def _sum_hook(eng, x, axis):
    if isinstance(x, NArr):
        eng.used_assumptions.add("X-DOT: np.dot/np.sum are functions of (length, element function) only")
        return SUM(to_z3(x.length), x.lam())
    return NotImplemented


def _dot(eng, a, b):
    if isinstance(a, NArr) and isinstance(b, NArr):
        eng.used_assumptions.add("X-DOT: np.dot/np.sum are functions of (length, element function) only")
        same = num_cmp("==", a.length, b.length)
        if same is not True and not eng.spec_mode:
            eng.oblige("dot-lengths-agree", same)
        return DOT(to_z3(a.length), a.lam(), b.lam())
    if is_num(a) and isinstance(b, NArr):
        # np.dot(scalar, v) is scalar * v
        return NArr(b.length, lambda i: eng.arith("*", a, b.elem(i)))
    if isinstance(a, NArr) and is_num(b):
        return NArr(a.length, lambda i: eng.arith("*", a.elem(i), b))
    raise OutsideSubset("np.dot of %r, %r" % (type(a).__name__, type(b).__name__))


def _repeat(eng, a, m, axis=None):
    eng.used_assumptions.add("X-REPEAT: np.repeat(a, m)[k] == a[k // m]")
    if isinstance(a, Vec) and axis == 1:
        return Vec([_repeat(eng, x, m) for x in a.items])
    if is_num(a):
        return NArr(m, lambda k: a)
    if isinstance(a, NArr):
        zm = to_z3(m)
        return NArr(eng.arith("*", a.length, m), lambda k: a.elem(E._floordiv(to_z3(k), zm)))
    raise OutsideSubset("np.repeat")


def _tile(eng, a, m):
    eng.used_assumptions.add("X-TILE: np.tile(a, m)[k] == a[k % len(a)]")
    if isinstance(a, NArr):
        n = to_z3(a.length)
        return NArr(eng.arith("*", a.length, m), lambda k: a.elem(to_z3(k) - n * E._floordiv(to_z3(k), n)))
    raise OutsideSubset("np.tile")


def _kron(eng, a, b):
    eng.used_assumptions.add("X-KRON: np.kron(a, b)[k] == a[k // len(b)] * b[k % len(b)]")
    if isinstance(a, NArr) and isinstance(b, NArr):
        nb = to_z3(b.length)
        return NArr(eng.arith("*", a.length, b.length),
                    lambda k: eng.arith("*", a.elem(E._floordiv(to_z3(k), nb)),
                                        b.elem(to_z3(k) - nb * E._floordiv(to_z3(k), nb))))
    raise OutsideSubset("np.kron")


def _hstack(eng, seq):
    eng.used_assumptions.add("X-HSTACK: np.hstack([a, b])[k] == a[k] if k < len(a) else b[k - len(a)]")
    items = eng.iter_concrete(seq)
    if all(isinstance(x, (Vec, E.VList, tuple)) for x in items):
        # list of coordinate lists: stack coordinate-wise
        rows = [eng.iter_concrete(x) for x in items]
        return Vec([_hstack(eng, [r[j] for r in rows]) for j in range(len(rows[0]))])
    if not all(isinstance(x, NArr) for x in items):
        raise OutsideSubset("np.hstack of non-arrays")
    out = items[0]
    for nxt in items[1:]:
        la = to_z3(out.length)

        def elem(k, out=out, nxt=nxt, la=la):
            k = to_z3(k)
            return z3.If(k < la, to_real(out.elem(k)), to_real(nxt.elem(k - la)))
        out = NArr(eng.arith("+", out.length, nxt.length), elem)
    return out


def _zeros(eng, shape):
    if isinstance(shape, tuple):
        raise OutsideSubset("np.zeros with tuple shape (2-D handled by matrix model)")
    return NArr(shape, lambda k: 0)


def _uf_over_arrays(ext):
    inner = ext.fn

    def f(eng, x, *rest):
        if isinstance(x, NArr):
            return NArr(x.length, lambda i, x=x: inner(eng, x.elem(i), *rest))
        return inner(eng, x, *rest)
    return E.Ext(ext.name, f)


def install(eng):
    """register the array layer on an engine (idempotent)"""
    cls = type(eng)
    if not getattr(cls, "_arrays_installed", False):
        cls.arith = _vec_arith_wrap(cls.arith)
        cls.arith_hooks = list(cls.arith_hooks) + [_arith_hook]
        cls.index_hooks = list(cls.index_hooks) + [_index_hook]
        X.LEN_HOOKS.append(_len_hook)
        X.SUM_HOOKS.append(_sum_hook)
        cls._arrays_installed = True
    np = eng.externals["np"].fn
    for k in ("exp", "sqrt", "abs", "cos", "sin"):
        np[k] = _uf_over_arrays(np[k]) if not getattr(np[k], "_arr", False) else np[k]
        np[k]._arr = True
    np["dot"] = E.Ext("np.dot", _dot)
    np["repeat"] = E.Ext("np.repeat", _repeat)
    np["tile"] = E.Ext("np.tile", _tile)
    np["kron"] = E.Ext("np.kron", _kron)
    np["hstack"] = E.Ext("np.hstack", _hstack)
    np["zeros"] = E.Ext("np.zeros", _zeros)
    for key in ("scipy.special.expi", "scipy.special.erf", "scipy.special.erfc", "scipy.special.exp1"):
        e = eng.externals[key]
        if not getattr(e, "_arr", False):
            ne = _uf_over_arrays(e)
            ne._arr = True
            eng.externals[key] = ne
