"""Assumed contracts of external functions (NumPy / SciPy / math / builtins), each with a stable id.

Every model is an uninterpreted symbol plus the axiom *instances* the proofs use, added at the
point of application (no quantifiers).  Each use is recorded in engine.used_assumptions.
"""
from fractions import Fraction

import z3

from .engine import (Ext, Vec, VList, SymSeq, Obj, Ref, Closure, OutsideSubset, is_sym, is_num, to_z3, to_real,
                     num_cmp, num_binop, b_and, b_or, b_not)

R = z3.RealSort()
EXP = z3.Function("EXP", R, R)
EI = z3.Function("EI", R, R)
E1 = z3.Function("E1", R, R)
ERF = z3.Function("ERF", R, R)
ERFC = z3.Function("ERFC", R, R)
SQRT = z3.Function("SQRT", R, R)
COS = z3.Function("COS", R, R)
SIN = z3.Function("SIN", R, R)
ISCLOSE = z3.Function("ISCLOSE", R, R, z3.BoolSort())

FPI_INV = z3.Real("FPI_INV")
PI = z3.Real("PI")
PI_SQRT = z3.Real("PI_SQRT")

CONST_AXIOMS = [FPI_INV > 0, PI > 3, PI < 4, PI_SQRT > 0, PI_SQRT * PI_SQRT == PI, FPI_INV * 4 * PI == 1]


def elementwise(fn):
    def wrapped(eng, x, *rest, **kw):
        if isinstance(x, Vec):
            return Vec([wrapped(eng, xi, *rest, **kw) for xi in x.items])
        return fn(eng, x, *rest, **kw)
    return wrapped


def uf1(sym, ident, note, axioms=None):
    @elementwise
    def f(eng, x):
        eng.used_assumptions.add("{}: {}".format(ident, note))
        t = sym(to_real(x))
        if axioms:
            for ax in axioms(to_real(x), t):
                eng.assume(ax)
        return t
    return Ext(ident, f)


x_exp = uf1(EXP, "X-EXP", "np.exp / math.exp is an uninterpreted positive function", lambda x, t: [t > 0])
x_expi = uf1(EI, "X-EXPI", "scipy.special.expi is an uninterpreted function")
x_exp1 = uf1(E1, "X-EXP1", "scipy.special.exp1 is an uninterpreted function")
x_erf = uf1(ERF, "X-ERF", "scipy.special.erf is an uninterpreted function")
x_erfc = uf1(ERFC, "X-ERFC", "scipy.special.erfc is an uninterpreted function")
x_sqrt = uf1(SQRT, "X-SQRT", "sqrt(x) >= 0 and sqrt(x)^2 == x for x >= 0 (instances only)",
             lambda x, t: [z3.Implies(x >= 0, z3.And(t >= 0, t * t == x)), z3.Implies(x > 0, t > 0)])
x_cos = uf1(COS, "X-TRIG", "cos/sin uninterpreted with cos^2+sin^2 == 1 (instances only)")
x_sin = uf1(SIN, "X-TRIG", "cos/sin uninterpreted with cos^2+sin^2 == 1 (instances only)")


@elementwise
def _abs(eng, x):
    if not is_sym(x):
        return abs(x)
    zx = to_z3(x)
    return z3.If(zx >= 0, zx, -zx)


def _minmax(is_min):
    def f(eng, *args, key=None):
        if len(args) == 1:
            args = eng.iter_concrete(args[0])
        if key is not None:
            # min / max with a key function: the first item with the extremal key (keys may be symbolic numbers or tuples)
            import ast as _ast
            r, kr = args[0], eng.call(key, [args[0]])
            for a in args[1:]:
                ka = eng.call(key, [a])
                better = eng.compare(_ast.Lt() if is_min else _ast.Gt(), ka, kr)
                if isinstance(better, bool):
                    if better:
                        r, kr = a, ka
                else:
                    r, kr = eng.ite_value(better, a, r), eng.ite_value(better, ka, kr)
            return r
        r = args[0]
        for a in args[1:]:
            if not is_sym(r) and not is_sym(a):
                r = min(r, a) if is_min else max(r, a)
            else:
                zr, za = to_z3(r), to_z3(a)
                if not (z3.is_int(zr) and z3.is_int(za)):
                    zr, za = to_real(zr), to_real(za)
                r = z3.If(zr <= za, zr, za) if is_min else z3.If(zr >= za, zr, za)
        return r
    return f


def _np_sum(eng, x, axis=None):
    if isinstance(x, Vec):
        r = 0
        for it in x.items:
            r = eng.arith("+", r, it)
        return r
    if is_num(x):
        return x
    for hook in SUM_HOOKS:
        r = hook(eng, x, axis)
        if r is not NotImplemented:
            return r
    raise OutsideSubset("np.sum of %r" % (type(x).__name__,))


SUM_HOOKS = []


def _isinstance(eng, v, t):
    # decidable cases first: tuple / list tests on values whose representation is known
    tn = getattr(t, "name", None)
    if tn == "tuple":
        return isinstance(v, tuple)
    if tn == "list":
        return isinstance(v, VList)
    eng.used_assumptions.add("X-ISINSTANCE: isinstance() type assertions hold (inputs have their declared types)")
    return True


def _float(eng, v):
    return v if not isinstance(v, int) or isinstance(v, bool) else Fraction(v)


def _int(eng, v):
    if isinstance(v, bool):
        return int(v)
    if is_sym(v) and z3.is_bool(v):
        return z3.If(v, z3.IntVal(1), z3.IntVal(0))
    if isinstance(v, int):
        return v
    if is_sym(v) and z3.is_int(v):
        return v
    raise OutsideSubset("int() of a real")


def _len(eng, v):
    if isinstance(v, (tuple, list, dict, str)):
        return len(v)
    if isinstance(v, (VList, Vec)):
        return len(v.items)
    if isinstance(v, SymSeq):
        return v.length
    for hook in LEN_HOOKS:
        r = hook(eng, v)
        if r is not NotImplemented:
            return r
    raise OutsideSubset("len of %r" % (type(v).__name__,))


LEN_HOOKS = []


def _range(eng, *a):
    if all(isinstance(x, int) for x in a):
        return tuple(range(*a))
    if len(a) == 1:
        return SymSeq(a[0], lambda i: i, "range")
    raise OutsideSubset("symbolic range with start/step")


def _enumerate(eng, seq):
    if isinstance(seq, SymSeq):
        return SymSeq(seq.length, lambda i: (i, seq.elem(i)), "enumerate")
    return tuple(enumerate(eng.iter_concrete(seq)))


def _zip(eng, *seqs):
    if any(isinstance(s, SymSeq) for s in seqs):
        if not all(isinstance(s, SymSeq) for s in seqs):
            raise OutsideSubset("zip of symbolic and concrete")
        eng.used_assumptions.add("zip over symbolic sequences assumes equal lengths (asserted by the contract)")
        return SymSeq(seqs[0].length, lambda i: tuple(s.elem(i) for s in seqs), "zip")
    return tuple(zip(*[eng.iter_concrete(s) for s in seqs]))


def _list(eng, seq=None):
    if seq is None:
        return VList([])
    if isinstance(seq, SymSeq):
        return seq
    return VList(eng.iter_concrete(seq))


def _tuple(eng, seq):
    return tuple(eng.iter_concrete(seq))


def _isclose(eng, a, b, **kw):
    eng.used_assumptions.add("X-ISCLOSE: math.isclose is an uninterpreted reflexive predicate on reals")
    if is_num(a) and is_num(b):
        t = ISCLOSE(to_real(a), to_real(b))
        eng.assume(z3.Implies(to_real(a) == to_real(b), t))
        return t
    raise OutsideSubset("isclose on non-scalars")


def _np_isclose(eng, a, b, rtol=1e-05, atol=1e-08, **kw):
    """numpy's documented semantics on scalars: |a - b| <= atol + rtol * |b| (real arithmetic)"""
    if is_num(a) and is_num(b):
        za, zb = to_real(a), to_real(b)
        d = za - zb
        return z3.If(d >= 0, d, -d) <= to_real(atol) + to_real(rtol) * z3.If(zb >= 0, zb, -zb)
    raise OutsideSubset("np.isclose on non-scalars")


def _np_array(eng, v, *a, **k):
    if isinstance(v, (tuple, VList, list)):
        return Vec(eng.iter_concrete(v))
    return v


def _asarray(eng, v, *a, **k):
    return v


def _sign(eng, x):
    if not is_sym(x):
        return (x > 0) - (x < 0)
    zx = to_real(x)
    return z3.If(zx > 0, z3.RealVal(1), z3.If(zx < 0, z3.RealVal(-1), z3.RealVal(0)))


def _fsum(eng, seq):
    eng.used_assumptions.add("X-FSUM: math.fsum returns the (real) sum of its items")
    r = 0
    for it in eng.iter_concrete(seq):
        r = eng.arith("+", r, it)
    return r


NP = Ext("np", {
    "exp": x_exp, "sqrt": x_sqrt, "sum": Ext("np.sum", _np_sum), "abs": Ext("np.abs", _abs),
    "array": Ext("np.array", _np_array), "asarray": Ext("np.asarray", _asarray), "sign": Ext("np.sign", _sign),
    "pi": PI, "cos": x_cos, "sin": x_sin, "isclose": Ext("np.isclose", _np_isclose),
})

MATH = Ext("math", {"sqrt": x_sqrt, "pi": PI, "isclose": Ext("isclose", _isclose), "exp": x_exp,
                    "fsum": Ext("fsum", _fsum)})


def _shallow_copy(eng, o):
    """copy.copy: a new object with the same field values (shallow: array / object fields stay shared)"""
    from .engine import Obj
    if isinstance(o, Obj):
        return Obj(o.cls, dict(o.fields), label=o.label + "'")
    if isinstance(o, Vec):
        return Vec(list(o.items))
    return o


def base_externals():
    return {
        "copy": Ext("copy", {"copy": Ext("copy.copy", _shallow_copy)}),
        "np": NP, "numpy": NP, "math": MATH,
        "scipy.special.expi": x_expi, "scipy.special.erf": x_erf, "scipy.special.erfc": x_erfc,
        "scipy.special.exp1": x_exp1,
        "math.pi": PI, "math.sqrt": x_sqrt, "math.exp": x_exp, "math.fsum": Ext("fsum", _fsum),
        "math.isclose": Ext("isclose", _isclose),
        "sqrt": x_sqrt,
        "abs": Ext("abs", _abs), "min": Ext("min", _minmax(True)), "max": Ext("max", _minmax(False)),
        "isinstance": Ext("isinstance", _isinstance), "float": Ext("float", _float), "int": Ext("int", _int),
        "len": Ext("len", _len), "range": Ext("range", _range), "enumerate": Ext("enumerate", _enumerate),
        "zip": Ext("zip", _zip), "list": Ext("list", _list), "tuple": Ext("tuple", _tuple),
        "True": True, "False": False, "None": None,
        "cython": Ext("cython", {"declare": Ext("declare", lambda eng, *a: None), "double": None}),
        "FPI_INV": FPI_INV, "PI_SQRT": PI_SQRT, "pi": PI,
    }
