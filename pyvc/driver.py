"""Run a list of contracts through the engine and discharge the obligations."""
import time
import traceback

from vlib.core import GeneratorError
from .discharge import discharge


def verify_contracts(eng, contracts, chk, opts=None):
    by_target = {}
    for c in contracts:
        by_target[c.target] = c
        chk.under_contract(c.target)
        n0 = len(eng.obligations)
        t0 = time.time()
        try:
            eng.verify(c)
        except GeneratorError as e:
            import os
            if os.environ.get("PYVC_DEBUG"):
                traceback.print_exc()
            chk.error("{}: {}: {}".format(c.target, type(e).__name__, e))
            continue
        except RecursionError:
            chk.error("{}: recursion limit (needs contract)".format(c.target))
            continue
        except Exception as e:      # noqa -- a Python-level failure inside the generator (e.g. a modelled built-in called with an
            # argument pattern the model does not know) concerns this one contract: the other parts of the check must still run
            chk.error("{}: generator failure {}: {} | {}".format(c.target, type(e).__name__, str(e)[:200],
                                                             traceback.format_exc()[-300:].replace("\n", " / ")))
            continue
        if len(eng.obligations) == n0:
            chk.error("{}: zero obligations generated (vacuous)".format(c.target))
    obs = discharge(eng, chk, by_target, opts=opts)
    for a in sorted(eng.used_assumptions):
        chk.assume(a)
    chk.vacuity.setdefault("paths", {}).update(eng.stats["functions"])
    chk.vacuity["infeasible_paths_pruned"] = eng.stats["infeasible"]
    return obs


ENGINE_ASSUMPTIONS = [
    "A-REAL: IEEE double arithmetic is treated as real arithmetic; Python ints are mathematical",
    "Python subset semantics: no operator overloading on modelled classes, static attribute resolution with name "
    "mangling, left-to-right evaluation, decorators (@cython.locals) are no-ops under CPython, only AssertionError "
    "and ZeroDivisionError tracked",
    "termination is not proved",
]
