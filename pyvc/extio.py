"""Models of the outside world used by the assembly/caching code: 2-D matrices, strings and cache keys,
np.load / np.save over an abstract file store, multiprocessing pools, globals().

Assumed contracts (ids reported in the evidence):
  X-NPLOAD     np.load(fn) either raises (missing / truncated / corrupt file) or returns the array stored under fn
  X-NPSAVE     np.save(fn, a) either raises or stores a under fn (a failing store leaves no loadable file under fn)
  X-POOL-IMAP  Pool(n).imap(f, seq, chunk) / .map(...) yield f(seq[0]), f(seq[1]), ... in order for any worker count and
               any chunksize >= 1, each evaluated in a forked child that sees the parent's module globals as they
               were when Pool(...) was created
  X-STR        str(x), '...'.format(...), + on strings, md5(..).hexdigest() are uninterpreted functions of their arguments
"""
import hashlib
import itertools

import z3

from . import engine as E
from .engine import Ext, Obj, Ref, Vec, SymSeq, OutsideSubset, ExternalRaise, is_sym, to_z3, to_real, num_cmp
from .arrays import NArr

I = z3.IntSort()
R = z3.RealSort()
Str = z3.DeclareSort("Str")
_fresh = itertools.count()


class Mat:
    """N x M real matrix as a function (i, j) -> term"""
    def __init__(self, N, M, elem, label="mat"):
        self.N, self.M = N, M
        self.elem = elem
        self.label = label

    def __repr__(self):
        return "Mat({})".format(self.label)


def fresh_mat(eng, base, N=None, M=None):
    f = z3.Function("{}!{}".format(base, next(_fresh)), I, I, R)
    return Mat(N, M, lambda i, j: f(to_z3(i), to_z3(j)), base)


def fresh_arr(eng, base, n=None):
    k = next(_fresh)
    f = z3.Function("{}!{}".format(base, k), I, R)
    if n is None:
        n = z3.Int("{}_len!{}".format(base, k))
        eng.assume(n >= 0)
    return NArr(n, lambda i: f(to_z3(i)), base)


def _zeros(eng, shape=None):
    if isinstance(shape, tuple) and len(shape) == 2:
        return Mat(shape[0], shape[1], lambda i, j: z3.RealVal(0), "zeros")
    if isinstance(shape, tuple) and len(shape) == 1:
        shape = shape[0]
    return NArr(shape, lambda k: z3.RealVal(0), "zeros")


def _index_hook(eng, base, idx):
    if isinstance(base, Mat):
        if isinstance(idx, tuple) and len(idx) == 2:
            return base.elem(idx[0], idx[1])
        raise OutsideSubset("matrix index")
    return NotImplemented


def _setitem_hook(eng, base, idx, v):
    if isinstance(base, Mat):
        old = base.elem
        if isinstance(idx, tuple) and len(idx) == 2 and not isinstance(idx[0], __import__("ast").Slice):
            i0, j0 = to_z3(idx[0]), to_z3(idx[1])
            if not eng.spec_mode:
                eng.oblige("matrix-index-in-range", E.b_and(num_cmp("<=", 0, i0), num_cmp("<", i0, base.N),
                                                            num_cmp("<=", 0, j0), num_cmp("<", j0, base.M)))
            base.elem = lambda i, j, old=old, v=v: z3.If(z3.And(to_z3(i) == i0, to_z3(j) == j0), to_real(v), to_real(old(i, j)))
            return True
        raise OutsideSubset("matrix store")
    if isinstance(base, NArr):
        old = base.elem
        i0 = to_z3(idx)
        if not eng.spec_mode:
            eng.oblige("array-index-in-range", E.b_and(num_cmp("<=", 0, i0), num_cmp("<", i0, base.length)))
        base.elem = lambda i, old=old, v=v: z3.If(to_z3(i) == i0, to_real(v), to_real(old(i)))
        return True
    return NotImplemented


def _store_subscript(eng, st_target, env, v):
    """mat[:, j] = col   (column store)"""
    import ast
    base = eng.ev(st_target.value, env)
    sl = st_target.slice
    if isinstance(base, Mat) and isinstance(sl, ast.Tuple) and len(sl.elts) == 2 and isinstance(sl.elts[0], ast.Slice) \
            and sl.elts[0].lower is None and sl.elts[0].upper is None:
        j0 = to_z3(eng.ev(sl.elts[1], env))
        if not isinstance(v, NArr):
            raise OutsideSubset("column store of a non-array")
        eng.oblige("column-index-in-range", E.b_and(num_cmp("<=", 0, j0), num_cmp("<", j0, base.M)))
        eng.oblige("column-length-matches", num_cmp("==", v.length, base.N))
        old = base.elem
        base.elem = lambda i, j, old=old, v=v: z3.If(to_z3(j) == j0, to_real(v.elem(i)), to_real(old(i, j)))
        return True
    return False


# -- strings -------------------------------------------------------------------------------

class StrT:
    def __init__(self, term):
        self.term = term

    def __repr__(self):
        return "StrT({})".format(self.term)


_lits = {}


def str_term(eng, v):
    if isinstance(v, StrT):
        return v.term
    if isinstance(v, str):
        if v not in _lits:
            _lits[v] = z3.Const("lit_" + hashlib.md5(v.encode()).hexdigest()[:10], Str)
        return _lits[v]
    if isinstance(v, bool) or v is None:
        return str_term(eng, repr(v))
    if isinstance(v, int):
        return z3.Function("STR_INT", I, Str)(z3.IntVal(v))
    if is_sym(v):
        if z3.is_int(v):
            return z3.Function("STR_INT", I, Str)(v)
        if z3.is_real(v):
            return z3.Function("STR_REAL", R, Str)(v)
    if isinstance(v, Ref):
        return z3.Function("STR_" + v.sort, I, Str)(v.term)
    if isinstance(v, SymSeq) and getattr(v, "ident", None) is not None:
        return z3.Function("STR_SEQ", I, Str)(v.ident)
    if isinstance(v, Obj) and "__str__" in v.fields:
        return str_term(eng, v.fields["__str__"])
    raise OutsideSubset("str() of %r" % (v,))


def _str(eng, v=""):
    eng.used_assumptions.add("X-STR: str / format / + / md5 hexdigest are uninterpreted functions of their arguments")
    if isinstance(v, str):
        return v
    return StrT(str_term(eng, v))


def _concat(eng, a, b):
    return StrT(z3.Function("CONCAT", Str, Str, Str)(str_term(eng, a), str_term(eng, b)))


def _str_arith(eng, op, a, b):
    if op == "+" and (isinstance(a, StrT) or isinstance(b, StrT)) and isinstance(a, (StrT, str)) and isinstance(b, (StrT, str)):
        return _concat(eng, a, b)
    return NotImplemented


def _format(eng, template, args):
    eng.used_assumptions.add("X-STR: str / format / + / md5 hexdigest are uninterpreted functions of their arguments")
    ts = [str_term(eng, a) for a in args]
    f = z3.Function("FMT_" + hashlib.md5(template.encode()).hexdigest()[:8] + "_%d" % len(ts), *([Str] * len(ts) + [Str]))
    return StrT(f(*ts))


def _str_hook(eng, base, attr):
    if attr == "format":
        return Ext("str.format", lambda e, *a, _t=base: _format(e, _t, a))
    return NotImplemented


def _getattr_hook(eng, base, attr):
    if isinstance(base, StrT):
        if attr == "encode":
            return Ext("encode", lambda e, _b=base: _b)
        if attr == "format":
            raise OutsideSubset("format on a symbolic template")
    return NotImplemented


def _md5(eng, s):
    digest = StrT(z3.Function("MD5", Str, Str)(str_term(eng, s)))
    return Obj("md5", {"hexdigest": Ext("hexdigest", lambda e, _d=digest: _d)})


def _compare_hook_str(eng, a, b):
    return NotImplemented


# -- file store ----------------------------------------------------------------------------

LOADED = z3.Function("LOADED", Str, I, I, R)
LOADED1 = z3.Function("LOADED1", Str, I, R)


def _np_load(eng, fn, *a, **k):
    eng.used_assumptions.add("X-NPLOAD: np.load(fn) either raises or returns the array stored under fn")
    which = eng.choose(5, "np.load")
    if which == 1:
        raise ExternalRaise("FileNotFoundError", "np.load")
    if which == 2:
        raise ExternalRaise("ValueError", "np.load")   # truncated / corrupt file
    if which == 3:
        raise ExternalRaise("EOFError", "np.load")     # zero-length file (numpy 2)
    if which == 4:
        raise ExternalRaise("UnpicklingError", "np.load")   # any other Exception subclass (pickle.UnpicklingError, ...)
    t = str_term(eng, fn)
    kind = eng.ghost.get("load_kind", "mat")
    if kind == "vec":
        return NArr(eng.ghost.get("load_len"), lambda i: LOADED1(t, to_z3(i)), "loaded")
    return Mat(eng.ghost.get("load_N"), eng.ghost.get("load_M"), lambda i, j: LOADED(t, to_z3(i), to_z3(j)), "loaded")


def _np_save(eng, fn, arr, *a, **k):
    eng.used_assumptions.add("X-NPSAVE: np.save either raises or stores the array under fn")
    which = eng.choose(2, "np.save")
    if which == 1:
        raise ExternalRaise("OSError", "np.save")
    hook = eng.ghost.get("on_save")
    if hook:
        hook(eng, fn, arr)
    return None


# -- pools / globals -----------------------------------------------------------------------

def _globals(eng):
    class G(dict):
        pass
    return GlobalsProxy(eng)


class GlobalsProxy:
    def __init__(self, eng):
        self.eng = eng


def _setitem_globals(eng, base, idx, v):
    if isinstance(base, GlobalsProxy):
        if not isinstance(idx, str):
            raise OutsideSubset("globals()[non-literal]")
        eng.module_globals[(eng.cur_module_name, idx)] = v
        return True
    return NotImplemented


def _cpu_count(eng):
    n = eng.fresh("cpu", "Int")
    eng.assume(n >= 1)
    return n


def _pool(eng, n=None):
    eng.used_assumptions.add("X-POOL-IMAP: imap/map yield f(seq[k]) in order for any worker count and chunksize >= 1; "
                             "children see the parent's globals as of Pool(...) creation")
    snapshot = dict(eng.module_globals)

    def run_in_child(e, f, k_item):
        saved = e.module_globals
        e.module_globals = dict(snapshot)
        try:
            return e.call(f, [k_item])
        finally:
            e.module_globals = saved

    def imap(e, f, seq, chunksize=1):
        if not e.spec_mode:
            e.oblige("pool-chunksize>=1", num_cmp(">=", chunksize, 1))
        if not isinstance(seq, SymSeq):
            items = e.iter_concrete(seq)
            return tuple(run_in_child(e, f, it) for it in items)
        # check the callee's preconditions once, for an arbitrary in-range index
        nonempty = num_cmp(">", seq.length, 0)
        if (e.decide(nonempty, "pool-nonempty") if not isinstance(nonempty, bool) else nonempty):
            k0 = e.fresh("kpool", "Int")
            e.assume(z3.And(k0 >= 0, to_z3(k0) < to_z3(seq.length)))
            run_in_child(e, f, seq.elem(k0))

        def lazy(k):
            e.skip_pre += 1
            try:
                return run_in_child(e, f, seq.elem(k))
            finally:
                e.skip_pre -= 1
        return SymSeq(seq.length, lazy, "imap")
    if n is not None and not eng.spec_mode:
        eng.oblige("pool-workers>=1", num_cmp(">=", n, 1))
    return Obj("Pool", {"imap": Ext("imap", imap), "map": Ext("map", imap)})


def _time(eng):
    return eng.fresh("time", "Real")


def install(eng):
    cls = type(eng)
    if not getattr(cls, "_extio_installed", False):
        cls.index_hooks = list(cls.index_hooks) + [_index_hook]
        cls.setitem_hooks = list(cls.setitem_hooks) + [_setitem_hook, _setitem_globals]
        cls.arith_hooks = list(cls.arith_hooks) + [_str_arith]
        cls.str_hooks = list(cls.str_hooks) + [_str_hook]
        cls.getattr_hooks = list(cls.getattr_hooks) + [_getattr_hook]
        orig_assign = cls.assign

        def assign(self, target, v, env):
            import ast
            if isinstance(target, ast.Subscript) and isinstance(target.slice, ast.Tuple) and \
                    any(isinstance(e, ast.Slice) for e in target.slice.elts):
                if _store_subscript(self, target, env, v):
                    return
                raise OutsideSubset("slice store")
            return orig_assign(self, target, v, env)
        cls.assign = assign
        cls._extio_installed = True
    np = eng.externals["np"].fn
    np["zeros"] = Ext("np.zeros", _zeros)
    np["load"] = Ext("np.load", _np_load)
    np["save"] = Ext("np.save", _np_save)

    def _array(e, v, *a, **k):
        if isinstance(v, SymSeq):
            return NArr(v.length, v.elem, "array")
        if isinstance(v, (tuple, E.VList, list)):
            return Vec(e.iter_concrete(v))
        return v
    np["array"] = Ext("np.array", _array)
    eng.externals["str"] = Ext("str", _str)
    eng.externals["hashlib"] = Ext("hashlib", {"md5": Ext("md5", _md5)})
    eng.externals["globals"] = Ext("globals", _globals)
    mp = Ext("mp", {"cpu_count": Ext("cpu_count", _cpu_count), "Pool": Ext("Pool", _pool)})
    eng.externals["mp"] = mp
    eng.externals["multiprocessing"] = mp
    eng.externals["time"] = Ext("time", {"time": Ext("time", _time)})
