"""Replay of counterexamples against the real code in /repo (current working tree).

A replay is a python snippet that must set `violated` (bool) and may set `observed`.
It is executed in a fresh subprocess of the overlay venv with /repo first on sys.path, so that
the modules are the ones of the working tree the VCs were generated from.
"""
import json
import os
import subprocess
import sys

from .core import REPO, VERIF

PY = os.path.join(VERIF, ".venv", "bin", "python")

_WRAP = r'''
import sys, json, io, contextlib
sys.path.insert(0, {repo!r})
sys.path.insert(1, {verif!r})
ns = {{}}
out = dict(violated=None, observed=None, error=None)
buf = io.StringIO()
try:
    with contextlib.redirect_stdout(buf):
        exec(compile({code!r}, "<replay>", "exec"), ns)
    out["violated"] = bool(ns.get("violated"))
    out["observed"] = repr(ns.get("observed"))[:2000]
except BaseException as e:
    import traceback
    out["error"] = "".join(traceback.format_exception_only(type(e), e))[:1500]
    out["trace"] = traceback.format_exc()[-1500:]
    out["violated"] = bool(ns.get("raises_is_violation", {rv!r}))
print("@@REPLAY@@" + json.dumps(out))
'''


def run_replay(code, raises_is_violation=False, timeout=180):
    src = _WRAP.format(repo=REPO, verif=VERIF, code=code, rv=raises_is_violation)
    try:
        p = subprocess.run([PY if os.path.exists(PY) else sys.executable, "-c", src], capture_output=True,
                           text=True, timeout=timeout, cwd=REPO)
    except subprocess.TimeoutExpired:
        return dict(violated=False, error="replay timeout")
    for line in p.stdout.splitlines():
        if line.startswith("@@REPLAY@@"):
            return json.loads(line[len("@@REPLAY@@"):])
    return dict(violated=False, error="no replay output: " + p.stderr[-800:])


MAX_REPLAYS = int(os.environ.get("PYVC_MAX_REPLAYS", "6"))
_n_replays = {}


def attach(ob, code, raises_is_violation=False, bucket="default"):
    """Run the replay for a failed obligation and attach the outcome (at most MAX_REPLAYS per run: a broken
    table or constructor fails thousands of sibling obligations, replaying each would take hours)."""
    # separate budgets per producer (Mode Q table obligations / Mode S obligations / ...), so that the replays of recorded
    # known findings do not use up the budget of an unrelated new failure
    _n_replays[bucket] = _n_replays.get(bucket, 0) + 1
    if _n_replays[bucket] > MAX_REPLAYS:
        ob.replay = dict(code=code, raises_is_violation=raises_is_violation, confirmed=False,
                         outcome=dict(skipped="replay budget of {} per run exhausted; run ./check <id> --replay <file>".format(MAX_REPLAYS)))
        return ob
    res = run_replay(code, raises_is_violation)
    ob.replay = dict(code=code, raises_is_violation=raises_is_violation, outcome=res,
                     confirmed=bool(res.get("violated")))
    return ob


_crash_verdicts = {}


def settle_crash(ob, bucket="crash"):
    """An obligation whose exact-rational (Mode Q) execution of the real body raised: that alone only says that the changed body uses
    a construct outside Mode Q.  It is a violation when the replay on the real double-precision code raises too (confirmed);
    otherwise it is undecided (exit 2), never an alarm.  Obligations whose replay was skipped for budget reasons follow the verdict of
    the replays that did run in the same bucket."""
    from .core import UNDECIDED
    r = ob.replay or {}
    skipped = isinstance(r.get("outcome"), dict) and "skipped" in r["outcome"]
    if not skipped:
        _crash_verdicts.setdefault(bucket, []).append(bool(r.get("confirmed")))
        confirmed = bool(r.get("confirmed"))
    else:
        confirmed = any(_crash_verdicts.get(bucket, []))
    if not confirmed:
        ob.status = UNDECIDED
        ob.detail = dict(ob.detail or {}, note="exact-rational execution of the body raised but the real code runs in double precision: "
                                               "construct outside Mode Q, undecided (not a violation)")
    return ob


def main(path):
    with open(path) as fh:
        rep = json.load(fh)
    r = rep.get("replay")
    print("obligation:", rep.get("obligation"))
    if not r or not r.get("code"):
        print("no executable replay recorded (no-failing-input-found); solver output:")
        print(json.dumps(rep.get("model"), indent=1)[:3000])
        print(json.dumps(rep.get("detail"), indent=1, default=str)[:3000])
        return 0
    res = run_replay(r["code"], r.get("raises_is_violation", False))
    print(json.dumps(res, indent=1))
    return 1 if res.get("violated") else 0
