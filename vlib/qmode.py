"""Mode Q: execute the *real* table / constructor code of /repo over exact rationals.

load_exact(path, mode): parses the file text, replaces every float literal by
Fraction(<literal text>) (mode 'text') or Fraction(float(<literal text>)) (mode 'double') with a
mechanical AST transform, compiles and executes the module.  What the transform drops: nothing of
the code; only the value of float literals changes representation (exact decimal instead of the
double nearest to it).  Integer literals stay ints.
"""
import ast
import importlib.util
import os
import sys
import types
from fractions import Fraction

from .core import REPO, GeneratorError


class _FloatToFraction(ast.NodeTransformer):
    def __init__(self, src, mode):
        self.src = src
        self.mode = mode
        self.n = 0

    def visit_Constant(self, node):
        if isinstance(node.value, float):
            text = ast.get_source_segment(self.src, node)
            if text is None:
                raise GeneratorError("no source text for float literal at line %d" % node.lineno)
            text = text.strip()
            self.n += 1
            fn = "_FrText_" if self.mode == "text" else "_FrDouble_"
            new = ast.Call(func=ast.Name(id=fn, ctx=ast.Load()),
                           args=[ast.Constant(value=text)], keywords=[])
            return ast.copy_location(new, node)
        return node


def fr_text(s):
    return Fraction(s)


def fr_double(s):
    return Fraction(float(s))


def load_exact(relpath, mode="text", modname=None, extra_globals=None):
    path = os.path.join(REPO, relpath)
    with open(path) as fh:
        src = fh.read()
    tree = ast.parse(src, filename=path)
    tr = _FloatToFraction(src, mode)
    tree = tr.visit(tree)
    ast.fix_missing_locations(tree)
    mod = types.ModuleType(modname or ("exact_" + os.path.basename(relpath)[:-3]))
    mod.__file__ = path
    mod.__dict__["_FrText_"] = fr_text
    mod.__dict__["_FrDouble_"] = fr_double
    if extra_globals:
        mod.__dict__.update(extra_globals)
    code = compile(tree, path, "exec")
    exec(code, mod.__dict__)
    mod.__n_float_literals__ = tr.n
    return mod


def table_keys(relpath):
    """Enumerate, from the AST, the keys of every `*_quadrature_rule` function (if/elif chain) and
    the exported key lists. Returns (functions: {name: dict(params, keys:[(key, lineno)], has_else_assert)},
    lists: {NAME: [tuples]})."""
    path = os.path.join(REPO, relpath)
    with open(path) as fh:
        src = fh.read()
    tree = ast.parse(src, filename=path)
    funcs, lists = {}, {}
    for node in tree.body:
        if isinstance(node, ast.Assign) and len(node.targets) == 1 and isinstance(node.targets[0], ast.Name) \
                and isinstance(node.value, ast.List):
            try:
                lists[node.targets[0].id] = [tuple(ast.literal_eval(e)) for e in node.value.elts]
            except Exception:
                pass
        if isinstance(node, ast.FunctionDef) and node.name.endswith("_quadrature_rule"):
            keys = []
            chain = None
            for st in node.body:
                if isinstance(st, ast.If):
                    chain = st
            if chain is None:
                raise GeneratorError("table function %s has no if-chain" % node.name)
            cur = chain
            else_kind = None
            while True:
                t = cur.test
                if not (isinstance(t, ast.Compare) and len(t.ops) == 1 and isinstance(t.ops[0], ast.Eq)):
                    raise GeneratorError("%s: unsupported table test at line %d" % (node.name, t.lineno))
                try:
                    key = ast.literal_eval(t.comparators[0])
                except Exception:
                    raise GeneratorError("%s: non-literal key at line %d" % (node.name, t.lineno))
                keys.append((key, cur.lineno))
                if len(cur.orelse) == 1 and isinstance(cur.orelse[0], ast.If):
                    cur = cur.orelse[0]
                    continue
                if cur.orelse:
                    st = cur.orelse[0]
                    else_kind = "assert-false" if isinstance(st, ast.Assert) else type(st).__name__
                break
            funcs[node.name] = dict(params=[a.arg for a in node.args.args], keys=keys,
                                    else_kind=else_kind, lineno=node.lineno)
    return funcs, lists


# ---------------------------------------------------------------------------------------
# Rational enclosures (A-LOG: |2 atanh y - 2 sum_{j<=n} y^(2j+1)/(2j+1)| <= 2|y|^(2n+3)/((2n+3)(1-y^2)))

DIG = 70
_SC = 10 ** DIG


def _dn(q):   # round down to DIG decimals
    return Fraction((q.numerator * _SC) // q.denominator, _SC)


def _up(q):
    return Fraction(-((-q.numerator * _SC) // q.denominator), _SC)


def _atanh2(y, nterms=40):
    """enclosure [lo,hi] of 2*atanh(y) for rational |y| <= 1/3."""
    assert abs(y) <= Fraction(1, 3)
    neg = y < 0
    y = abs(y)
    lo = hi = Fraction(0)
    ylo = yhi = y
    y2lo, y2hi = _dn(y * y), _up(y * y)
    ylo, yhi = _dn(y), _up(y)
    for j in range(nterms + 1):
        lo += _dn(2 * ylo / (2 * j + 1))
        hi += _up(2 * yhi / (2 * j + 1))
        ylo, yhi = _dn(ylo * y2lo), _up(yhi * y2hi)
    # remainder after j = nterms: 2*y^(2n+3)/((2n+3)(1-y^2)), yhi now holds y^(2n+3) upper bound
    rem = _up(2 * yhi / ((2 * nterms + 3) * (1 - y2hi)))
    hi += rem
    if neg:
        return -hi, -lo
    return lo, hi


_LOG2 = None


def log_enclosure(x):
    """[lo, hi] (Fractions) with lo <= ln(x) <= hi, width ~1e-65, for rational x > 0."""
    global _LOG2
    if _LOG2 is None:
        _LOG2 = _atanh2(Fraction(1, 3), nterms=85)
    assert x > 0
    e = 0
    m = Fraction(x)
    while m > Fraction(4, 3):
        m /= 2
        e += 1
    while m < Fraction(2, 3):
        m *= 2
        e -= 1
    y = (m - 1) / (m + 1)
    lo, hi = _atanh2(y)
    l2lo, l2hi = _LOG2
    if e >= 0:
        return lo + e * l2lo, hi + e * l2hi
    return lo + e * l2hi, hi + e * l2lo


def sqrt_enclosure(x):
    """[lo, hi] with lo^2 <= x <= hi^2, lo >= 0, width 1e-DIG (integer square root)."""
    import math
    assert x >= 0
    n = x.numerator * _SC * _SC
    d = x.denominator
    r = math.isqrt(n // d)
    lo = Fraction(r, _SC)
    hi = Fraction(r + 1, _SC)
    return lo, hi


def q(fr):
    """SMT-LIB text of a Fraction."""
    fr = Fraction(fr)
    n, d = fr.numerator, fr.denominator
    s = str(abs(n)) + ".0" if d == 1 else "(/ {}.0 {}.0)".format(abs(n), d)
    return "(- {})".format(s) if n < 0 else s


def load_exact_package(mode="text", pkg="exactq"):
    """Load src/quadrature_rules.py and src/quadrature.py (and src/norms.py) over exact rationals as a synthetic
    package, so that the real constructors run unmodified on numpy object arrays of Fractions."""
    import sys
    import types
    name = "{}_{}".format(pkg, mode)
    if name in sys.modules:
        return sys.modules[name]
    package = types.ModuleType(name)
    package.__path__ = []
    sys.modules[name] = package
    for sub in ("quadrature_rules", "quadrature", "norms"):
        path = os.path.join(REPO, "src", sub + ".py")
        with open(path) as fh:
            src = fh.read()
        tree = ast.parse(src, filename=path)
        tr = _FloatToFraction(src, mode)
        tree = tr.visit(tree)
        ast.fix_missing_locations(tree)
        mod = types.ModuleType("{}.{}".format(name, sub))
        mod.__file__ = path
        mod.__package__ = name
        mod.__dict__["_FrText_"] = fr_text
        mod.__dict__["_FrDouble_"] = fr_double
        sys.modules[mod.__name__] = mod
        exec(compile(tree, path, "exec"), mod.__dict__)
        setattr(package, sub, mod)
    return package
