"""SMT back ends: z3 (python API, in a process pool) then /usr/bin/cvc5 on the identical SMT-LIB text.

A query is the *negation* of an obligation: unsat = discharged, sat = failed (model kept),
unknown/timeout on both back ends = undecided.
"""
import multiprocessing as mp
import os
import subprocess
import tempfile
import time

Z3_TIMEOUT_S = float(os.environ.get("PYVC_Z3_TIMEOUT", "20"))
CVC5_TIMEOUT_S = float(os.environ.get("PYVC_CVC5_TIMEOUT", "30"))
CVC5 = "/usr/bin/cvc5"


def to_smt2(assertions, logic="ALL"):
    import z3
    s = z3.Solver()
    for a in assertions:
        s.add(a)
    txt = s.to_smt2()
    return "(set-logic {})\n".format(logic) + txt


def _run_z3(text, timeout_s):
    import z3
    ctx = z3.Context()
    s = z3.Solver(ctx=ctx)
    s.set("timeout", int(timeout_s * 1000))
    t0 = time.time()
    # z3's own `timeout` is not honoured inside some quantifier-instantiation loops (observed: > 20 min on a mutant of
    # Prolongate); a watchdog thread interrupts the context shortly after the budget (the ctypes call releases the GIL)
    import threading
    dog = threading.Timer(timeout_s + 3, ctx.interrupt)
    dog.daemon = True
    dog.start()
    try:
        s.from_string(text)
        r = s.check()
    except z3.Z3Exception as e:  # parse error etc.; an interrupted check raises "canceled"
        dog.cancel()
        if "cancel" in str(e).lower() or "interrupt" in str(e).lower():
            return "unknown", "z3", time.time() - t0, "interrupted after the time budget"
        return "error", "z3", time.time() - t0, str(e)
    finally:
        dog.cancel()
    dt = time.time() - t0
    if r == z3.unsat:
        return "unsat", "z3", dt, None
    if r == z3.sat:
        m = s.model()
        md = {}
        for d in m.decls():
            try:
                md[d.name()] = str(m[d])
            except Exception:
                pass
        return "sat", "z3", dt, md
    return "unknown", "z3", dt, s.reason_unknown()


def _run_cvc5(text, timeout_s, nl=False):
    t0 = time.time()
    with tempfile.NamedTemporaryFile("w", suffix=".smt2", delete=False) as fh:
        # strip z3-only (set-info) lines; cvc5 accepts them but be safe
        fh.write("(set-option :produce-models true)\n" + text + "\n(get-model)\n")
        fn = fh.name
    try:
        cmd = [CVC5, "--tlimit={}".format(int(timeout_s * 1000))]
        if nl:
            cmd.append("--nl-cov")
        p = subprocess.run(cmd + [fn], capture_output=True, text=True, timeout=timeout_s + 10)
        out = p.stdout.strip()
    except subprocess.TimeoutExpired:
        out = "unknown"
    finally:
        os.unlink(fn)
    dt = time.time() - t0
    first = out.split("\n", 1)[0].strip() if out else "unknown"
    if first == "unsat":
        return "unsat", "cvc5", dt, None
    if first == "sat":
        return "sat", "cvc5", dt, out[:4000]
    return "unknown", "cvc5", dt, out[:300]


def solve_text(args):
    """(name, smt2 text, opts) -> (name, status, backend, seconds, model/reason)"""
    name, text, opts = args
    tz = opts.get("z3_timeout", Z3_TIMEOUT_S)
    tc = opts.get("cvc5_timeout", CVC5_TIMEOUT_S)
    st, be, dt, info = _run_z3(text, tz)
    if st in ("unsat", "sat"):
        return name, st, be, dt, info
    if opts.get("no_cvc5"):
        return name, "unknown", be, dt, info
    st2, be2, dt2, info2 = _run_cvc5(text, tc, nl=opts.get("nl", False))
    if st2 in ("unsat", "sat"):
        return name, st2, be2, dt + dt2, info2
    return name, "unknown", "z3+cvc5", dt + dt2, "z3: {} / cvc5: {}".format(info, info2)


_POOL = None


def pool(workers=None):
    global _POOL
    if _POOL is None:
        _POOL = mp.get_context("fork").Pool(workers or min(16, os.cpu_count() or 4))
    return _POOL


def close_pool():
    global _POOL
    if _POOL is not None:
        _POOL.terminate()
        _POOL = None


def solve_many(queries, opts=None, workers=None, chunk=8):
    """queries: list of (name, smt2_text[, opts]). Returns dict name -> (status, backend, seconds, info)."""
    opts = opts or {}
    items = []
    for q in queries:
        if len(q) == 3:
            o = dict(opts)
            o.update(q[2])
            items.append((q[0], q[1], o))
        else:
            items.append((q[0], q[1], opts))
    res = {}
    if len(items) <= 2:
        for it in items:
            r = solve_text(it)
            res[r[0]] = r[1:]
        return res
    for r in pool(workers).imap_unordered(solve_text, items, chunk):
        res[r[0]] = r[1:]
    return res
