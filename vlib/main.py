import argparse
import importlib
import os
import sys
import traceback


def main():
    ap = argparse.ArgumentParser()
    ap.add_argument("pid")
    ap.add_argument("--tier", default=os.environ.get("VERIF_TIER", "quick"), choices=["quick", "thorough"])
    ap.add_argument("--replay", default=None)
    args = ap.parse_args()
    seed = int(os.environ.get("VERIF_SEED", "0") or 0)
    if args.replay:
        from vlib import replay
        sys.exit(replay.main(args.replay))
    try:
        mod = importlib.import_module("checks." + args.pid.lower())
    except ImportError:
        traceback.print_exc()
        print("GENERATOR-ERROR no check module for", args.pid)
        sys.exit(3)
    try:
        code = mod.run(args.tier, seed)
    except SystemExit:
        raise
    except BaseException:
        traceback.print_exc()
        print("GENERATOR-ERROR checker crashed (exit 3, not a violation)")
        sys.exit(3)
    sys.exit(code)


if __name__ == "__main__":
    main()
