"""Common result / evidence / verdict layer for all checks.

Exit codes of every check (DESIGN 1.3):
  0  every obligation discharged, bounded parts clean (known findings printed as KNOWN-FINDING)
  1  violation: a failed obligation (VIOLATION line on stdout, replay file written)
  2  undecided (solver unknown/timeouts); never reported as a violation
  3  generator / contract error (construct outside subset, vanished function, vacuity guard)
"""
import fnmatch
import json
import os
import re
import sys
import time

VERIF = os.path.dirname(os.path.dirname(os.path.abspath(__file__)))
REPO = os.environ.get("STBEM_REPO", "/repo")
EVIDENCE_DIR = os.environ.get("VERIF_EVIDENCE_DIR") or os.path.join(VERIF, "evidence")
REPLAY_DIR = os.environ.get("VERIF_REPLAY_DIR") or os.path.join(VERIF, "replays")
KNOWN_FINDINGS = os.path.join(VERIF, "known_findings.json")

DISCHARGED, FAILED, UNDECIDED, ERROR = "discharged", "failed", "undecided", "error"


class Ob:
    """One obligation (proved kind) or one bounded evaluation group (bounded kind)."""
    __slots__ = ("name", "kind", "status", "backend", "seconds", "detail", "model", "replay")

    def __init__(self, name, status, kind="proved", backend="", seconds=0.0, detail=None,
                 model=None, replay=None):
        self.name = name
        self.kind = kind            # 'proved' (solver-discharged) | 'bounded' (run-time contract, bound stated)
        self.status = status
        self.backend = backend
        self.seconds = seconds
        self.detail = detail or {}
        self.model = model
        self.replay = replay        # dict: {'code': python source that sets `violated`, ...}

    def as_dict(self):
        return {k: getattr(self, k) for k in self.__slots__}


class GeneratorError(Exception):
    """Construct outside the subset / contract names something that no longer exists."""


def load_known_findings():
    if not os.path.exists(KNOWN_FINDINGS):
        return []
    with open(KNOWN_FINDINGS) as fh:
        return json.load(fh)


def _sanitize(name):
    return re.sub(r"[^A-Za-z0-9_.=-]+", "_", name)[:150]


class Check:
    def __init__(self, pid, tier, seed, level, checker_cmd):
        self.pid = pid
        self.tier = tier
        self.seed = seed
        self.level = level
        self.checker_cmd = checker_cmd
        self.t0 = time.time()
        self.obs = []
        self.functions = []          # functions under contract
        self.assumptions = []        # ids + text
        self.trusted_base = []
        self.notes = []
        self.extraction_drops = []
        self.bounded = {}            # name -> dict(evaluations, distinct_nontrivial, bound, rule, samples)
        self.vacuity = {}
        self.samples = []
        self.explanation = ""
        self.errors = []             # generator errors (exit 3)
        self.extra = {}

    # -- registration ------------------------------------------------------------
    def add(self, ob):
        self.obs.append(ob)
        return ob

    def extend(self, obs):
        for ob in obs:
            self.add(ob)

    def assume(self, *items):
        for it in items:
            if it not in self.assumptions:
                self.assumptions.append(it)

    def trust(self, *items):
        for it in items:
            if it not in self.trusted_base:
                self.trusted_base.append(it)

    def under_contract(self, *fns):
        for f in fns:
            if f not in self.functions:
                self.functions.append(f)

    def add_bounded(self, name, evaluations, distinct_nontrivial, bound, rule, samples):
        b = self.bounded.setdefault(name, dict(evaluations=0, distinct_nontrivial=0, bound=bound,
                                               rule=rule, samples=[]))
        b["evaluations"] += int(evaluations)
        b["distinct_nontrivial"] += int(distinct_nontrivial)
        b["samples"] = (b["samples"] + list(samples))[:6]

    def error(self, msg):
        self.errors.append(msg)

    # -- verdict -----------------------------------------------------------------
    def finish(self):
        known = [k for k in load_known_findings() if k.get("property") == self.pid]
        failed = [o for o in self.obs if o.status == FAILED]
        undecided = [o for o in self.obs if o.status == UNDECIDED]
        errs = [o for o in self.obs if o.status == ERROR]
        violations, known_hits = [], []
        for o in failed:
            hit = None
            for k in known:
                if k.get("status") == "known" and fnmatch.fnmatchcase(o.name, k["key"]):
                    hit = k
                    break
            if hit:
                known_hits.append((o, hit))
            else:
                violations.append(o)
        os.makedirs(REPLAY_DIR, exist_ok=True)
        lines = []
        # group known hits per finding key, one line each
        seen_keys = {}
        for o, k in known_hits:
            seen_keys.setdefault(k["key"], (k, []))[1].append(o.name)
        for key, (k, names) in seen_keys.items():
            lines.append("KNOWN-FINDING: property={} {} [{} obligation(s), key {}]".format(
                self.pid, k.get("what", ""), len(names), key))
        MAXV = 12
        if len(violations) > MAXV:
            # confirmed replays first; the rest is summarised (all names are in the evidence file)
            violations_sorted = sorted(violations, key=lambda o: 0 if (o.replay and o.replay.get("confirmed")) else 1)
            lines.append("NOTE: {} failed obligations; VIOLATION lines for the first {} (all names in evidence/{}.json)".format(
                len(violations), MAXV, self.pid))
        else:
            violations_sorted = violations
        for o in violations_sorted[:MAXV]:
            path = os.path.join(REPLAY_DIR, "{}-{}.json".format(self.pid, _sanitize(o.name)))
            rep = dict(property=self.pid, obligation=o.name, kind=o.kind, backend=o.backend,
                       detail=o.detail, model=o.model, replay=o.replay)
            no_input = not (o.replay and o.replay.get("confirmed"))
            rep["failing_input_found"] = not no_input
            with open(path, "w") as fh:
                json.dump(rep, fh, indent=1, default=str)
            line = "VIOLATION property={} replay={}".format(self.pid, path)
            if no_input:
                line += " obligation={} no-failing-input-found".format(_sanitize(o.name))
            lines.append(line)
        n_proved = [o for o in self.obs if o.kind == "proved"]
        n_dis = [o for o in n_proved if o.status == DISCHARGED]
        wall = time.time() - self.t0
        by_backend = {}
        for o in n_proved:
            b = by_backend.setdefault(o.backend or "-", dict(n=0, seconds=0.0))
            b["n"] += 1
            b["seconds"] += o.seconds
        known_names = {o.name for o, _ in known_hits}
        in_scope = [o for o in n_proved if o.name not in known_names]
        cov = dict(
            # obligations in scope of the claim = all generated obligations minus those suppressed by an
            # entry of known_findings.json (listed separately below, never counted as discharged)
            obligations=len(in_scope),
            discharged=len(n_dis),
            obligations_generated=len(n_proved),
            known_finding_obligations=len(known_names),
            failed=[o.name for o in failed][:200],
            known_findings=[o.name for o, _ in known_hits][:200],
            undecided=[o.name for o in undecided][:200],
            checker_cmd=self.checker_cmd,
            trusted_base=self.trusted_base,
            functions_under_contract=self.functions,
            backends={k: dict(n=v["n"], seconds=round(v["seconds"], 3)) for k, v in by_backend.items()},
            solver_seconds=round(sum(o.seconds for o in n_proved), 3),
            extraction_drops=self.extraction_drops,
            vacuity=self.vacuity,
            bounded=self.bounded,
            explanation=self.explanation,
            notes=self.notes,
            generator_errors=self.errors,
        )
        if not cov["explanation"]:
            cov["explanation"] = ("proved part: {} obligations over {} functions under contract; bounded part (run-time contracts on the "
                                  "real code, never counted as proved): {}".format(
                                      len(n_proved), len(self.functions),
                                      "; ".join("{} [{}]".format(k, b["bound"]) for k, b in self.bounded.items()) or "none"))
        # vacuity guard: obligations per function under contract, compared with the committed lock (a drop means that a
        # contract silently stopped generating obligations, e.g. after a rename or a path that became infeasible)
        per_fn = {}
        for o in n_proved:
            parts = o.name.split("/")
            key = parts[1] if len(parts) > 2 else parts[0]
            per_fn[key] = per_fn.get(key, 0) + 1
        cov["obligations_per_function"] = per_fn
        lock_path = os.path.join(VERIF, "contracts", "obligations.lock")
        if os.path.exists(lock_path) and not os.environ.get("PYVC_NO_LOCK"):
            try:
                lock = json.load(open(lock_path)).get(self.pid, {})
            except Exception:
                lock = {}
            for key, n_lock in lock.items():
                n_now = per_fn.get(key, 0)
                if n_now == 0 and not violations and not self.errors:
                    self.errors.append("vacuity guard: {} generated {} obligations on the pinned tree and none now".format(key, n_lock))
            cov["lock_checked"] = len(lock)
        # stability monitor: the slowest queries of this run (budget: 20 s z3 + 30 s cvc5 per query)
        cov["slowest_obligations"] = [dict(name=o.name[:160], seconds=round(o.seconds, 2), backend=o.backend)
                                      for o in sorted(n_proved, key=lambda o: -o.seconds)[:5] if o.seconds > 0]
        cov.update(self.extra)
        # exploration-style keys (measured): bounded evaluations + obligations
        ev = sum(b["evaluations"] for b in self.bounded.values())
        dn = sum(b["distinct_nontrivial"] for b in self.bounded.values())
        cov["evaluations"] = ev + len(n_proved)
        cov["distinct_nontrivial"] = dn + len({o.name for o in n_proved})
        cov["rule"] = ("proved part: one case per named obligation (distinct by name); bounded part: "
                       + "; ".join("{}: {}".format(k, b["rule"]) for k, b in self.bounded.items()))
        samples = list(self.samples)
        for o in n_proved[:3]:
            samples.append(dict(obligation=o.name, status=o.status, backend=o.backend,
                                detail={k: (str(v)[:300]) for k, v in list(o.detail.items())[:4]}))
        for k, b in self.bounded.items():
            samples.extend(b["samples"][:2])
        cov["samples"] = samples[:12] if samples else ["(none)"]
        evidence = dict(property_id=self.pid, tier=self.tier, seed=self.seed, level=self.level,
                        coverage=cov, assumptions=self.assumptions, wall_s=round(wall, 3),
                        violations=len(violations))
        os.makedirs(EVIDENCE_DIR, exist_ok=True)
        with open(os.path.join(EVIDENCE_DIR, self.pid + ".json"), "w") as fh:
            json.dump(evidence, fh, indent=1, default=str)
        for ln in lines:
            print(ln)
        print("{} tier={} obligations={} discharged={} failed={} known={} undecided={} errors={} "
              "bounded_evals={} wall={:.1f}s".format(self.pid, self.tier, len(n_proved), len(n_dis),
                                                    len(failed), len(known_hits), len(undecided),
                                                    len(errs) + len(self.errors), ev, wall))
        sys.stdout.flush()
        if violations:
            return 1
        if errs or self.errors:
            for o in errs[:20]:
                print("GENERATOR-ERROR {}: {}".format(o.name, str(o.detail)[:500]))
            for e in self.errors[:20]:
                print("GENERATOR-ERROR", e)
            return 3
        if len(n_proved) == 0 and not self.bounded:
            print("GENERATOR-ERROR zero obligations generated")
            return 3
        if undecided:
            for o in undecided[:20]:
                print("UNDECIDED", o.name, o.backend)
            return 2
        return 0


def guarded(chk, label, fn, *args, **kw):
    """run one part of a check; a crash of that part is a generator error (exit 3 unless another part found a violation) and
    must not discard what the other parts established"""
    import traceback
    try:
        return fn(*args, **kw)
    except BaseException as e:     # noqa
        if isinstance(e, (KeyboardInterrupt, SystemExit)):
            raise
        chk.error("{} crashed: {}: {} | {}".format(label, type(e).__name__, str(e)[:300], traceback.format_exc()[-400:].replace("\n", " / ")))
        return None
