#!/usr/bin/env python3
"""Writes MANIFEST.json from the table below (kept in one place so it stays valid)."""
import json

BASELINE_OFF = ("cd /repo && /venv/bin/python -m pytest -ra -q -p no:cacheprovider --timeout=900 "
                "--continue-on-collection-errors")

CHECKS = {
 "C05": dict(
    category="proof",
    technique="contract-based deductive verification: sidecar table contracts; Mode Q VC generation (real table code run over exact rationals of the literal text) discharged by z3/cvc5",
    text=("Every key of the seven rule tables is enumerated from the AST on every run; the real table function is "
          "executed for each key with float literals replaced mechanically by the exact decimal of the source text "
          "(and again by the double it rounds to); each contract clause (returns a pair of tuples, equal lengths, "
          "nodes in (0,1), weights of one sign, every advertised moment within 1e-30 as written and within 1e-13 "
          "relative in double under the IEEE standard model, every exported pair available, scheme-constructor key "
          "map) is a ground/linear real-arithmetic SMT query discharged by z3 (cvc5 second). The space is finite "
          "and covered completely, so this is a proof for the tables as they stand; a changed digit, dropped entry, "
          "missing return or stale exported pair fails a named obligation and is replayed with mpmath on the real source."),
    note=("Assumed: A-LOG (atanh series remainder bound, cross-checked against mpmath.iv each run); A-FP standard model for the "
          "double clause; Fraction(text) exact; advertised classes read from the docstrings. Known finding D6 "
          "(gauss_log N=15/31 accurate to 7e-24/1e-21 only) is listed in known_findings.json and excluded from the "
          "obligation count; Gauss-Legendre nodes (numpy leggauss, not tabulated) are outside C05."),
    design="4.C05"),
}

NOT_YET = {
}

NOT_APPLICABLE = {
 "C13": "spectral bound on the assembled floating-point matrix for all meshes: no contract on a function in /repo expresses it other than by restating it, and no installed solver has a theory for eigenvalue/PSD reasoning over symbolic dimension plus quadrature error (DESIGN section 5)",
}


def main():
    import os
    props = [json.loads(l)["id"] for l in open(os.path.join(os.path.dirname(__file__), "properties.jsonl"))]
    checks = []
    for pid in props:
        if pid in CHECKS:
            c = CHECKS[pid]
            checks.append(dict(
                property_id=pid,
                quick_cmd="./check {} --tier quick".format(pid),
                thorough_cmd="./check {} --tier thorough".format(pid),
                evidence_file="/verif/evidence/{}.json".format(pid),
                replay_cmd_template="./check {} --replay {{path}}".format(pid),
                engine="pyvc",
                level_claimed=dict(category=c["category"], text=c["text"], design_ref=c["design"]),
                level_note=c["note"],
                technique=c["technique"]))
    na = []
    for pid in props:
        if pid in CHECKS:
            continue
        if pid in NOT_APPLICABLE:
            na.append(dict(property_id=pid, reason=NOT_APPLICABLE[pid]))
        else:
            na.append(dict(property_id=pid, reason=NOT_YET.get(pid, "check not built yet in this round (planned, see DESIGN.md section 4); not claimed until its command exists")))
    man = dict(
        version=1,
        setup_cmd="./setup.sh",
        hooks=dict(guard="STBEM_VERIF", enable="no hooks needed: contracts are sidecar files in /verif/contracts, the real source is re-read on every run",
                   baseline_off_cmd=BASELINE_OFF, source_commits=[], add_only=True),
        engines=[dict(name="pyvc", path="/verif/pyvc", serves_properties=sorted(CHECKS),
                      kind_free_text="home-grown VC generator over the Python AST of /repo (Mode S symbolic, Mode Q exact rational execution) + z3/cvc5; bounded run-time contracts as labelled stand-in")],
        checks=checks,
        notes="Exit codes: 0 held / 1 violation (VIOLATION line + replay) / 2 undecided / 3 generator error. known_findings.json lists recorded findings and fix: commits.",
        not_applicable=na)
    with open(os.path.join(os.path.dirname(__file__), "MANIFEST.json"), "w") as fh:
        json.dump(man, fh, indent=1)
    print("MANIFEST.json: {} checks, {} not_applicable".format(len(checks), len(na)))


if __name__ == "__main__":
    main()
