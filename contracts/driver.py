"""C03 — Galerkin orthogonality: sign and index conventions of the driver and of the residual, in ideal arithmetic.

The driver statements are extracted mechanically from example.py by AST path: inside `if __name__ == '__main__':`, the body
of `for k in range(100):`, the statements that assign `mat`, `rhs`, `Phi`, `residual` (and the `if M0:` / `if g_linform:`
statements that update `rhs`).  Dropped: printing, gmsh dumps, timing, rate tables, estimator calls, marking/refinement.
"""
import ast

import z3

from pyvc.engine import (Contract, Obj, Ref, Vec, VList, Ext, Closure, Module, OutsideSubset, to_z3, to_real, b_and, num_cmp)
from . import common as C
from . import estimators as EST

I, R = z3.IntSort(), z3.RealSort()
EVAL = z3.Function("EVAL", I, R, R, R)          # (V 1_j)(t, gamma(x_hat)) for trial element j (ghost id)
M0U0 = z3.Function("M0U0", R, R, R, R)
GFUN = z3.Function("GFUN", R, R, R, R)
T0 = z3.Function("T0", I, R)
WANTED = ("mat", "rhs", "Phi", "residual")


def extract_driver(eng):
    """returns the synthetic FunctionDef `__driver__(SL, M0, M0u0, g, g_linform, elems, N, args, error_estimator)`"""
    m = eng.module("example")
    main = None
    for node in m.tree.body:
        if isinstance(node, ast.If) and isinstance(node.test, ast.Compare) and isinstance(node.test.left, ast.Name) \
                and node.test.left.id == "__name__":
            main = node
    if main is None:
        raise OutsideSubset("example.py: no `if __name__ == '__main__':` block")
    loop = None
    for st in main.body:
        if isinstance(st, ast.For) and isinstance(st.iter, ast.Call) and getattr(st.iter.func, "id", None) == "range":
            loop = st
    if loop is None:
        raise OutsideSubset("example.py: adaptive loop `for k in range(...)` not found")
    picked, dropped = [], 0
    for st in loop.body:
        names = set()
        for sub in ast.walk(st):
            if isinstance(sub, (ast.Assign, ast.AugAssign)):
                for t in (sub.targets if isinstance(sub, ast.Assign) else [sub.target]):
                    if isinstance(t, ast.Name):
                        names.add(t.id)
        if isinstance(st, (ast.Assign, ast.AugAssign)) and names & set(WANTED):
            picked.append(st)
        elif isinstance(st, ast.If) and names and names <= {"rhs"}:
            picked.append(st)
        else:
            dropped += 1
    have = set()
    for st in picked:
        for sub in ast.walk(st):
            if isinstance(sub, ast.Assign):
                for t in sub.targets:
                    if isinstance(t, ast.Name):
                        have.add(t.id)
    if not set(WANTED) <= have:
        raise OutsideSubset("example.py: driver statements for {} not found".format(sorted(set(WANTED) - have)))
    ret = ast.Return(value=ast.Tuple(elts=[ast.Name(id=n, ctx=ast.Load()) for n in WANTED], ctx=ast.Load()))
    args = ast.arguments(posonlyargs=[], args=[ast.arg(arg=a) for a in
                                               ("SL", "M0", "M0u0", "g", "g_linform", "elems", "N", "args", "error_estimator")],
                         kwonlyargs=[], kw_defaults=[], defaults=[])
    fn = ast.FunctionDef(name="__driver__", args=args, body=picked + [ret], decorator_list=[], lineno=loop.lineno, col_offset=0)
    ast.fix_missing_locations(fn)
    m.functions["__driver__"] = (fn, None)
    eng.ghost_extraction = dict(picked=len(picked), dropped=dropped)
    return fn


def elem(i):
    return Obj("Element", {"__module__": "src.mesh", "ghost_id": z3.IntVal(i), "time_interval": (T0(z3.IntVal(i)), z3.Real("t1_%d" % i)),
                           "space_interval": (z3.Real("x0_%d" % i), z3.Real("x1_%d" % i)),
                           "gamma_space": Ref("Piece", z3.Int("piece_%d" % i), call=point_call)}, label="E%d" % i)


def point_call(eng, ref, args):
    """gamma(x_hat) for an array of parameters: an array of points with `.T` iterating over the points"""
    xh = args[0]
    pts = [Vec([C.GX(ref.term, to_real(x)), C.GY(ref.term, to_real(x))]) for x in eng.iter_concrete(xh)]
    return Obj("PointArray", {"T": VList(pts)})


def sc_driver(eng):
    scen = []
    for data in ("M0+g", "M0-only", "g-only"):
        def build(eng, data=data):
            extract_driver(eng)
            elems = [elem(0), elem(1)]
            SL = Obj("SingleLayerOperator", {"__module__": "src.single_layer"}, label="SL")
            has_m0, has_g = data != "g-only", data != "M0-only"
            M0 = Obj("InitialOperator", {"__module__": "src.initial_potential"}, label="M0") if has_m0 else None
            M0u0 = Ext("M0u0", lambda e, t, x: M0U0(to_real(t), to_real(x.items[0]), to_real(x.items[1]))) if has_m0 else None
            g = Ext("g", lambda e, t, x: GFUN(to_real(t), to_real(x.items[0]), to_real(x.items[1]))) if has_g else None
            glin = Ext("g_linform", lambda e, es: Vec([EST.GL(EST.eid(f)) for f in e.iter_concrete(es)])) if has_g else None
            args = Obj("Namespace", {"single_layer_exact": z3.Bool("single_layer_exact")})
            ee = Obj("ErrorEstimator", {"__module__": "src.error_estimator"}, label="EE")
            eng.ghost.update(dict(elems=elems, has_m0=has_m0, has_g=has_g))
            return dict(SL=SL, M0=M0, M0u0=M0u0, g=g, g_linform=glin, elems=VList(elems), N=2, args=args, error_estimator=ee)
        scen.append(dict(label=data, args=build))
    return scen


def eval_result(eng, env):
    e, t = env.lookup("elem_trial"), env.lookup("t")
    xh = env.lookup("x_hat") if env.has("x_hat") else env.lookup("x")      # evaluate_exact takes the parameter as `x`
    return EVAL(EST.eid(e), to_real(t), to_real(xh))


def s_driver_spec(eng, result, part):
    mat, rhs, Phi, residual = result
    g = eng.ghost
    elems = g["elems"]
    n = len(elems)
    if part == "rhs-sign":
        out = []
        for i in range(n):
            want = z3.RealVal(0)
            if g["has_m0"]:
                want = want - EST.M0L(z3.IntVal(i))
            if g["has_g"]:
                want = want + EST.GL(z3.IntVal(i))
            out.append(to_real(rhs.items[i]) == want)
        return z3.And(*out)
    if part == "matrix-rows-test-cols-trial":
        return z3.And(*[to_real(mat.rows[i][j]) == EST.BILS(z3.IntVal(j), z3.IntVal(i)) for i in range(n) for j in range(n)])
    if part == "solve":
        return z3.And(*[sum([to_real(mat.rows[i][j]) * to_real(Phi.items[j]) for j in range(n)], z3.RealVal(0)) == to_real(rhs.items[i])
                        for i in range(n)])
    if part == "residual-pointwise":
        # r(t, gamma_i(x_hat)) == sum_j Phi_j (V 1_j)(t, .) + M0u0 - g   at an arbitrary point of element i
        saved = eng.spec_mode
        eng.spec_mode = 0
        try:
            out = []
            for i in range(n):
                # a batch of two arbitrary points of element i (different times): every entry of the returned array must be the
                # pointwise value of ITS point -- nothing may be decided once per batch
                # (one point here: the two-point batch is verified for lists of any length in contracts/residual_n.py)
                tqs = [eng.fresh("tq", "Real")]
                xqs = [eng.fresh("xq", "Real")]
                gam = elems[i].fields["gamma_space"]
                eng.externals["POINT_PIECE"] = gam
                r = eng.call(residual, [Vec(tqs), Vec(xqs), gam])
                for k, (tq, xq) in enumerate(zip(tqs, xqs)):
                    val = r.items[k]
                    want = z3.RealVal(0)
                    for j in range(n):
                        want = want + to_real(Phi.items[j]) * z3.If(tq > T0(z3.IntVal(j)), EVAL(z3.IntVal(j), tq, xq), z3.RealVal(0))
                    gx, gy = C.GX(gam.term, xq), C.GY(gam.term, xq)
                    if g["has_m0"]:
                        want = want + M0U0(tq, gx, gy)
                    if g["has_g"]:
                        want = want - GFUN(tq, gx, gy)
                    out.append(to_real(val) == want)
            return z3.And(*out)
        finally:
            eng.spec_mode = saved
    raise OutsideSubset(part)


contracts = [
    Contract("src.single_layer:SingleLayerOperator.bilform_matrix", prop="C17", result=EST.bilform_matrix_result),
    Contract("src.initial_potential:InitialOperator.linform_vector", prop="C17", result=EST.linform_vector_result),
    Contract("src.single_layer:SingleLayerOperator._init_elems", prop="C07", result=lambda e, b: None),
    Contract("src.single_layer:SingleLayerOperator.evaluate", prop="C07", result_term=eval_result,
             literal_cases=[("t <= elem_trial.time_interval[0]", 0)]),
    Contract("src.single_layer:SingleLayerOperator.evaluate_exact", prop="C07", result_term=eval_result,
             requires=[("point-on-the-same-straight-piece-as-the-trial-element", "elem_trial.gamma_space is POINT_PIECE")],
             literal_cases=[("t <= elem_trial.time_interval[0]", 0)]),
    Contract("example:__driver__", props=["C03"], setup=sc_driver,
             ensures=[("rhs == -<M0 u0, 1_i> + <g, 1_i>", "driver_spec(result, 'rhs-sign')"),
                      ("mat[i, j] == <V 1_j, 1_i> (rows test, columns trial)", "driver_spec(result, 'matrix-rows-test-cols-trial')"),
                      ("Phi solves mat Phi == rhs", "driver_spec(result, 'solve')"),
                      ("residual == sum_j Phi_j (V 1_j) + M0u0 - g pointwise, same element order as the matrix columns; causality skip harmless",
                       "driver_spec(result, 'residual-pointwise')")]),
]


def install(eng):
    eng.spec_funcs["driver_spec"] = s_driver_spec
    eng.used_assumptions.add("A-INT-LIN: the element mean is a linear functional; with (A1) INT_i evaluate(trial_j, .) == bilform(trial_j, test_i) "
                             "[C07/C01], (A2) INT_i M0u0 == linform(i) [C08], (A3) INT_i g == g_linform(i) the four proved clauses give "
                             "MEAN_i(r) == (mat Phi)_i - rhs_i == 0")
    eng.used_assumptions.add("C04 zero clause: evaluate / evaluate_exact return 0 for t <= trial.t0 (literal case at call sites)")
