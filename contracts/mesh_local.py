"""C02 / C10 — local heap contracts of src/mesh.py by symbolic execution with lazily initialised heap shapes.

The functions under contract are loop-free over the heap (they inspect a bounded neighbourhood of their arguments), so
enumerating every shape of that neighbourhood (children present or not, twin edge absent / unbisected / bisected, glued
or not) with symbolic coordinates is a complete case analysis (lazy initialisation).  The global inductive invariant
(neighbour exactness, minimal closure) stays with the bounded explorer.
"""
import ast as _ast

import z3

from pyvc.engine import (Contract, LoopContract, Obj, Ref, Vec, VList, SymSeq, Ext, OutsideSubset, to_z3, to_real, b_and, b_or,
                         b_not, num_cmp)
from . import common as C

MESH = "src.mesh"


def vtx(name, t=None, x=None, idx=-1):
    return Obj("Vertex", {"__module__": MESH, "t": t if t is not None else z3.Real(name + "_t"),
                          "x": x if x is not None else z3.Real(name + "_x"), "idx": idx}, label=name)


def edge(name, a, b, parent=None, glued=False, on_boundary=False):
    return Obj("Edge", {"__module__": MESH, "vertices": (a, b), "parent": parent, "elem": None, "nbr_edge": None,
                        "children": VList([]), "on_boundary": on_boundary, "glued": glued}, label=name)


def midpoint_of(a, b, name):
    return vtx(name, (to_real(a.fields["t"]) + to_real(b.fields["t"])) / 2, (to_real(a.fields["x"]) + to_real(b.fields["x"])) / 2)


def bisected(e, name, mid=None):
    """give edge e two children (a, m), (m, b) sharing the midpoint vertex (local invariant I_edge)"""
    a, b = e.fields["vertices"]
    m = mid or midpoint_of(a, b, name + "_m")
    c0 = edge(name + "_c0", a, m, parent=e, glued=e.fields["glued"], on_boundary=e.fields["on_boundary"])
    c1 = edge(name + "_c1", m, b, parent=e, glued=e.fields["glued"], on_boundary=e.fields["on_boundary"])
    e.fields["children"] = (c0, c1)
    return m


def twin(e, name, glued=False, seam_shift=None):
    """the neighbouring half-edge: same end points reversed (or, when glued, copies on the other side of the seam)"""
    a, b = e.fields["vertices"]
    if not glued:
        tw = edge(name, b, a)
    else:
        a2 = vtx(name + "_a", a.fields["t"], seam_shift)
        b2 = vtx(name + "_b", b.fields["t"], seam_shift)
        tw = edge(name, b2, a2, glued=True, on_boundary=True)
    tw.fields["nbr_edge"] = e
    e.fields["nbr_edge"] = tw
    return tw


# ------------------------------------------------------------------------------------------
# Edge.bisect

def sc_edge_bisect(eng):
    scen = []
    for shape in ("no-twin", "twin-unbisected", "twin-bisected", "glued-twin-bisected", "already-bisected"):
        def build(eng, shape=shape):
            a, b = vtx("a"), vtx("b")
            glued = shape.startswith("glued")
            e = edge("e", a, b, glued=glued, on_boundary=z3.Bool("e_on_boundary") if not glued else True)
            m = midpoint_of(a, b, "m")
            old_children = None
            if shape in ("twin-unbisected", "twin-bisected"):
                tw = twin(e, "tw")
                if shape == "twin-bisected":
                    bisected(tw, "tw", mid=m)
            elif shape == "glued-twin-bisected":
                tw = twin(e, "tw", glued=True, seam_shift=z3.Real("x_other_side"))
                bisected(tw, "tw")
            elif shape == "already-bisected":
                bisected(e, "e", mid=vtx("m_old"))
                old_children = e.fields["children"]
            eng.ghost.update(dict(e=e, a=a, b=b, m=m, shape=shape, old_children=old_children))
            return {"self": e, "child_vertex": m}
        scen.append(dict(label=shape, args=build))
    return scen


def s_bisect_post(eng, result, part):
    g = eng.ghost
    e, a, b, m, shape = g["e"], g["a"], g["b"], g["m"], g["shape"]
    ch = e.fields["children"]
    if part == "idempotent":
        return shape != "already-bisected" or (ch is g["old_children"] and result is ch)
    if shape == "already-bisected":
        return True
    if part == "children":
        return (isinstance(ch, tuple) and len(ch) == 2 and result is ch and ch[0].fields["vertices"] == (a, m)
                and ch[1].fields["vertices"] == (m, b) and all(c.fields["parent"] is e for c in ch)
                and all(len(c.fields["children"].items) == 0 for c in ch) and all(c.fields["elem"] is None for c in ch))
    if part == "flags":
        return b_and(*[eng.compare(_ast.Eq(), c.fields[f], e.fields[f]) for c in ch for f in ("on_boundary", "glued")])
    if part == "cross-links":
        tw = e.fields["nbr_edge"]
        if tw is None or not isinstance(tw.fields["children"], tuple):
            return all(c.fields["nbr_edge"] is None for c in ch)
        t0, t1 = tw.fields["children"]
        return (ch[0].fields["nbr_edge"] is t1 and ch[1].fields["nbr_edge"] is t0 and t1.fields["nbr_edge"] is ch[0]
                and t0.fields["nbr_edge"] is ch[1])
    raise OutsideSubset(part)


contracts = []
contracts.append(Contract(
    MESH + ":Edge.bisect", props=["C10", "C02"], setup=sc_edge_bisect,
    ensures=[("idempotent: an already bisected edge is returned unchanged", "bisect_post(result, 'idempotent')"),
             ("children are (a, m), (m, b) with parent = self, no element, no children", "bisect_post(result, 'children')"),
             ("children inherit on_boundary and glued", "bisect_post(result, 'flags')"),
             ("the four half-edges are cross-linked symmetrically and reversed (or not at all without a bisected twin)",
              "bisect_post(result, 'cross-links')")]))


# ------------------------------------------------------------------------------------------
# Edge.neighbour_elements

def sc_neighbours(eng):
    scen = []
    for shape in ("twin-unbisected", "twin-bisected", "no-twin-parent-has-unbisected-twin", "no-twin-parent-has-no-twin", "no-twin-no-parent"):
        def build(eng, shape=shape):
            a, b = vtx("a"), vtx("b")
            el = lambda n: Obj("Element", {"__module__": MESH}, label=n)
            e = edge("e", a, b)
            exp = None
            if shape == "twin-unbisected":
                tw = twin(e, "tw")
                tw.fields["elem"] = el("N")
                exp = [tw.fields["elem"]]
            elif shape == "twin-bisected":
                tw = twin(e, "tw")
                bisected(tw, "tw")
                for k, c in enumerate(tw.fields["children"]):
                    c.fields["elem"] = el("N%d" % k)
                exp = [c.fields["elem"] for c in tw.fields["children"]]
            elif shape.startswith("no-twin-parent"):
                p = edge("p", a, vtx("far"))
                e.fields["parent"] = p
                if shape == "no-twin-parent-has-unbisected-twin":
                    tw = twin(p, "ptw")
                    tw.fields["elem"] = el("N")
                    exp = [tw.fields["elem"]]
                else:
                    e.fields["on_boundary"] = True
                    exp = []
            else:
                e.fields["on_boundary"] = True
                exp = []
            eng.ghost["expected"] = exp
            return {"self": e}
        scen.append(dict(label=shape, args=build))
    return scen


def s_nbrs_post(eng, result):
    exp = eng.ghost["expected"]
    got = eng.iter_concrete(result)
    return len(got) == len(exp) and all(x is y for x, y in zip(got, exp)) and len(got) <= 2


contracts.append(Contract(
    MESH + ":Edge.neighbour_elements", props=["C10"], setup=sc_neighbours,
    ensures=[("elements of the twin / the twin's children / the parent's twin; [] only on a non-glued boundary edge; at most two",
              "nbrs_post(result)")]))


# ------------------------------------------------------------------------------------------
# Mesh.__bisect_edge, Mesh.__create_edges

def mesh_obj():
    vs = VList([vtx("v_first", idx=0), vtx("v_second", idx=1)])
    return Obj("Mesh", {"__module__": MESH, "vertices": vs, "N_elements": z3.Int("N_elements"), "leaf_elements": None}, label="mesh")


def sc_bisect_edge(eng):
    scen = []
    for shape in ("no-twin", "twin-unbisected", "twin-bisected", "glued-twin-bisected"):
        for axis in ("space-edge", "time-edge"):
            def build(eng, shape=shape, axis=axis):
                a, b = vtx("a"), vtx("b")
                if axis == "space-edge":        # constant t
                    eng.assume(z3.And(a.fields["t"] == b.fields["t"], a.fields["x"] != b.fields["x"]))
                else:
                    eng.assume(z3.And(a.fields["x"] == b.fields["x"], a.fields["t"] != b.fields["t"]))
                glued = shape.startswith("glued")
                e = edge("e", a, b, glued=glued, on_boundary=glued)
                reuse = None
                if shape in ("twin-unbisected", "twin-bisected"):
                    tw = twin(e, "tw")
                    if shape == "twin-bisected":
                        reuse = bisected(tw, "tw")
                elif glued:
                    tw = twin(e, "tw", glued=True, seam_shift=z3.Real("x_other_side"))
                    bisected(tw, "tw")
                m = mesh_obj()
                eng.ghost.update(dict(e=e, a=a, b=b, mesh=m, reuse=reuse, n_before=len(m.fields["vertices"].items)))
                return {"self": m, "edge": e}
            scen.append(dict(label="{}/{}".format(shape, axis), args=build))
    return scen


def s_bisect_edge_post(eng, result, part):
    g = eng.ghost
    e, a, b, m, reuse = g["e"], g["a"], g["b"], g["mesh"], g["reuse"]
    vs = m.fields["vertices"].items
    if part == "midpoint":
        return b_and(num_cmp("==", result.fields["t"], (to_real(a.fields["t"]) + to_real(b.fields["t"])) / 2),
                     num_cmp("==", result.fields["x"], (to_real(a.fields["x"]) + to_real(b.fields["x"])) / 2))
    if part == "reuse":
        if reuse is not None:
            return result is reuse and len(vs) == g["n_before"]
        return len(vs) == g["n_before"] + 1 and vs[-1] is result and result.fields["idx"] == g["n_before"]
    if part == "bisected":
        ch = e.fields["children"]
        return isinstance(ch, tuple) and ch[0].fields["vertices"][1] is result and ch[1].fields["vertices"][0] is result
    raise OutsideSubset(part)


contracts.append(Contract(
    MESH + ":Mesh.__bisect_edge", props=["C02"], setup=sc_bisect_edge,
    ensures=[("returns the exact midpoint (a + b) / 2", "bisect_edge_post(result, 'midpoint')"),
             ("reuses the twin's midpoint vertex iff the (non-glued) twin is bisected, else appends a new vertex with idx == old length",
              "bisect_edge_post(result, 'reuse')"),
             ("edge is bisected at that vertex", "bisect_edge_post(result, 'bisected')")]))


def s_create_edges_post(eng, result, vertices):
    e1, e2 = result
    v0, v1 = eng.iter_concrete(vertices)
    return (e1.fields["vertices"] == (v0, v1) and e2.fields["vertices"] == (v1, v0) and e1.fields["nbr_edge"] is e2
            and e2.fields["nbr_edge"] is e1 and e1.fields["parent"] is None and e2.fields["parent"] is None
            and e1.fields["on_boundary"] is False and e1.fields["glued"] is False)


contracts.append(Contract(
    MESH + ":Mesh.__create_edges", props=["C02", "C10"],
    setup=lambda eng: [dict(label="", args=lambda e: {"self": mesh_obj(), "vertices": VList([vtx("p"), vtx("q")])})],
    ensures=[("two interior twin half-edges (p, q), (q, p)", "create_edges_post(result, vertices)")]))


# ------------------------------------------------------------------------------------------
# refine_axis after the conformity closure: child construction, levels, bookkeeping

def select_after_closure(stmts):
    for k, st in enumerate(stmts):
        if isinstance(st, _ast.For):
            return stmts[k + 1:]
    raise OutsideSubset("refine_axis: closure loop not found")


class LeafSet:
    def __init__(self, items):
        self.items = list(items)


def leafset_attr(eng, base, attr):
    if isinstance(base, LeafSet):
        if attr == "pop":
            def pop(e, key):
                if not any(k is key for k in base.items):
                    e.oblige("leaf_elements.pop/key-present", False)
                base.items = [k for k in base.items if k is not key]
            return Ext("pop", pop)
        if attr == "setdefault":
            def setdefault(e, key, default=None):
                if not any(k is key for k in base.items):
                    base.items.append(key)
            return Ext("setdefault", setdefault)
    return NotImplemented


def sc_refine_axis(eng):
    scen = []
    shapes0 = ("no-twin", "twin-unbisected", "twin-bisected", "glued-twin-bisected")
    shapes1 = ("no-twin", "twin-unbisected", "twin-bisected")
    for ax in (0, 1):
        shapes = shapes0 if ax == 0 else shapes1
        for sa in shapes:
            for sb in shapes:
                def build(eng, ax=ax, sa=sa, sb=sb):
                    t0, t1, x0, x1 = z3.Reals("t0 t1 x0 x1")
                    eng.assume(z3.And(t0 < t1, x0 < x1))
                    v = [vtx("v0", t0, x0), vtx("v1", t0, x1), vtx("v2", t1, x1), vtx("v3", t1, x0)]
                    es = [edge("e%d" % i, v[i], v[(i + 1) % 4]) for i in range(4)]
                    lt, lx = z3.Ints("level_t level_x")
                    piece = C.piece(eng, "piece")
                    el = Obj("Element", {"__module__": MESH, "edges": VList(es), "levels": (lt, lx), "vertices": VList(v), "parent": None,
                                         "children": VList([]), "gamma_space": piece, "glob_idx": z3.Int("idx_elem")}, label="elem")
                    for e in es:
                        e.fields["elem"] = el
                    pair = (es[1], es[3]) if ax == 0 else (es[0], es[2])
                    for e, shp, nm in zip(pair, (sa, sb), ("A", "B")):
                        if shp in ("twin-unbisected", "twin-bisected"):
                            tw = twin(e, "tw" + nm)
                            if shp == "twin-bisected":
                                bisected(tw, "tw" + nm)
                        elif shp == "glued-twin-bisected":
                            e.fields["glued"], e.fields["on_boundary"] = True, True
                            tw = twin(e, "tw" + nm, glued=True, seam_shift=z3.Real("x_seam_" + nm))
                            bisected(tw, "tw" + nm)
                    m = mesh_obj()
                    other = Obj("Element", {"__module__": MESH, "children": VList([])}, label="other_leaf")
                    m.fields["leaf_elements"] = LeafSet([other, el])
                    eng.ghost.update(dict(el=el, mesh=m, ax=ax, box=(t0, t1, x0, x1), other=other, N0=m.fields["N_elements"], es=es))
                    return {"self": m, "elem": el, "ax": ax}
                scen.append(dict(label="ax={}/{}/{}".format(ax, sa, sb), args=build))
    return scen


def s_refine_post(eng, result, part):
    g = eng.ghost
    el, m, ax, (t0, t1, x0, x1) = g["el"], g["mesh"], g["ax"], g["box"]
    kids = el.fields["children"]
    if not (isinstance(kids, tuple) and len(kids) == 2 and result is kids):
        return False
    tm, xm = (t0 + t1) / 2, (x0 + x1) / 2
    want = [(t0, tm, x0, x1), (tm, t1, x0, x1)] if ax == 0 else [(t0, t1, x0, xm), (t0, t1, xm, x1)]
    if part == "halves":
        out = []
        for c, (a, b, c0, d) in zip(kids, want):
            ti, si = c.fields["time_interval"], c.fields["space_interval"]
            out += [num_cmp("==", ti[0], a), num_cmp("==", ti[1], b), num_cmp("==", si[0], c0), num_cmp("==", si[1], d),
                    num_cmp("==", c.fields["h_t"], b - a), num_cmp("==", c.fields["h_x"], d - c0)]
        return b_and(*out)
    if part == "tree":
        lt, lx = el.fields["levels"]
        wl = (lt + 1, lx) if ax == 0 else (lt, lx + 1)
        return b_and(*[b_and(c.fields["parent"] is el, num_cmp("==", c.fields["levels"][0], wl[0]), num_cmp("==", c.fields["levels"][1], wl[1]),
                             eng.identical(c.fields["gamma_space"], el.fields["gamma_space"]), len(c.fields["children"].items) == 0)
                       for c in kids])
    if part == "bookkeeping":
        leaves = m.fields["leaf_elements"].items
        ok = (len(leaves) == 3 and any(l is g["other"] for l in leaves) and all(any(l is c for l in leaves) for c in kids)
              and not any(l is el for l in leaves))
        return b_and(ok, num_cmp("==", kids[0].fields["glob_idx"], g["N0"]), num_cmp("==", kids[1].fields["glob_idx"], g["N0"] + 1),
                     num_cmp("==", m.fields["N_elements"], g["N0"] + 2))
    if part == "edges":
        ok = all(all(e.fields["elem"] is c for e in eng.iter_concrete(c.fields["edges"])) for c in kids)
        # the two edges of the parent that were bisected no longer carry an element; the reused ones carry a child
        return ok and all(e.fields["elem"] is not el for e in g["es"])
    raise OutsideSubset(part)


contracts.append(Contract(
    MESH + ":Mesh.refine_axis", props=["C02"], setup=sc_refine_axis, body_select=select_after_closure,
    ensures=[("children are the two halves at the exact midpoint, other axis unchanged", "refine_post(result, 'halves')"),
             ("children: parent = elem, level + unit(ax), same piece, childless", "refine_post(result, 'tree')"),
             ("leaf collection: elem replaced by its children, others untouched; indices N, N+1; counter + 2", "refine_post(result, 'bookkeeping')"),
             ("every edge of a child is registered to that child; no edge still points to elem", "refine_post(result, 'edges')")]))


def install(eng):
    install_init(eng)
    eng.spec_funcs.update({"bisect_post": s_bisect_post, "nbrs_post": s_nbrs_post, "bisect_edge_post": s_bisect_edge_post,
                           "create_edges_post": s_create_edges_post, "refine_post": s_refine_post})
    cls = type(eng)
    if leafset_attr not in cls.getattr_hooks:
        cls.getattr_hooks = list(cls.getattr_hooks) + [leafset_attr]
    eng.used_assumptions.add("lazy initialisation: every heap shape of the inspected neighbourhood is enumerated (twin absent / unbisected / "
                             "bisected / glued), coordinates symbolic; local invariants assumed on entry: twin edges have reversed end points, "
                             "a bisected edge's children share its midpoint vertex (I_edge), edge.elem registration (I_elem)")
    eng.used_assumptions.add("refine_axis is verified from the statement after the conformity-closure loop (cut); the closure itself (global "
                             "invariant) is the bounded explorer's part")


# ------------------------------------------------------------------------------------------
# Mesh.__init__ on small tensor grids (N_t, N_x <= 3, symbolic strictly increasing coordinates, open and glued)

def sc_mesh_init(eng):
    scen = []
    for nt in (1, 2, 3):
        for nx in (1, 2, 3):
            for glue in (False, True):
                def build(eng, nt=nt, nx=nx, glue=glue):
                    ts = [z3.Real("t_%d" % j) for j in range(nt + 1)]
                    xs = [z3.Real("x_%d" % i) for i in range(nx + 1)]
                    for a, b in list(zip(ts, ts[1:])) + list(zip(xs, xs[1:])):
                        eng.assume(a < b)
                    m = Obj("Mesh", {"__module__": MESH}, label="mesh")
                    eng.ghost.update(dict(mesh=m, ts=ts, xs=xs, nt=nt, nx=nx, glue=glue))
                    return {"self": m, "glue_space": glue, "initial_space_mesh": VList(xs), "initial_time_mesh": VList(ts)}
                scen.append(dict(label="Nt={},Nx={},glue={}".format(nt, nx, glue), args=build))
    return scen


def s_mesh_init_post(eng, part):
    g = eng.ghost
    m, ts, xs, nt, nx, glue = g["mesh"], g["ts"], g["xs"], g["nt"], g["nx"], g["glue"]
    roots = eng.iter_concrete(m.fields["roots"])
    if len(roots) != nt * nx:
        return False
    R = lambda j, i: roots[j * nx + i]
    if part == "tiling":
        out = []
        for j in range(nt):
            for i in range(nx):
                r = R(j, i)
                ti, si = r.fields["time_interval"], r.fields["space_interval"]
                out += [num_cmp("==", ti[0], ts[j]), num_cmp("==", ti[1], ts[j + 1]), num_cmp("==", si[0], xs[i]), num_cmp("==", si[1], xs[i + 1]),
                        r.fields["levels"] == (0, 0), r.fields["parent"] is None, len(r.fields["children"].items) == 0,
                        r.fields["glob_idx"] == j * nx + i]
        return b_and(*out)
    if part == "bookkeeping":
        leaves = m.fields["leaf_elements"].items
        vs = m.fields["vertices"].items
        return (len(leaves) == len(roots) and all(a is b for a, b in zip(leaves, roots)) and m.fields["N_elements"] == nt * nx
                and len(vs) == (nt + 1) * (nx + 1) and all(v.fields["idx"] == k for k, v in enumerate(vs)))
    if part == "edges":
        ok = True
        for j in range(nt):
            for i in range(nx):
                e = eng.iter_concrete(R(j, i).fields["edges"])
                ok = ok and all(x.fields["elem"] is R(j, i) for x in e)
                # boundary flags on the four outer sides
                ok = ok and (e[0].fields["on_boundary"] is (j == 0)) and (e[2].fields["on_boundary"] is (j == nt - 1))
                ok = ok and (e[1].fields["on_boundary"] is (i == nx - 1)) and (e[3].fields["on_boundary"] is (i == 0))
                # twins: right <-> left of the next element, top <-> bottom of the element above
                if i + 1 < nx:
                    l = eng.iter_concrete(R(j, i + 1).fields["edges"])[3]
                    ok = ok and e[1].fields["nbr_edge"] is l and l.fields["nbr_edge"] is e[1]
                if j + 1 < nt:
                    b = eng.iter_concrete(R(j + 1, i).fields["edges"])[0]
                    ok = ok and e[2].fields["nbr_edge"] is b and b.fields["nbr_edge"] is e[2]
                if j == 0:
                    ok = ok and e[0].fields["nbr_edge"] is None
                if j == nt - 1:
                    ok = ok and e[2].fields["nbr_edge"] is None
            first = eng.iter_concrete(R(j, 0).fields["edges"])[3]
            last = eng.iter_concrete(R(j, nx - 1).fields["edges"])[1]
            if glue:
                ok = ok and first.fields["glued"] is True and last.fields["glued"] is True
                ok = ok and first.fields["nbr_edge"] is last and last.fields["nbr_edge"] is first
            else:
                ok = ok and first.fields["nbr_edge"] is None and last.fields["nbr_edge"] is None
                ok = ok and first.fields["glued"] is False and last.fields["glued"] is False
        return ok
    raise OutsideSubset(part)


init_contract = Contract(
    MESH + ":Mesh.__init__", props=["C02", "C10"], setup=sc_mesh_init,
    ensures=[("roots are the cells of the tensor grid: levels (0,0), no parent, no children, indices j*N_x + i", "mesh_init_post('tiling')"),
             ("leaf collection == roots, element counter, vertex indices", "mesh_init_post('bookkeeping')"),
             ("edges registered to their element; boundary flags on the four outer sides; twin edges wired pairwise; seam glued per slab",
              "mesh_init_post('edges')")])
contracts.append(init_contract)


def install_init(eng):
    eng.spec_funcs["mesh_init_post"] = lambda e, part: s_mesh_init_post(e, part)
    eng.externals["OrderedDict"] = Ext("OrderedDict", {"fromkeys": Ext("fromkeys", lambda e, seq: LeafSet(e.iter_concrete(seq)))})
    eng.externals["collections.OrderedDict"] = eng.externals["OrderedDict"]
