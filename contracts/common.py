"""Ghost vocabulary shared by the contracts (DESIGN section 3) and scenario helpers."""
from fractions import Fraction

import z3

from pyvc.engine import (Engine, Contract, LoopContract, Obj, Ref, Vec, VList, SymSeq, Ext, Closure, is_sym, is_num,
                         to_z3, to_real, num_cmp, b_and, b_or, b_not, b_implies, OutsideSubset)
from pyvc import externals as X

R = z3.RealSort()
I = z3.IntSort()

GX = z3.Function("GX", I, R, R)      # curve piece id, parameter -> x coordinate
GY = z3.Function("GY", I, R, R)


def s_implies(eng, a, b):
    return b_implies(eng.truth(a), eng.truth(b))


def s_and(eng, *xs):
    return b_and(*[eng.truth(x) for x in xs])


def s_or(eng, *xs):
    return b_or(*[eng.truth(x) for x in xs])


def s_not(eng, x):
    return b_not(eng.truth(x))


def s_ite(eng, c, a, b):
    c = eng.truth(c)
    if isinstance(c, bool):
        return a if c else b
    za, zb = to_z3(a), to_z3(b)
    if not (z3.is_int(za) and z3.is_int(zb)) and not z3.is_bool(za):
        za, zb = to_real(za), to_real(zb)
    return z3.If(c, za, zb)


def s_ZERO(eng, v):
    """the value is the literal 0 (python int), not a real that happens to vanish"""
    return isinstance(v, int) and not isinstance(v, bool) and v == 0


def s_sumsq(eng, x):
    if isinstance(x, Vec):
        r = 0
        for it in x.items:
            r = eng.arith("+", r, eng.arith("*", it, it))
        return r
    return eng.arith("*", x, x)


def Phi(z, r):
    zz, rr = to_real(z), to_real(r)
    return z3.If(zz > 0, X.FPI_INV * (zz * X.EXP(-rr / zz) + (rr + zz) * X.EI(-rr / zz)), z3.RealVal(0))


def s_Phi(eng, z, r):
    return Phi(z, r)


def s_K2(eng, a, b, c, d, r):
    """doubly time-integrated heat kernel of the property statement (test time [a,b], trial time [c,d])"""
    a, b, c, d = [to_real(v) for v in (a, b, c, d)]
    return Phi(b - d, r) - Phi(b - c, r) + Phi(a - c, r) - Phi(a - d, r)


def GZ(z, s):
    zz, ss = to_real(z), to_real(s)
    return z3.If(zz > 0, X.FPI_INV * X.EI(-ss / (4 * zz)), z3.RealVal(0))


def s_K1(eng, t, a, b, s):
    """time-integrated kernel int_a^b G(t - tau, x) dtau with s = |x|^2:  g_{t-b}(x) - g_{t-a}(x)"""
    return GZ(to_real(t) - to_real(b), s) - GZ(to_real(t) - to_real(a), s)


def forall_n(n):
    def f(eng, clo):
        vs = [z3.Int("q!%d_%d" % (n, k)) for k in range(n)]
        body = eng.truth(eng.call(clo, vs))
        return z3.ForAll(vs, to_z3(body))
    return f


SPEC_FUNCS = {
    "forall1": forall_n(1), "forall2": forall_n(2),
    "implies": s_implies, "And": s_and, "Or": s_or, "Not": s_not, "ite": s_ite,
    "ZERO": s_ZERO, "sumsq": s_sumsq, "Phi": s_Phi, "K2": s_K2, "K1": s_K1,
}


def new_engine(contracts, prop):
    eng = Engine(contracts=contracts, externals=X.base_externals(), prop=prop)
    eng.spec_funcs.update(SPEC_FUNCS)
    eng.axioms.extend(X.CONST_AXIOMS)
    return eng


# ----------------------------------------------------------------------------------------
# scenario helpers

def piece_call(eng, ref, args):
    """a curve piece applied to a scalar parameter (or a Vec of parameters)"""
    x = args[0]
    from pyvc.arrays import NArr
    if isinstance(x, NArr):
        return Vec([NArr(x.length, lambda i, x=x: GX(ref.term, to_real(x.elem(i))), "gx"),
                    NArr(x.length, lambda i, x=x: GY(ref.term, to_real(x.elem(i))), "gy")])
    if isinstance(x, Vec):
        xs = [piece_call(eng, ref, [xi]) for xi in x.items]
        return Vec([Vec([p.items[0] for p in xs]), Vec([p.items[1] for p in xs])])
    return Vec([GX(ref.term, to_real(x)), GY(ref.term, to_real(x))])


def piece(eng, name):
    return Ref("Piece", z3.Int(name), call=piece_call)


def vec2(eng, base):
    return Vec([z3.Real(base + "_0"), z3.Real(base + "_1")])


def element(eng, name, module="src.mesh", cls="Element"):
    t0, t1, x0, x1 = z3.Real(name + "_t0"), z3.Real(name + "_t1"), z3.Real(name + "_x0"), z3.Real(name + "_x1")
    o = Obj(cls, {"__module__": module, "time_interval": (t0, t1), "space_interval": (x0, x1),
                  "gamma_space": piece(eng, name + "_piece"), "h_t": t1 - t0, "h_x": x1 - x0}, label=name)
    o.wf = [t0 < t1, x0 < x1, t0 >= 0, x0 >= 0]
    return o


def model_elem(mv, name):
    g = lambda k: mv.get("{}_{}".format(name, k))
    return dict(t0=g("t0"), t1=g("t1"), x0=g("x0"), x1=g("x1"), piece=mv.get(name + "_piece"))
