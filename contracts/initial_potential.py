"""C08 — initial-potential load: case selection, parametrisations, Jacobians, kernel (ideal arithmetic; DESIGN 4.C08).

`InitialOperator.linform` is executed on a domain mesh with two leaf cells: the cell having the boundary segment as an edge and
one further cell in each of the other configurations (touching the segment in its first / second end point, disjoint), for
a horizontal and a vertical segment, all coordinates symbolic.  Per cell the returned value must be
    |cell| * |segment| * sum_i w_i u0(gamma_Q(x_i, z_i)) E(|gamma_Q(x_i, z_i) - gamma_K(y_i)|^2)
with gamma_Q an affine bijection of the unit square onto the cell, gamma_K of [0,1] onto the segment, the two meeting in the
shared vertex (touch) resp. gamma_Q(x, 0) == gamma_K(x) (identical edge), and E the time-integrated kernel
(1/4pi)(E1(s/4b) - [a > 0] E1(s/4a)).
"""
import z3

from pyvc.engine import Contract, Obj, Ref, Vec, VList, Ext, OutsideSubset, to_z3, to_real, b_and, b_or, num_cmp
from pyvc import externals as X
from pyvc.arrays import NArr, named_array, DOT
from . import common as C

IP = "src.initial_potential"
IM = "src.initial_mesh"
R = z3.RealSort()
U0 = z3.Function("U0", R, R, R)


def vtx(name, x, y):
    return Obj("Vertex", {"__module__": IM, "x": x, "y": y, "xy": (x, y), "xy_np": Vec([x, y]), "idx": -1}, label=name)


def cell(name, corner_vertices):
    return Obj("Element", {"__module__": IM, "vertices": tuple(corner_vertices), "parent": None, "level": 0}, label=name)


def scheme3d(name):
    n = z3.Int(name + "_n")
    o = Obj("QuadScheme3D", {"__module__": "src.quadrature", "points": Vec([named_array(name + "_px", n), named_array(name + "_py", n),
                                                                           named_array(name + "_pz", n)]),
                             "weights": named_array(name + "_w", n)}, label=name)
    o.n = n
    return o


def sc_linform(eng):
    scen = []
    for orient in ("horizontal", "vertical"):
        for other in ("touch-first-end", "touch-second-end", "disjoint"):
            def build(eng, orient=orient, other=other):
                Xc, Yc, h, D = z3.Reals("X Y h D")
                a, b = z3.Reals("t_a t_b")
                eng.assume(z3.And(h > 0, D > 0, a >= 0, a < b))
                if orient == "horizontal":
                    # segment = bottom edge of the cell [X, X+h] x [Y, Y+h]
                    sw, se, ne, nw = vtx("sw", Xc, Yc), vtx("se", Xc + h, Yc), vtx("ne", Xc + h, Yc + h), vtx("nw", Xc, Yc + h)
                    v0, v1, third = sw, se, nw
                    if other == "touch-first-end":      # cell to the left of v0
                        oc = [vtx("o0", Xc - D, Yc), v0, vtx("o2", Xc, Yc + D), vtx("o3", Xc - D, Yc + D)]
                    elif other == "touch-second-end":   # cell to the right of v1
                        oc = [v1, vtx("o1", Xc + h + D, Yc), vtx("o2", Xc + h + D, Yc + D), vtx("o3", Xc + h, Yc + D)]
                    else:
                        P, Q = z3.Reals("P Q")
                        oc = [vtx("o0", P, Q), vtx("o1", P + D, Q), vtx("o2", P + D, Q + D), vtx("o3", P, Q + D)]
                else:
                    # segment = left edge (from (X, Y) up to (X, Y+h)) of the cell [X, X+h] x [Y, Y+h]
                    sw, se, ne, nw = vtx("sw", Xc, Yc), vtx("se", Xc + h, Yc), vtx("ne", Xc + h, Yc + h), vtx("nw", Xc, Yc + h)
                    v0, v1, third = sw, nw, se
                    if other == "touch-first-end":      # cell below v0
                        oc = [vtx("o0", Xc, Yc - D), vtx("o1", Xc + D, Yc - D), vtx("o2", Xc + D, Yc), v0]
                    elif other == "touch-second-end":   # cell above v1
                        oc = [v1, vtx("o1", Xc + D, Yc + h), vtx("o2", Xc + D, Yc + h + D), vtx("o3", Xc, Yc + h + D)]
                    else:
                        P, Q = z3.Reals("P Q")
                        oc = [vtx("o0", P, Q), vtx("o1", P + D, Q), vtx("o2", P + D, Q + D), vtx("o3", P, Q + D)]
                idc = cell("identical", [sw, se, ne, nw])
                och = cell("other", oc)
                mesh = Obj("InitialMesh", {"__module__": IM, "leaf_elements": VList([idc, och])}, label="domain-mesh")
                pts = {"first": v0, "second": v1}
                curve = Ref("Piece", z3.Int("bdr_piece"), call=lambda e, r, args: ("P", args[0]))
                cpar, dpar = z3.Reals("c d")
                eng.assume(dpar - cpar == h)
                trial = Obj("Element", {"__module__": "src.mesh", "time_interval": (a, b), "space_interval": (cpar, dpar),
                                        "gamma_space": curve}, label="trial")

                def vertex_from_coords(e, xy):
                    tag, par = xy
                    return v0 if par is cpar else v1
                mesh.fields["vertex_from_coords"] = Ext("vertex_from_coords", vertex_from_coords)
                id3, t3 = scheme3d("duff_id"), scheme3d("duff_touch")
                op = Obj("InitialOperator", {"__module__": IP, "initial_mesh": Ext("initial_mesh", lambda e, p, q: mesh),
                                             "u0": Ext("u0", lambda e, P: NArr(P.items[0].length, lambda i: U0(to_real(P.items[0].elem(i)), to_real(P.items[1].elem(i))))),
                                             "duff_3d_id": id3, "duff_3d_touch": t3}, label="M0")
                eng.ghost.update(dict(v0=v0, v1=v1, third=third, idc=idc, och=och, oc=oc, other=other, h=h, D=D, a=a, b=b, id3=id3, t3=t3))
                return {"self": op, "elem_trial": trial}
            scen.append(dict(label="{}/{}".format(orient, other), args=build))
    return scen


def Espec(s, a, b):
    s, a, b = to_real(s), to_real(a), to_real(b)
    return X.FPI_INV * (X.E1(s / (4 * b)) - z3.If(a > 0, X.E1(s / (4 * a)), z3.RealVal(0)))


def affine2(p0, p1, p2):
    """(x, z) -> p0 + (p1 - p0) x + (p2 - p0) z on coordinate terms"""
    def f(x, z):
        return [to_real(p0[k]) + (to_real(p1[k]) - to_real(p0[k])) * x + (to_real(p2[k]) - to_real(p0[k])) * z for k in range(2)]
    return f


def xy(v):
    return (v.fields["x"], v.fields["y"])


def s_linform_spec(eng, result, part):
    g = eng.ghost
    total, ips = result
    ips = eng.iter_concrete(ips)
    if len(ips) != 2:
        return False
    v0, v1, third, oc, other, h, D, a, b = (g[k] for k in ("v0", "v1", "third", "oc", "other", "h", "D", "a", "b"))
    (c_id, val_id), (c_ot, val_ot) = ips
    if c_id is not g["idc"] or c_ot is not g["och"]:
        return False
    if part == "sum":
        return to_real(total) == to_real(val_id) + to_real(val_ot)
    if part == "identical":
        sch = g["id3"]
        px, py, pz = sch.fields["points"].items
        gQ = affine2(xy(v0), xy(v1), xy(third))                      # gamma_Q(x, 0) runs along the segment, z into the cell
        gK = lambda y: [to_real(xy(v0)[k]) + (to_real(xy(v1)[k]) - to_real(xy(v0)[k])) * y for k in range(2)]

        def term(i):
            q, k = gQ(to_real(px.elem(i)), to_real(pz.elem(i))), gK(to_real(py.elem(i)))
            dist = (q[0] - k[0]) * (q[0] - k[0]) + (q[1] - k[1]) * (q[1] - k[1])
            return U0(q[0], q[1]) * Espec(dist, a, b)
        want = h * h * h * DOT(to_z3(sch.n), NArr(sch.n, term).lam(), sch.fields["weights"].lam())
        return to_real(val_id) == want
    if part == "other":
        sch = g["t3"]
        px, py, pz = sch.fields["points"].items
        if other == "touch-first-end":
            shared, far = v0, v1
        elif other == "touch-second-end":
            shared, far = v1, v0
        else:
            shared, far = None, None
        if shared is not None:
            # the two cell corners adjacent to the shared vertex (cyclic corner list), in the order in which the repository's
            # connected_to_vertex meets them (index order)
            k = [j for j in range(4) if oc[j] is shared][0]
            adj = [oc[j] for j in range(4) if j in ((k - 1) % 4, (k + 1) % 4)]
            if len(adj) != 2:
                return False
            gQ = affine2(xy(shared), xy(adj[0]), xy(adj[1]))
            gK = lambda y: [to_real(xy(shared)[k]) + (to_real(xy(far)[k]) - to_real(xy(shared)[k])) * y for k in range(2)]
        else:
            gQ = affine2(xy(oc[0]), xy(oc[1]), xy(oc[3]))
            gK = lambda y: [to_real(xy(v0)[k]) + (to_real(xy(v1)[k]) - to_real(xy(v0)[k])) * y for k in range(2)]

        def term(i):
            q, k = gQ(to_real(px.elem(i)), to_real(pz.elem(i))), gK(to_real(py.elem(i)))
            dist = (q[0] - k[0]) * (q[0] - k[0]) + (q[1] - k[1]) * (q[1] - k[1])
            return U0(q[0], q[1]) * (Espec(dist, a, b) / X.FPI_INV)
        want = D * D * h * X.FPI_INV * DOT(to_z3(sch.n), NArr(sch.n, term).lam(), sch.fields["weights"].lam())
        return to_real(val_ot) == want
    raise OutsideSubset(part)


def _adjacent(eng, v, w):
    """corners of an axis-parallel square joined by an edge: exactly one coordinate equal (decided on the symbolic terms)"""
    s = z3.Solver()
    for c in eng.pc:
        s.add(c)
    ex = to_real(v.fields["x"]) == to_real(w.fields["x"])
    ey = to_real(v.fields["y"]) == to_real(w.fields["y"])
    s.add(z3.Not(z3.Xor(ex, ey)))
    return s.check() == z3.unsat


contracts = []
contracts.append(Contract(
    IP + ":InitialOperator.linform", props=["C08"], setup=sc_linform,
    ensures=[("result is the sum over the cells", "linform_spec(result, 'sum')"),
             ("cell with the segment as an edge: h^3 * sum w u0(gamma_Q) E(|gamma_Q - gamma_K|^2), gamma_Q(x, 0) == gamma_K(x)",
              "linform_spec(result, 'identical')"),
             ("cell touching an end point / disjoint cell: |cell| * |segment| * FPI_INV * sum w u0(gamma_Q) (E1 terms), shared vertex at (0,0) / 0",
              "linform_spec(result, 'other')")]))


def install(eng):
    eng.spec_funcs["linform_spec"] = s_linform_spec
    np = eng.externals["np"].fn

    def norm(e, v, **k):
        s = 0
        for it in v.items:
            s = e.arith("+", s, e.arith("*", it, it))
        return X.x_sqrt.fn(e, s)
    np["linalg"] = Ext("linalg", {"norm": Ext("norm", norm)})
    np["all"] = Ext("np.all", lambda e, v: e.truth(v))
    eng.used_assumptions.add("A-RULE(3-D): the two 3-D Duffy rules integrate the (x-y, z)-singular integrands on the unit cube (numerical analysis; "
                             "digits = bounded relation linform vs closed forms); domain cells are exact axis-parallel squares")
    eng.used_assumptions.add("C16 (bounded there): after refine_msh_bdr exactly one leaf has the segment as an edge and both end points are "
                             "retrievable; scenario: that cell plus one further cell per configuration, horizontal and vertical segment")


REPLAY_C08 = '''
from vlib.core import Check
from bounded import potential_rel
chk = Check("C08", "quick", 0, "other", "replay")
potential_rel.run(chk, "C08", "quick", 0)
observed = [o.name for o in chk.obs if o.status == "failed"][:6]
violated = len(observed) > 0
'''
for _c in contracts:
    if _c.setup is not None:
        _c.replay_on_unknown = lambda mv, sc, ob: REPLAY_C08
