"""C20 — h-h/2 and hierarchical estimators equal their definitions; Prolongate (DESIGN 4.C20)."""
import z3

from pyvc.engine import (Contract, LoopContract, Obj, Ref, Vec, VList, SymSeq, Ext, OutsideSubset, to_z3, to_real, b_and, b_or,
                         num_cmp, is_num)
from pyvc import externals as X
from . import common as C

HE = "src.hierarchical_error_estimator"
HH = "src.h_h2_error_estimator"
MESH = "src.mesh"
R = z3.RealSort()
I = z3.IntSort()


class MatC:
    """small dense matrix with concrete shape: list of rows (each a list of values)"""
    def __init__(self, rows):
        self.rows = [list(r) for r in rows]


_OPAQUE_MATS = {}


def _opaque_as_matrix(eng, a, n):
    """an unknown value read from lazily initialised state (OpaqueDict entry `<label>_val!k`), used as an n x n matrix: an
    arbitrary matrix (one per unknown value), e.g. a memoised block that an earlier call may have stored"""
    if z3.is_expr(a) and z3.is_const(a) and "_val!" in a.decl().name():
        key = (id(eng), a.decl().name(), n)
        if key not in _OPAQUE_MATS:
            _OPAQUE_MATS[key] = MatC([[eng.fresh("opaque_m", "Real") for _ in range(n)] for _ in range(n)])
        return _OPAQUE_MATS[key]
    return None


def _matmul(eng, op, a, b):
    if op == "@" and isinstance(b, Vec) and not isinstance(a, (MatC, Vec)):
        m = _opaque_as_matrix(eng, a, len(b.items))
        if m is not None:
            a = m
    if op != "@":
        if isinstance(a, MatC) or isinstance(b, MatC):
            raise OutsideSubset("only @ on small matrices")
        return NotImplemented
    def dot(u, v):
        if len(u) != len(v):
            eng.oblige("matmul-shapes-agree[{} vs {}]".format(len(u), len(v)), False)
        r = 0
        for x, y in zip(u, v):
            r = eng.arith("+", r, eng.arith("*", x, y))
        return r
    if isinstance(a, MatC) and isinstance(b, Vec):
        return Vec([dot(row, b.items) for row in a.rows])
    if isinstance(a, Vec) and isinstance(b, MatC):
        cols = list(zip(*b.rows))
        return Vec([dot(a.items, col) for col in cols])
    if isinstance(a, Vec) and isinstance(b, Vec):
        return dot(a.items, b.items)
    if isinstance(a, MatC) and isinstance(b, MatC):
        cols = list(zip(*b.rows))
        return MatC([[dot(row, col) for col in cols] for row in a.rows])
    return NotImplemented


def _index_hook(eng, base, idx):
    if isinstance(base, MatC):
        if isinstance(idx, tuple) and len(idx) == 2 and all(isinstance(k, int) for k in idx):
            return base.rows[idx[0]][idx[1]]
        raise OutsideSubset("matrix index")
    return NotImplemented


def _setitem_hook(eng, base, idx, v):
    if isinstance(base, MatC):
        if isinstance(idx, tuple) and len(idx) == 2 and all(isinstance(k, int) for k in idx):
            base.rows[idx[0]][idx[1]] = v
            return True
        raise OutsideSubset("matrix store with symbolic index")
    return NotImplemented


def vertex(name):
    return Obj("Vertex", {"__module__": MESH, "t": z3.Real(name + "_t"), "x": z3.Real(name + "_x"), "idx": -1}, label=name)


def coarse_elem(eng, name):
    """a space-time rectangle with the vertex order of the mesh: (t0,x0), (t0,x1), (t1,x1), (t1,x0)"""
    t0, t1, x0, x1 = z3.Reals("{0}_t0 {0}_t1 {0}_x0 {0}_x1".format(name))
    vs = []
    for k, (t, x) in enumerate(((t0, x0), (t0, x1), (t1, x1), (t1, x0))):
        vs.append(Obj("Vertex", {"__module__": MESH, "t": t, "x": x, "idx": -1}, label="{}_v{}".format(name, k)))
    e = Obj("Element", {"__module__": MESH, "vertices": VList(vs), "gamma_space": C.piece(eng, name + "_piece"),
                        "time_interval": (t0, t1), "space_interval": (x0, x1)}, label=name)
    eng.assume(z3.And(t0 < t1, x0 < x1))
    e.box = (t0, t1, x0, x1)
    return e


def s_is_quarter(eng, child, parent, k):
    """child k of the virtual quartering is (time half k // 2, space half k % 2) of the parent and carries its piece"""
    t0, t1 = parent.fields["time_interval"]
    x0, x1 = parent.fields["space_interval"]
    tm, xm = (to_real(t0) + to_real(t1)) / 2, (to_real(x0) + to_real(x1)) / 2
    ct0, ct1 = child.fields["time_interval"]
    cx0, cx1 = child.fields["space_interval"]
    want_t = (t0, tm) if k // 2 == 0 else (tm, t1)
    want_x = (x0, xm) if k % 2 == 0 else (xm, x1)
    return b_and(num_cmp("==", ct0, want_t[0]), num_cmp("==", ct1, want_t[1]), num_cmp("==", cx0, want_x[0]),
                 num_cmp("==", cx1, want_x[1]), eng.identical(child.fields["gamma_space"], parent.fields["gamma_space"]),
                 num_cmp("==", child.fields["h_t"], to_real(want_t[1]) - to_real(want_t[0])),
                 num_cmp("==", child.fields["h_x"], to_real(want_x[1]) - to_real(want_x[0])))


def sc_uniform_refinement(eng):
    def build(eng):
        return {"elems": VList([coarse_elem(eng, "E0"), coarse_elem(eng, "E1")])}
    return [dict(label="", args=build)]


contracts = []
contracts.append(Contract(
    HE + ":DummyElement.uniform_refinement", props=["C20", "C11"], setup=sc_uniform_refinement,
    ensures=[("one-child-list-per-element-in-order", "And(len(result) == 2, len(result[0]) == 4, len(result[1]) == 4)")] +
            [("child-{}-of-element-{}-is-quarter(time half {}, space half {})".format(k, i, k // 2, k % 2),
              "is_quarter(result[{i}][{k}], elems[{i}], {k})".format(i=i, k=k)) for i in range(2) for k in range(4)]))


# ------------------------------------------------------------------------------------------
# hierarchical estimator: definitional structure for N coarse elements (N = 2, loop unrolled; all values symbolic)

BILS = z3.Function("BILS", I, I, R)      # bilform(trial id, test id) on (dummy) elements identified by ghost ids
GL = z3.Function("GLIN", I, R)           # g-linform value per fine element
M0L = z3.Function("M0LIN", I, R)         # M0 linform value per fine element


def eid(e):
    return e.fields["ghost_id"]


def bilform_matrix_result(eng, base):
    env = eng.ghost_call_env
    test = eng.iter_concrete(env.lookup("elems_test"))
    trial = eng.iter_concrete(env.lookup("elems_trial") if env.lookup("elems_trial") is not None else env.lookup("elems_test"))
    return MatC([[BILS(eid(tr), eid(te)) for tr in trial] for te in test])


def quarter_result(eng, base):
    """contract of uniform_refinement at call sites: fresh children that are the quarters, with ghost ids 4*id(parent)+k"""
    env = eng.ghost_call_env
    out = []
    for par in eng.iter_concrete(env.lookup("elems")):
        kids = []
        for k in range(4):
            f = {"__module__": HE, "ghost_id": 4 * eid(par) + k, "parent_ghost": par, "k": k}
            # geometry of the quarter (time half k // 2, space half k % 2; proved for uniform_refinement itself): lets a changed
            # estimator that keys something on sizes / intervals / pieces be executed instead of stopping outside the subset
            if "h_t" in par.fields:
                ht, hx = to_real(par.fields["h_t"]) / 2, to_real(par.fields["h_x"]) / 2
                t0, x0 = to_real(par.fields["time_interval"][0]), to_real(par.fields["space_interval"][0])
                ta, xa = t0 + (k // 2) * ht, x0 + (k % 2) * hx
                f.update(h_t=ht, h_x=hx, time_interval=(ta, ta + ht), space_interval=(xa, xa + hx), gamma_space=par.fields["gamma_space"])
            kids.append(Obj("DummyElement", f, label="{}.c{}".format(par.label, k)))
        out.append(VList(kids))
    return VList(out)


def sc_hier(eng):
    def build(eng):
        elems = []
        for i in range(2):
            ht, hx, t0, x0 = z3.Real("ht_%d" % i), z3.Real("hx_%d" % i), z3.Real("t0_%d" % i), z3.Real("x0_%d" % i)
            eng.assume(z3.And(ht > 0, hx > 0))
            e = Obj("Element", {"__module__": MESH, "ghost_id": z3.IntVal(i),
                                "levels": (z3.Int("lt_%d" % i), z3.Int("lx_%d" % i)), "level_time": z3.Int("lt_%d" % i),
                                "level_space": z3.Int("lx_%d" % i), "h_t": ht, "h_x": hx, "time_interval": (t0, t0 + ht),
                                "space_interval": (x0, x0 + hx), "gamma_space": Ref("Piece", z3.Int("piece_%d" % i))},
                    label="E%d" % i)
            elems.append(e)
        phi = Vec([z3.Real("Phi_0"), z3.Real("Phi_1")])
        which = eng.choose(4, "data")       # g and M0 present or absent
        g = Ext("g", lambda e, fine: Vec([GL(eid(f)) for f in e.iter_concrete(fine)])) if which in (0, 1) else None
        M0 = Obj("InitialOperator", {"__module__": "src.initial_potential"}, label="M0") if which in (0, 2) else None
        SLo = Obj("SingleLayerOperator", {"__module__": "src.single_layer"}, label="SL")
        slf = Obj("HierarchicalErrorEstimator", {"__module__": HE, "SL": SLo, "M0": M0, "g": g}, label="H")
        eng.ghost["which"] = which
        # C13 (assumed): the 4x4 child block has positive two-level energies
        for i in range(2):
            for pat in ([1, 1, -1, -1], [1, -1, 1, -1], [1, -1, -1, 1]):
                q = 0
                for a in range(4):
                    for b in range(4):
                        q = q + pat[a] * pat[b] * BILS(z3.IntVal(4 * i + b), z3.IntVal(4 * i + a))
                eng.assume(q > 0)
        return {"self": slf, "elems": VList(elems), "Phi": phi}
    return [dict(label="", args=build)]


def s_hier_spec(eng, result, i, part="value"):
    """(e_time + e_ts / 2, e_space + e_ts / 2) with e_psi = |<data - V Phi, psi>|^2 / <V psi, psi>, data = g - M0 u0,
    psi = +1/-1 on the four quarters: time split (+ on the early-time half), space split (+ on the low-space half),
    checkerboard (+ on the diagonal quarters)"""
    which = eng.ghost["which"]
    phi = [z3.Real("Phi_0"), z3.Real("Phi_1")]

    def data(j):
        d = z3.RealVal(0)
        if which in (0, 1):
            d = d + GL(z3.IntVal(j))
        if which in (0, 2):
            d = d - M0L(z3.IntVal(j))
        return d

    def vphi(j):
        return sum([BILS(z3.IntVal(c), z3.IntVal(j)) * phi[c] for c in range(2)], z3.RealVal(0))
    sign_time = lambda k: 1 if k // 2 == 0 else -1
    sign_space = lambda k: 1 if k % 2 == 0 else -1
    sign_cb = lambda k: 1 if (k // 2 == k % 2) else -1
    es = []
    for sg in (sign_time, sign_space, sign_cb):
        num = sum([(data(4 * i + k) - vphi(4 * i + k)) * sg(k) for k in range(4)], z3.RealVal(0))
        den = sum([sg(a) * sg(b) * BILS(z3.IntVal(4 * i + b), z3.IntVal(4 * i + a)) for a in range(4) for b in range(4)], z3.RealVal(0))
        absn = z3.If(num >= 0, num, -num)
        es.append(absn * absn / den)
    row = eng.index(result, i)
    r0, r1 = eng.iter_concrete(row)
    if part == "value":
        return z3.And(to_real(r0) == es[0] + es[2] / 2, to_real(r1) == es[1] + es[2] / 2)
    return z3.And(to_real(r0) >= 0, to_real(r1) >= 0)


def linform_vector_result(eng, base):
    env = eng.ghost_call_env
    return Vec([M0L(eid(f)) for f in eng.iter_concrete(env.lookup("elems"))])


def install(eng):
    cls = type(eng)
    if _matmul not in cls.arith_hooks:
        cls.arith_hooks = [_matmul] + list(cls.arith_hooks)
        cls.index_hooks = list(cls.index_hooks) + [_index_hook]
        cls.setitem_hooks = [_setitem_hook] + list(cls.setitem_hooks)
    eng.spec_funcs["is_quarter"] = s_is_quarter
    eng.spec_funcs["hier_spec"] = s_hier_spec
    eng.spec_funcs["hh2_spec"] = s_hh2_spec
    np = eng.externals["np"].fn

    def zeros(e, n):
        if isinstance(n, int):
            return Vec([0] * n)
        raise OutsideSubset("np.zeros of symbolic length in the estimator contracts")
    np["zeros"] = Ext("np.zeros", zeros)

    def array(e, v, *a, **k):
        items = e.iter_concrete(v)
        return Vec(items)
    np["array"] = Ext("np.array", array)
    np["repeat"] = Ext("np.repeat", lambda e, v, m: Vec([x for x in v.items for _ in range(m)]))
    np["tile"] = Ext("np.tile", lambda e, v, m: Vec(list(v.items) * m))
    eng.used_assumptions.add("C13 (assumed, not_applicable): the two-level energies <V psi, psi> of the 4x4 child blocks are positive; "
                             "the fine Galerkin matrix is non-singular")
    eng.used_assumptions.add("estimator contracts: N = 2 coarse elements (loops unrolled), all values symbolic; bilform / linform / g-linform "
                             "are uninterpreted functions of ghost element ids (child k of element i has id 4 i + k)")


hier_contracts = [
    Contract(HE + ":DummyElement.uniform_refinement", prop="C20", result=quarter_result),
    Contract("src.single_layer:SingleLayerOperator.bilform_matrix", prop="C17", result=bilform_matrix_result),
    Contract("src.initial_potential:InitialOperator.linform_vector", prop="C17", result=linform_vector_result),
    Contract(HE + ":HierarchicalErrorEstimator.estimate", props=["C20"], setup=sc_hier,
             ensures=[("element-{}: (e_time + e_ts/2, e_space + e_ts/2), e_psi = |<g - M0u0 - V Phi, psi>|^2 / <V psi, psi>".format(i),
                       "hier_spec(result, {})".format(i)) for i in range(2)] +
                     [("element-{}: indicators non-negative".format(i), "hier_spec(result, {}, 'nonneg')".format(i)) for i in range(2)]),
]


# ------------------------------------------------------------------------------------------
# h-h/2

SOLVE = z3.Function("SOLVE", I, R)


def sc_hh2(eng):
    def build(eng):
        elems = [Obj("Element", {"__module__": MESH, "ghost_id": z3.IntVal(i)}, label="E%d" % i) for i in range(2)]
        phi = Vec([z3.Real("Phi_0"), z3.Real("Phi_1")])
        which = eng.choose(4, "data")
        g = Ext("g", lambda e, fine: Vec([GL(eid(f)) for f in e.iter_concrete(fine)])) if which in (0, 1) else None
        M0 = Obj("InitialOperator", {"__module__": "src.initial_potential"}, label="M0") if which in (0, 2) else None
        SLo = Obj("SingleLayerOperator", {"__module__": "src.single_layer"}, label="SL")
        slf = Obj("HH2ErrorEstimator", {"__module__": HH, "SL": SLo, "M0": M0, "g": g, "use_mp": z3.Bool("use_mp")}, label="HH2")
        eng.ghost["which"] = which
        return {"self": slf, "elems": VList(elems), "Phi": phi}
    return [dict(label="", args=build)]


def solve_ext(eng, A, b):
    """X-SOLVE: np.linalg.solve(A, b) returns x with A x == b"""
    eng.used_assumptions.add("X-SOLVE: np.linalg.solve(A, b) returns x with A x = b (A non-singular: C13, assumed)")
    n = len(b.items)
    if len(A.rows) != n or any(len(r) != n for r in A.rows):
        eng.oblige("np.linalg.solve/square-system-matching-rhs[{}x{} vs {}]".format(len(A.rows), len(A.rows[0]), n), False)
    x = [eng.fresh("xsol", "Real") for _ in range(n)]
    for i in range(n):
        row = z3.RealVal(0)
        for j in range(n):
            row = row + to_real(A.rows[i][j]) * x[j]
        eng.assume(row == to_real(b.items[i]))
    eng.ghost["solve_args"] = (A, b, x)
    return Vec(x)


def s_hh2_spec(eng, result):
    """sqrt(d^T A d) with d = Phi_fine - (piecewise-constant extension of Phi), A the 4N x 4N matrix of the quarters,
    Phi_fine the solution of A y = g - M0u0 on the quarters"""
    which = eng.ghost["which"]
    A, b, x = eng.ghost["solve_args"]
    ok = []
    nf = 8
    for te in range(nf):
        for tr in range(nf):
            ok.append(to_real(A.rows[te][tr]) == BILS(z3.IntVal(tr), z3.IntVal(te)))
        d = z3.RealVal(0)
        if which in (0, 1):
            d = d + GL(z3.IntVal(te))
        if which in (0, 2):
            d = d - M0L(z3.IntVal(te))
        ok.append(to_real(b.items[te]) == d)
    phis = [z3.Real("Phi_0"), z3.Real("Phi_1")]
    dvec = [x[k] - phis[k // 4] for k in range(nf)]      # piecewise-constant extension: quarter 4 i + k carries Phi[i]
    # d^T A d in the association order of the code ((d^T A) d); A[i][j] = bilform(trial j, test i)
    q = z3.RealVal(0)
    for j in range(nf):
        vj = z3.RealVal(0)
        for i in range(nf):
            vj = vj + dvec[i] * BILS(z3.IntVal(j), z3.IntVal(i))
        q = q + vj * dvec[j]
    ok.append(to_real(result) == X.SQRT(q))
    return z3.And(*ok)


hh2_contracts = [
    Contract(HE + ":DummyElement.uniform_refinement", prop="C20", result=quarter_result),
    Contract("src.single_layer:SingleLayerOperator.bilform_matrix", prop="C17", result=bilform_matrix_result),
    Contract("src.initial_potential:InitialOperator.linform_vector", prop="C17", result=linform_vector_result),
    Contract(HH + ":HH2ErrorEstimator.estimate", props=["C20"], setup=sc_hh2,
             ensures=[("energy-norm-of(fine Galerkin solution - piecewise-constant extension)", "hh2_spec(result)")]),
]


# ------------------------------------------------------------------------------------------
# Prolongate

ANC = z3.Function("ANC", I, I, I)        # ANC(e, k): k-th ancestor of element e (ANC(e, 0) == e)
INCOARSE = z3.Function("INCOARSE", I, z3.BoolSort())
CIDX = z3.Function("CIDX", I, I)
