"""C17 / C04 (Volterra): assembly paths of the single-layer matrix and the initial-potential vector."""
import z3

from pyvc.engine import Contract, LoopContract, Obj, Ref, Vec, SymSeq, Ext, to_real, to_z3, b_and
from pyvc import extio
from pyvc.arrays import NArr
from . import common as C

SL = "src.single_layer"
IP = "src.initial_potential"
I, R = z3.IntSort(), z3.RealSort()

BIL = z3.Function("BIL", I, I, R)            # BIL(trial id, test id): the value of bilform (pure, A-DET)
T0 = z3.Function("T0", I, R)
T1 = z3.Function("T1", I, R)
X0 = z3.Function("X0", I, R)
X1 = z3.Function("X1", I, R)
PIECE = z3.Function("PIECE", I, I)
LIN = z3.Function("LIN", I, R)               # LIN(elem id): linform(elem)[0]


def elem_ref(term):
    return Ref("Elem", term, attrs={
        "time_interval": (T0(term), T1(term)), "space_interval": (X0(term), X1(term)),
        "gamma_space": Ref("Piece", PIECE(term), call=C.piece_call)})


def elem_seq(name, n):
    f = z3.Function(name, I, I)
    s = SymSeq(n, lambda i: elem_ref(f(to_z3(i))), name)
    s.ident = z3.Int(name + "_listid")
    return s


def s_BIL(eng, trial, test):
    return BIL(trial.term, test.term)


def s_LIN(eng, e):
    return LIN(e.term)


def forall_n(n):
    def f(eng, clo):
        vs = [z3.Int("q!%d_%d" % (n, k)) for k in range(n)]
        body = eng.truth(eng.call(clo, vs))
        return z3.ForAll(vs, to_z3(body))
    return f


def s_global_is(eng, name, obj):
    return eng.module_globals.get((SL, name)) is obj


def install_spec(eng):
    eng.spec_funcs["global_is"] = s_global_is
    eng.spec_funcs["lists_post"] = s_lists_post
    eng.spec_funcs["BIL"] = s_BIL
    eng.spec_funcs["LIN"] = s_LIN
    eng.spec_funcs["forall1"] = forall_n(1)
    eng.spec_funcs["forall2"] = forall_n(2)
    # consequence of bilform's C04 contract (acausal => literal 0), proved in the C04 check
    a, b = z3.Ints("tr te")
    eng.axioms.append(z3.ForAll([a, b], z3.Implies(T1(b) <= T0(a), BIL(a, b) == 0)))
    eng.used_assumptions.add("BIL-ZERO: test.t1 <= trial.t0 ==> bilform == 0 (bilform's own contract, discharged in C04)")
    eng.used_assumptions.add("A-DET: bilform / linform are deterministic functions of their element arguments and the "
                             "operator's immutable fields (named BIL / LIN)")


MATPOST = ("forall2(lambda p, q: implies(And(0 <= p, p < len(elems_test), 0 <= q, q < len(elems_trial)), "
           "result[p, q] == BIL(elems_trial[q], elems_test[p])))")


def canonical_key(eng, slo, N, M, et, er):
    """the cache key of the property: curve name, N, M and a digest of curve + both element lists"""
    g = slo.fields["mesh"].fields["gamma_space"]
    md5 = extio._md5(eng, extio._concat(eng, extio._concat(eng, extio._str(eng, g), extio._str(eng, et)),
                                        extio._str(eng, er))).fields["hexdigest"].fn(eng)
    return extio._format(eng, "{}/SL_{}_{}x{}_{}.npy", [slo.fields["cache_dir"], g, N, M, md5])


def sc_bilform_matrix(eng):
    def build(eng, default_trial=False):
        N, M = z3.Int("N"), z3.Int("M")
        et, er = elem_seq("ETEST", N), elem_seq("ETRIAL", M)
        leaves = et
        if default_trial:
            # only the test list is passed (any list, not the mesh's leaf list): the trial list defaults to the SAME list
            er, M = et, N
            leaves = elem_seq("LEAVES", z3.Int("n_leaves"))
        eng.ghost["want_lists"] = (et, er)
        mesh = Obj("MeshParametrized", {"__module__": "src.mesh", "gamma_space": Ref("Curve", z3.Int("curve")),
                                        "leaf_elements": leaves})
        cache = eng.choose(2, "cache_dir")
        slo = Obj("SingleLayerOperator", {"__module__": SL, "mesh": mesh,
                                          "cache_dir": None if cache == 0 else extio.StrT(z3.Const("cache_dir", extio.Str))},
                  label="SL")
        eng.assume(N >= 1)
        eng.assume(M >= 1)
        eng.ghost["load_N"], eng.ghost["load_M"] = N, M
        eng.externals["SELF_OP"] = slo
        # another operator may have been constructed (and may have touched the module globals) before this call
        other = Obj("SingleLayerOperator", {"__module__": SL}, label="other-operator")
        for gname in ("__SL", "__elems_test", "__elems_trial"):
            eng.module_globals[(SL, gname)] = other if gname == "__SL" else elem_seq("STALE_" + gname, z3.Int("n_stale"))
        if cache == 1:
            key = canonical_key(eng, slo, N, M, et, er)
            p, q = z3.Ints("p q")
            # A-CACHE-IND (inductive hypothesis over call histories): whatever is loadable under this call's canonical
            # key was stored by an earlier call with the same key, hence satisfies this call's postcondition
            eng.assume(z3.ForAll([p, q], extio.LOADED(key.term, p, q) == BIL(er.elem(q).term, et.elem(p).term)))
            eng.used_assumptions.add("A-CACHE-IND: a file loadable under the canonical key (curve, N, M, md5(curve+lists)) was "
                                     "stored by a call with the same key; X-REPR-INJ / no md5 collisions: equal keys mean equal lists")

            def on_save(e, fn, arr):
                e.oblige("np.save/stores-under-canonical-key", extio.str_term(e, fn) == key.term)
                pp, qq = z3.Ints("sp sq")
                e.oblige("np.save/stores-postcondition-matrix",
                         z3.ForAll([pp, qq], z3.Implies(z3.And(0 <= pp, pp < N, 0 <= qq, qq < M),
                                                        to_real(arr.elem(pp, qq)) == BIL(er.elem(qq).term, et.elem(pp).term))))
            eng.ghost["on_save"] = on_save
        return {"self": slo, "elems_test": et, "elems_trial": None if default_trial else er, "use_mp": z3.Bool("use_mp")}
    return [dict(label="", args=build), dict(label="trial-list-omitted", args=lambda e: build(e, True))]


def s_lists_post(eng, result):
    """the matrix in terms of the ARGUMENTS of the call (not of the local variables after the defaults were filled in)"""
    et, er = eng.ghost["want_lists"]
    p, q = z3.Ints("p!wl q!wl")
    return z3.ForAll([p, q], z3.Implies(z3.And(0 <= p, p < to_z3(et.length), 0 <= q, q < to_z3(er.length)),
                                        to_real(result.elem(p, q)) == BIL(er.elem(q).term, et.elem(p).term)))


def bil_result(eng, env):
    return BIL(env.lookup("elem_trial").term, env.lookup("elem_test").term)


def col_result(eng, base):
    return extio.fresh_arr(eng, "col")


INV_ROWS = ("rows-done", "forall2(lambda p, q: implies(And(0 <= p, p < {i}, 0 <= q, q < len(elems_trial)), "
                         "mat[p, q] == BIL(elems_trial[q], elems_test[p])))")
INV_ROW = ("row-prefix", "forall1(lambda q: implies(And(0 <= q, q < kj), mat[i, q] == BIL(elems_trial[q], elems_test[i])))")
INV_COLS = ("cols-done", "forall2(lambda p, q: implies(And(0 <= p, p < len(elems_test), 0 <= q, q < kc), "
                         "mat[p, q] == BIL(elems_trial[q], elems_test[p])))")


def mat_type(eng, base):
    return extio.fresh_mat(eng, "mat", eng.ghost["load_N"], eng.ghost["load_M"])


def outer_loop():
    return LoopContract(index="ki", invariant=[(INV_ROWS[0], INV_ROWS[1].format(i="ki"))],
                        modifies={"mat": mat_type, "i": "Int", "elem_test": lambda e, b: elem_ref(e.fresh("et", "Int")),
                                  "j": "Int", "elem_trial": lambda e, b: elem_ref(e.fresh("er", "Int"))})


def inner_loop():
    return LoopContract(index="kj", invariant=[(INV_ROWS[0], INV_ROWS[1].format(i="i")), INV_ROW,
                                               ("row-in-range", "And(0 <= i, i < len(elems_test))")],
                        modifies={"mat": mat_type, "j": "Int", "elem_trial": lambda e, b: elem_ref(e.fresh("er", "Int"))})


contracts = []

contracts.append(Contract(SL + ":SingleLayerOperator.bilform", prop="C04", result_term=bil_result))

contracts.append(Contract(
    SL + ":SingleLayerOperator.bilform_matrix", props=["C17", "C04"], setup=sc_bilform_matrix,
    ensures=[("entries-are-pairwise-bilform[rows=test,cols=trial]", MATPOST),
             ("in terms of the call's arguments: an omitted trial list means the test list", "lists_post(result)"),
             ("volterra", "forall2(lambda p, q: implies(And(0 <= p, p < len(elems_test), 0 <= q, q < len(elems_trial), "
                          "elems_test[p].time_interval[1] <= elems_trial[q].time_interval[0]), result[p, q] == 0))")],
    loops={0: outer_loop(), 1: inner_loop(), 2: outer_loop(), 3: inner_loop(),
           4: LoopContract(index="kc", invariant=[INV_COLS],
                           modifies={"mat": mat_type, "j": "Int", "col": col_result})}))


def sc_mp_col(eng):
    def build(eng):
        N, M = z3.Int("N"), z3.Int("M")
        et, er = elem_seq("ETEST", N), elem_seq("ETRIAL", M)
        slo = Obj("SingleLayerOperator", {"__module__": SL}, label="SL")
        eng.module_globals[(SL, "__SL")] = slo
        eng.externals["SELF_OP"] = slo
        eng.module_globals[(SL, "__elems_test")] = et
        eng.module_globals[(SL, "__elems_trial")] = er
        j = z3.Int("j")
        eng.assume(z3.And(N >= 1, M >= 1, 0 <= j, j < M))
        return {"j": j}
    return [dict(label="", args=build)]


contracts.append(Contract(
    SL + ":MP_SL_matrix_col", props=["C17", "C04"], setup=sc_mp_col,
    requires=[("index-in-range", "And(0 <= j, j < len(__elems_trial))"),
              ("the worker's operator global is the operator whose matrix is being assembled", "global_is('__SL', SELF_OP)")],
    result=col_result,
    result_term=lambda eng, env: NArr(eng.module_globals[(SL, "__elems_test")].length,
                                      lambda p, eng=eng, env=env: BIL(eng.module_globals[(SL, "__elems_trial")].elem(env.lookup("j")).term,
                                                                      eng.module_globals[(SL, "__elems_test")].elem(p).term), "col"),
    ensures=[("column-is-pairwise-bilform",
              "forall1(lambda p: implies(And(0 <= p, p < len(__elems_test)), result[p] == BIL(__elems_trial[j], __elems_test[p])))"),
             ("column-length", "len(result) == len(__elems_test)")],
    loops={0: LoopContract(index="ki", invariant=[
        ("prefix", "forall1(lambda p: implies(And(0 <= p, p < ki), col[p] == BIL(elem_trial, __elems_test[p])))"),
        ("rest-zero", "forall1(lambda p: implies(p >= ki, col[p] == 0))"),
        ("length", "len(col) == len(__elems_test)")],
        modifies={"col": lambda e, b: extio.fresh_arr(e, "col", e.module_globals[(SL, "__elems_test")].length),
                  "i": "Int", "elem_test": lambda e, b: elem_ref(e.fresh("et", "Int"))})}))


# ------------------------------------------------------------------------------------------
# replay of C17 obligations: abstract counter-models (uninterpreted element lists / file stores) have no direct
# concretisation; the run-time contract harness drives the real function along the same paths instead

def replay_runtime(which):
    def rp(mv, sc, ob):
        return ("from bounded import cache_faults\nres = []\n"
                "cache_faults.run_{w}('quick', 0, lambda c, ok, d: res.append((c, ok, d)))\n"
                "observed = [r for r in res if not r[1]][:5]\nviolated = len(observed) > 0\n").format(w=which)
    return rp


for c in contracts:
    if c.target.endswith("bilform_matrix") or c.target.endswith("MP_SL_matrix_col"):
        c.replay = replay_runtime("matrix")


# ------------------------------------------------------------------------------------------
# initial-potential load vector

def lin_result(eng, base):
    return None


def canonical_key_vec(eng, op, N, elems):
    g = op.fields["bdr_mesh"].fields["gamma_space"]
    md5 = extio._md5(eng, extio._concat(eng, extio._str(eng, g), extio._str(eng, elems))).fields["hexdigest"].fn(eng)
    return extio._format(eng, "{}/M0_{}_{}_{}.npy", [op.fields["cache_dir"], op.fields["problem"], N, md5])


def sc_linform_vector(eng):
    def build(eng):
        N = z3.Int("N")
        es = elem_seq("ELEMS", N)
        mesh = Obj("MeshParametrized", {"__module__": "src.mesh", "gamma_space": Ref("Curve", z3.Int("curve")),
                                        "leaf_elements": es})
        cache = eng.choose(2, "cache_dir")
        op = Obj("InitialOperator", {"__module__": IP, "bdr_mesh": mesh,
                                     "problem": extio.StrT(z3.Const("problem", extio.Str)),
                                     "cache_dir": None if cache == 0 else extio.StrT(z3.Const("cache_dir", extio.Str))},
                 label="M0")
        eng.assume(N >= 1)
        eng.ghost["load_kind"], eng.ghost["load_len"] = "vec", N
        if cache == 1:
            key = canonical_key_vec(eng, op, N, es)
            p = z3.Int("p")
            eng.assume(z3.ForAll([p], extio.LOADED1(key.term, p) == LIN(es.elem(p).term)))
            eng.used_assumptions.add("A-CACHE-IND: a file loadable under the canonical key (problem, N, md5(curve+list)) was "
                                     "stored by a call with the same key; X-REPR-INJ / no md5 collisions")

            def on_save(e, fn, arr):
                e.oblige("np.save/stores-under-canonical-key", extio.str_term(e, fn) == key.term)
                pp = z3.Int("sp")
                e.oblige("np.save/stores-postcondition-vector",
                         z3.ForAll([pp], z3.Implies(z3.And(0 <= pp, pp < N), to_real(arr.elem(pp)) == LIN(es.elem(pp).term))))
            eng.ghost["on_save"] = on_save
        return {"self": op, "elems": es, "use_mp": z3.Bool("use_mp")}
    return [dict(label="", args=build)]


VECPOST = "forall1(lambda p: implies(And(0 <= p, p < len(elems)), result[p] == LIN(elems[p])))"

contracts.append(Contract(IP + ":InitialOperator.linform", prop="C08",
                          result=lambda eng, base: (LIN(eng.ghost_call_env.lookup("elem_trial").term), None)))

contracts.append(Contract(
    IP + ":InitialOperator.linform_vector", props=["C17"], setup=sc_linform_vector,
    ensures=[("entries-are-linform-of-each-element", VECPOST), ("length", "len(result) == len(elems)")],
    loops={0: LoopContract(index="kj", invariant=[
        ("prefix", "forall1(lambda p: implies(And(0 <= p, p < kj), vec[p] == LIN(elems[p])))"), ("length", "len(vec) == len(elems)")],
        modifies={"vec": lambda e, b: extio.fresh_arr(e, "vec"), "j": "Int", "_": lambda e, b: None,
                  "elem_trial": lambda e, b: elem_ref(e.fresh("er", "Int"))})},
    replay=replay_runtime("vector")))


def sc_mp_m0(eng):
    def build(eng):
        N = z3.Int("N")
        es = elem_seq("ELEMS", N)
        op = Obj("InitialOperator", {"__module__": IP}, label="M0")
        eng.module_globals[(IP, "__M0")] = op
        eng.module_globals[(IP, "__elems")] = es
        j = z3.Int("j")
        eng.assume(z3.And(N >= 1, 0 <= j, j < N))
        return {"j": j}
    return [dict(label="", args=build)]


contracts.append(Contract(
    IP + ":MP_M0_val", props=["C17"], setup=sc_mp_m0,
    requires=[("index-in-range", "And(0 <= j, j < len(__elems))")],
    result_term=lambda eng, env: LIN(eng.module_globals[(IP, "__elems")].elem(env.lookup("j")).term),
    ensures=[("value-is-linform", "result == LIN(__elems[j])")], replay=replay_runtime("vector")))
