"""C15 / C05 — Mode S contracts on src/quadrature.py: affine/scaling law of integrate for all boxes and all rules, mirrors,
scheme constructors' key map."""
import z3

from pyvc.engine import Contract, Obj, Vec, VList, Ext, OutsideSubset, to_z3, to_real, b_and, num_cmp
from pyvc.arrays import NArr, named_array, DOT
from pyvc.driver import verify_contracts, ENGINE_ASSUMPTIONS
from pyvc import arrays
from . import common as C

QUAD = "src.quadrature"
RULES = "src.quadrature_rules"
R = z3.RealSort()
F1 = z3.Function("F1", R, R)
F2 = z3.Function("F2", R, R, R)
F3 = z3.Function("F3", R, R, R, R)


def scheme(cls, dim, name="rule"):
    n = z3.Int(name + "_n")
    pts = [named_array("{}_p{}".format(name, k), n) for k in range(dim)]
    o = Obj(cls, {"__module__": QUAD, "points": pts[0] if dim == 1 else Vec(pts), "weights": named_array(name + "_w", n),
                  "_mirror": None, "_mirror_x": None, "_mirror_y": None, "_mirror_z": None}, label=name)
    o.n, o.pts = n, pts
    return o


def sc_integrate(dim):
    def setup(eng):
        def build(eng):
            cls = {1: "QuadScheme1D", 2: "QuadScheme2D", 3: "QuadScheme3D"}[dim]
            s = scheme(cls, dim)
            eng.assume(s.n >= 1)
            names = ["a", "b", "c", "d", "k", "l"][:2 * dim]
            box = {nm: z3.Real(nm) for nm in names}
            for lo, hi in zip(names[::2], names[1::2]):
                eng.assume(box[hi] - box[lo] > 1)          # side lengths above the code's thresholds (1e-5 / 1e-7)
            if dim == 1:
                f = Ext("f", lambda e, x: NArr(x.length, lambda i: F1(to_real(x.elem(i)))))
            elif dim == 2:
                f = Ext("f", lambda e, x: NArr(x.items[0].length, lambda i: F2(to_real(x.items[0].elem(i)), to_real(x.items[1].elem(i)))))
            else:
                f = Ext("f", lambda e, x: NArr(x.items[0].length, lambda i: F3(*[to_real(x.items[k].elem(i)) for k in range(3)])))
            eng.ghost.update(dict(s=s, box=box, dim=dim))
            return dict(self=s, f=f, **box)
        return [dict(label="", args=build)]
    return setup


def s_affine_law(eng, result):
    g = eng.ghost
    s, box, dim = g["s"], g["box"], g["dim"]
    names = ["a", "b", "c", "d", "k", "l"][:2 * dim]
    los, his = [box[n] for n in names[::2]], [box[n] for n in names[1::2]]
    FN = {1: F1, 2: F2, 3: F3}[dim]
    vol = z3.RealVal(1)
    for lo, hi in zip(los, his):
        vol = vol * (hi - lo)
    if isinstance(result, (int, float)) and not isinstance(result, bool):
        # a literal constant cannot be the value for every integrand and every rule (sides are positive, n >= 1): stated as False so that
        # the obligation fails with the path's model instead of ending as an undecidable disequality with a DOT term
        return z3.BoolVal(False)
    if dim == 1:
        # the 1-D routine scales the integrand values before the dot product: sum_i w_i ((b - a) f(x_i)); equal to
        # (b - a) sum_i w_i f(x_i) by linearity of the dot product (X-DOT-LINEAR, assumed)
        body = NArr(s.n, lambda i: vol * FN(*[lo + (hi - lo) * to_real(p.elem(i)) for lo, hi, p in zip(los, his, s.pts)]))
        return to_real(result) == DOT(to_z3(s.n), body.lam(), s.fields["weights"].lam())
    body = NArr(s.n, lambda i: FN(*[lo + (hi - lo) * to_real(p.elem(i)) for lo, hi, p in zip(los, his, s.pts)]))
    return to_real(result) == vol * DOT(to_z3(s.n), body.lam(), s.fields["weights"].lam())


def sc_mirror(cls, dim, meth):
    def setup(eng):
        def build(eng, warm=False):
            s = scheme(cls, dim)
            if warm:        # the mirrors in the OTHER coordinates were requested before (their caches are filled)
                for f in ("_mirror_x", "_mirror_y", "_mirror_z")[:dim]:
                    if f != "_" + meth:
                        s.fields[f] = scheme(cls, dim, name="cached" + f)
            eng.ghost.update(dict(s=s, dim=dim, meth=meth))
            return dict(self=s)
        scen = [dict(label="", args=build)]
        if dim > 1:
            scen.append(dict(label="other-mirrors-cached", args=lambda eng: build(eng, True)))
        return scen
    return setup


def s_mirror_law(eng, result):
    g = eng.ghost
    s, dim, meth = g["s"], g["dim"], g["meth"]
    axis = {"mirror": 0, "mirror_x": 0, "mirror_y": 1, "mirror_z": 2}[meth]
    i = eng.fresh("i", "Int")
    rp = [result.fields["points"]] if dim == 1 else result.fields["points"].items
    out = [num_cmp("==", result.fields["weights"].elem(i), s.fields["weights"].elem(i))]
    for k in range(dim):
        want = (1 - to_real(s.pts[k].elem(i))) if k == axis else to_real(s.pts[k].elem(i))
        out.append(num_cmp("==", rp[k].elem(i), want))
    # asking again returns the cached rule
    again = eng.call(eng.getattr(s, meth), [])
    # the mirror is a scheme of its own: it must not carry the parent's cached mirrors (a chained mirror would return them)
    fresh = all(result.fields.get(f) is None for f in ("_mirror", "_mirror_x", "_mirror_y", "_mirror_z") if f in result.fields)
    return b_and(again is result, fresh, result is not s, *out)


REPLAY_INTEGRATE = '''
import numpy as np
from src.quadrature import QuadScheme1D, QuadScheme2D, QuadScheme3D
rng = np.random.default_rng(7)
observed = []
violated = False
for dim, cls in ((1, QuadScheme1D), (2, QuadScheme2D), (3, QuadScheme3D)):
    n = 6
    pts = rng.uniform(0.05, 0.95, size=(dim, n))
    w = rng.uniform(0.1, 1.0, size=n)
    s = cls(pts[0] if dim == 1 else pts, w)
    f1 = lambda x: np.sin(x) + x ** 2
    fN = lambda x: np.sin(x[0]) + x[-1] ** 2 * np.cos(x[min(1, dim - 1)])
    # generic boxes, boxes with end points exactly 0, negative boxes, very small and very large sides
    for boxes in ([(1.5, 4.0), (-2.0, 1.0), (0.25, 7.0)], [(1.0, 2.0), (0.0, 1.0), (-1.0, 0.0)], [(-2.0, -1.0), (-1.0, 0.0), (3.0, 4.0)],
                  [(0.0, 1e-3), (5.0, 5.5), (0.0, 2e3)],
                  # short sides far from the origin (side / position ~ 5e-6): nothing may compare end points "up to rounding"
                  [(100.0, 100.0005), (-750.0, -749.998), (64.0, 64.0 + 2.0 ** -11)], [(1000.0, 1000.005), (1e4, 1e4 + 0.03), (-2e3, -2e3 + 0.01)]):
        box = boxes[:dim]
        args = [v for ab in box for v in ab]
        got = s.integrate(f1 if dim == 1 else fN, *args)
        X = np.array([lo + (hi - lo) * pts[k] for k, (lo, hi) in enumerate(box)])
        vol = np.prod([hi - lo for lo, hi in box])
        want = vol * np.dot(f1(X[0]) if dim == 1 else fN(X), w)
        if abs(got - want) > 1e-10 * abs(want):
            violated = True
            observed.append((dim, box, float(got), float(want)))
'''

contracts = [
    Contract(QUAD + ":QuadScheme1D.integrate", props=["C15"], setup=sc_integrate(1),
             ensures=[("(b - a) * sum_i w_i f(a + (b - a) p_i)", "affine_law(result)")]),
    Contract(QUAD + ":QuadScheme2D.integrate", props=["C15"], setup=sc_integrate(2),
             ensures=[("(b - a)(d - c) * sum_i w_i f(affine(p_i))", "affine_law(result)")]),
    Contract(QUAD + ":QuadScheme3D.integrate", props=["C15"], setup=sc_integrate(3),
             ensures=[("(b - a)(d - c)(l - k) * sum_i w_i f(affine(p_i))", "affine_law(result)")]),
]
for cls, dim, meths in (("QuadScheme1D", 1, ["mirror"]), ("QuadScheme2D", 2, ["mirror_x", "mirror_y"]),
                        ("QuadScheme3D", 3, ["mirror_x", "mirror_y", "mirror_z"])):
    for meth in meths:
        contracts.append(Contract("{}:{}.{}".format(QUAD, cls, meth), props=["C15"], setup=sc_mirror(cls, dim, meth),
                                  ensures=[("reflects exactly its own coordinate, keeps the weights, result is cached", "mirror_law(result)")]))


for _c in contracts:
    if _c.target.endswith(".integrate"):
        _c.replay = lambda mv, sc, ob: REPLAY_INTEGRATE
        _c.replay_on_unknown = _c.replay


def install(eng):
    eng.spec_funcs["affine_law"] = s_affine_law
    eng.spec_funcs["mirror_law"] = s_mirror_law


def add_obligations(chk):
    chk.assume(*ENGINE_ASSUMPTIONS)
    chk.assume("Mode S: integrands are uninterpreted functions, rules arbitrary vectors of symbolic length; np.dot is a function of (length, "
               "element functions) only (X-DOT)")
    eng = C.new_engine([], "C15")
    arrays.install(eng)
    install(eng)
    verify_contracts(eng, contracts, chk)
    from vlib import smt
    smt.close_pool()


# ------------------------------------------------------------------------------------------
# C05 O8: scheme constructors map the requested degree to an existing key with sufficient exactness

SPEC = {}


def table_contract(fname, keys):
    cond = "Or({})".format(", ".join("N == {}".format(k) for k in keys))
    def res(e, b):
        e.ghost["N_called"] = e.ghost_call_env.lookup("N")
        return (Vec([z3.Real("node")]), Vec([z3.Real("weight")]))
    return Contract("{}:{}".format(RULES, fname), prop="C05", requires=[("key-is-tabulated", cond)], result=res)


def scheme_contracts(funcs):
    out = []
    specs = [("gauss_sqrtinv_quadrature_scheme", "gauss_sqrtinv_quadrature_rule", lambda ks: (1, 2 * max(ks) - 1), True, lambda N: 2 * N - 1),
             ("gauss_x_quadrature_scheme", "gauss_x_quadrature_rule", lambda ks: (1, 2 * max(ks) - 1), True, lambda N: 2 * N - 1),
             ("gauss_log_quadrature_scheme", "gauss_log_quadrature_rule", lambda ks: (0, 14), False, lambda N: 2 * N + 1)]
    tabs = []
    for sname, rname, rng, odd_only, degree in specs:
        if rname not in funcs:
            continue
        keys = [k for k, _ in funcs[rname]["keys"]]
        tabs.append(table_contract(rname, keys))
        lo, hi = rng(keys)

        def setup(eng, lo=lo, hi=hi, odd_only=odd_only):
            def build(eng):
                n = z3.Int("N_poly")
                eng.assume(z3.And(n >= lo, n <= hi))
                if odd_only:
                    eng.assume(n % 2 == 1)
                eng.ghost["N_poly"] = n
                return dict(N_poly=n)
            return [dict(label="", args=build)]
        out.append(Contract("{}:{}".format(QUAD, sname), props=["C05"], setup=setup,
                            ensures=[("constructs-a-rule-for-every-advertised-degree [{}..{}{}]".format(lo, hi, ", odd" if odd_only else ""),
                                      "result is not None"),
                                     ("the selected rule is exact at least to the requested degree", "degree_ok_{}()".format(sname))]))
        SPEC["degree_ok_" + sname] = (lambda degree: (lambda e: to_z3(degree(e.ghost["N_called"])) >= e.ghost["N_poly"]))(degree)
    # two-argument constructors: every tabulated (degree, degree) key is passed through unchanged
    for sname, rname in (("log_quadrature_scheme", "log_quadrature_rule"), ("log_log_quadrature_scheme", "log_log_quadrature_rule"),
                         ("sqrt_quadrature_scheme", "sqrt_quadrature_rule"), ("sqrtinv_quadrature_scheme", "sqrtinv_quadrature_rule")):
        if rname not in funcs:
            continue
        keys = [k for k, _ in funcs[rname]["keys"]]
        pa, pb = funcs[rname]["params"][:2]
        cond = "Or({})".format(", ".join("And({} == {}, {} == {})".format(pa, k[0], pb, k[1]) for k in keys))

        def res(e, b, pa=pa, pb=pb):
            e.ghost["K_called"] = (e.ghost_call_env.lookup(pa), e.ghost_call_env.lookup(pb))
            return (Vec([z3.Real("node")]), Vec([z3.Real("weight")]))
        tabs.append(Contract("{}:{}".format(RULES, rname), prop="C05", requires=[("key-is-tabulated", cond)], result=res))

        def setup2(eng, keys=keys, sname=sname):
            def build(eng):
                a, b = z3.Ints("K_a K_b")
                eng.assume(z3.Or(*[z3.And(a == k[0], b == k[1]) for k in keys]))
                eng.ghost["K_req"] = (a, b)
                _, fnode, _ = eng.find_function("{}:{}".format(QUAD, sname))
                names = [x.arg for x in fnode.args.args]
                return {names[0]: a, names[1]: b}
            return [dict(label="", args=build)]
        out.append(Contract("{}:{}".format(QUAD, sname), props=["C05"], setup=setup2,
                            ensures=[("constructs-a-rule-for-every-tabulated-key [{} keys]".format(len(keys)), "result is not None"),
                                     ("the rule of exactly the requested (degree, degree) key is selected", "same_key()")],
                            replay=(lambda sname, rname: lambda mv, sc, ob: (
                                "from src import quadrature as Q, quadrature_rules as T\nimport numpy as np\n"
                                "a, b = {a}, {b}\nwant = T.{r}(a, b)\nraises_is_violation = True\n"
                                "got = Q.{s}(a, b)\n"
                                "observed = dict(key=(a, b), got_points=None if got is None else len(got.points), want_points=len(want[0]))\n"
                                "violated = got is None or not (np.array_equal(got.points, np.array(want[0])) and "
                                "np.array_equal(got.weights, np.array(want[1])))\n").format(
                                    a=int(mv.get("K_a") or 0), b=int(mv.get("K_b") or 0), r=rname, s=sname))(sname, rname)))
    SPEC["same_key"] = lambda e: z3.And(e.ghost["K_called"][0] == e.ghost["K_req"][0], e.ghost["K_called"][1] == e.ghost["K_req"][1])
    return tabs, out
