"""C07 — pointwise evaluation: branch / rule / formula selection in ideal arithmetic (DESIGN 4.C07)."""
import z3

from pyvc.engine import Contract, Obj, Ref, Vec, VList, OutsideSubset, to_z3, to_real, b_and, b_or, b_not, b_implies, num_cmp
from pyvc import externals as X
from pyvc.arrays import NArr, named_array, DOT
from . import common as C
from .sl_integrate import Piece, PieceSum, rect_eq

SL = "src.single_layer"
QUAD = "src.quadrature"


def rule1d(name, n, tags, pts=None, wts=None):
    return Obj("QuadScheme1D", {"__module__": QUAD, "points": pts or named_array(name + "_pts", n),
                                "weights": wts or named_array(name + "_wts", n), "graded": frozenset(tags), "_mirror": None},
               label=name)


def operator(eng):
    n = z3.Int("n_log")
    log = rule1d("log", n, ["L"])
    # mirror() keeps the weights and maps points p -> 1 - p (C15 contract of QuadScheme1D.mirror)
    logm = rule1d("logm", n, ["R"], pts=NArr(n, lambda i: 1 - log.fields["points"].elem(i), "1-log_pts"), wts=log.fields["weights"])
    L = z3.Real("gamma_len")
    o = Obj("SingleLayerOperator", {"__module__": SL, "log_scheme": log, "log_scheme_m": logm, "gauss_scheme": rule1d("gauss", z3.Int("n_g"), []),
                                    "gamma_len": L, "glue_space": z3.Bool("glue_space")}, label="SL")
    o.n = n
    eng.assume(z3.And(n >= 1, L > 0))
    return o


def kspec(t, ta, tb, s):
    return C.s_K1(None, t, ta, tb, s)


def s_piece1_is(eng, result, spec, a, b, sing):
    """result == INT1(spec, a, b): one or two pieces that tile [a,b] (cut at the singular point), each with an
    integrand pointwise equal to spec"""
    if isinstance(result, Piece):
        pieces = [result]
    elif isinstance(result, PieceSum):
        pieces = result.pieces
    else:
        return False
    y = eng.fresh("y", "Real")
    saved = eng.spec_mode
    eng.spec_mode = 0      # the integrand closure of the real code may branch (t <= b): evaluate it with forks
    try:
        want = eng.call(spec, [y])
        point = b_and(*[num_cmp("==", eng.call(p.f, [y]), want) for p in pieces])
    finally:
        eng.spec_mode = saved
    if len(pieces) == 1:
        geo = b_and(num_cmp("==", pieces[0].rect[0], a), num_cmp("==", pieces[0].rect[1], b))
    elif len(pieces) == 2:
        p, q = pieces
        geo = b_and(num_cmp("==", p.rect[0], a), num_cmp("==", p.rect[1], q.rect[0]), num_cmp("==", q.rect[1], b))
    else:
        return False
    return b_and(geo, point)


def s_graded1(eng, rule, a, b, sing):
    tags = rule.fields.get("graded", frozenset())
    return b_or(b_and(num_cmp("==", sing, a), "L" in tags), b_and(num_cmp("==", sing, b), "R" in tags))


def _piece_plus_zero(eng, op, a, b):
    if op == "+" and isinstance(a, int) and not isinstance(a, bool) and a == 0 and isinstance(b, (Piece, PieceSum)):
        return b
    if op == "+" and isinstance(b, int) and not isinstance(b, bool) and b == 0 and isinstance(a, (Piece, PieceSum)):
        return a
    return NotImplemented


def circ(p, q, L, glue):
    d = z3.If(to_real(p) - to_real(q) >= 0, to_real(p) - to_real(q), to_real(q) - to_real(p))
    return z3.If(z3.And(glue, to_real(L) - d < d), to_real(L) - d, d)


def s_outside_spec(eng, result, slo, elem, t, x_hat, x):
    """outside the element: (x_b - x_a) * sum_i w_i K1(t; |x - gamma(x_a + (x_b - x_a) p_i)|^2) with the rule graded towards
    the end point that is nearer to x_hat in the (seam-aware) distance"""
    if isinstance(result, (Piece, PieceSum)) or result is None or isinstance(result, int):
        return False
    x_a, x_b = elem.fields["space_interval"]
    t_a, t_b = elem.fields["time_interval"]
    n = slo.n
    W = slo.fields["log_scheme"].fields["weights"]
    glue = slo.fields["glue_space"]
    L = slo.fields["gamma_len"]

    def E(Y):
        vec = NArr(n, lambda i: kspec(t, t_a, t_b, (x.items[0] - Y.items[0].elem(i)) * (x.items[0] - Y.items[0].elem(i)) +
                                      (x.items[1] - Y.items[1].elem(i)) * (x.items[1] - Y.items[1].elem(i))))
        return (to_real(x_b) - to_real(x_a)) * DOT(to_z3(n), W.lam(), vec.lam())
    Ya = elem.fields["_SingleLayerOperator__log_scheme_y"]
    Yb = elem.fields["_SingleLayerOperator__log_scheme_m_y"]
    ca, cb = circ(x_hat, x_a, L, glue), circ(x_hat, x_b, L, glue)
    r = to_real(result)
    ra, rb = E(Ya), E(Yb)
    # Which pre-evaluated point set the result was built from is decided first (validity of r == E(Y.) on this path, a congruence
    # query); the clause is then the linear statement "that end point is the nearer one".  Without this step a wrong choice is a
    # disequality of two DOT terms, which the solvers leave undecided (seed C07_12).
    try:
        is_a = not eng.feasible(r != ra)
        is_b = not eng.feasible(r != rb)
    except Exception:      # noqa
        is_a = is_b = False
    if is_a and not is_b:
        return ca <= cb
    if is_b and not is_a:
        return cb <= ca
    return z3.And(z3.Implies(ca < cb, r == ra), z3.Implies(cb < ca, r == rb), z3.Implies(ca == cb, z3.Or(r == ra, r == rb)))


def install(eng):
    cls = type(eng)
    if _piece_plus_zero not in cls.arith_hooks:
        cls.arith_hooks = [_piece_plus_zero] + list(cls.arith_hooks)
    eng.spec_funcs["piece1_is"] = s_piece1_is
    eng.spec_funcs["graded1"] = s_graded1
    eng.spec_funcs["outside_spec"] = s_outside_spec
    eng.spec_funcs["arr2_eq"] = s_arr2_eq
    eng.spec_funcs["curve_at"] = s_curve_at
    eng.used_assumptions.add("A-RULE(1-D): a log-graded rule applied to [a,b] returns the exact integral when the singular point is the end "
                             "point it is graded to (numerical analysis; digits are the bounded relational contract evaluate vs evaluate_exact)")
    eng.used_assumptions.add("mirror() keeps weights and maps points p -> 1-p (C15); scenario builds log_scheme_m accordingly")


def integrate1_result(eng, base):
    env = eng.ghost_call_env
    return Piece(env.lookup("f"), (env.lookup("a"), env.lookup("b")))


contracts = []
contracts.append(Contract(
    QUAD + ":QuadScheme1D.integrate", prop="C15",
    requires=[("documented-precondition[b - a > 1e-5 or a == b]", "Or(a == b, b - a > 1e-5)"),
              ("A-RULE-premise: rule graded to the singular end point", "Or(a == b, graded1(self, a, b, SING))")],
    literal_cases=[("a == b", 0)], result=integrate1_result))


def sc_evaluate(eng):
    def build(eng):
        slo = operator(eng)
        tr = C.element(eng, "trial")
        n = slo.n
        tr.fields["_SingleLayerOperator__log_scheme_y"] = Vec([named_array("ly0", n), named_array("ly1", n)])
        tr.fields["_SingleLayerOperator__log_scheme_m_y"] = Vec([named_array("lmy0", n), named_array("lmy1", n)])
        for w in tr.wf:
            eng.assume(w)
        x_hat = z3.Real("x_hat")
        eng.externals["SING"] = x_hat
        eng.assume(z3.And(0 <= x_hat, x_hat <= slo.fields["gamma_len"], tr.fields["space_interval"][1] <= slo.fields["gamma_len"]))
        return {"self": slo, "elem_trial": tr, "t": z3.Real("t"), "x_hat": x_hat, "x": Vec([z3.Real("x_0"), z3.Real("x_1")])}
    return [dict(label="", args=build)]


INSIDE = ("And(elem_trial.space_interval[0] * (1 + 1e-10) <= x_hat, x_hat <= elem_trial.space_interval[1] * (1 - 1e-10))")
KSPEC1 = ("lambda y: K1(t, elem_trial.time_interval[0], elem_trial.time_interval[1], sumsq(x - elem_trial.gamma_space(y)))")

contracts.append(Contract(
    SL + ":SingleLayerOperator.evaluate", props=["C07"], setup=sc_evaluate,
    requires=[("interior-points-at-least-1e-5-from-the-end-points[documented precondition of the interval rule]",
               "implies(" + INSIDE + ", And(Or(x_hat == elem_trial.space_interval[0], x_hat - elem_trial.space_interval[0] > 1e-5), "
               "Or(x_hat == elem_trial.space_interval[1], elem_trial.space_interval[1] - x_hat > 1e-5)))")],
    ensures=[("acausal-literal-zero", "implies(t <= elem_trial.time_interval[0], ZERO(result))"),
             ("in-element: split at the singular point, each part with the rule graded to it, integrand == time-integrated kernel",
              "implies(And(t > elem_trial.time_interval[0], " + INSIDE + "), piece1_is(result, " + KSPEC1 +
              ", elem_trial.space_interval[0], elem_trial.space_interval[1], x_hat))"),
             ("outside: pre-evaluated points of the rule graded to the nearer end (seam-aware), log weights, factor (x_b - x_a), K1 formula",
              "implies(And(t > elem_trial.time_interval[0], Not(" + INSIDE + ")), outside_spec(result, self, elem_trial, t, x_hat, x))")]))


# ------------------------------------------------------------------------------------------
# _init_elems: stores gamma(a + (b - a) * points) for both rules under the mangled names evaluate reads

def s_arr2_eq(eng, A, B):
    """two (2, n) arrays agree element-wise"""
    if not (isinstance(A, Vec) and isinstance(B, Vec) and len(A) == 2 and len(B) == 2):
        return False
    i = eng.fresh("i", "Int")
    return b_and(num_cmp("==", A.items[0].length, B.items[0].length),
                 *[num_cmp("==", A.items[k].elem(i), B.items[k].elem(i)) for k in range(2)])


def s_curve_at(eng, gamma, a, b, pts):
    return eng.call(gamma, [eng.arith("+", a, eng.arith("*", eng.arith("-", b, a), pts))])


def sc_init_elems(eng):
    def build(eng):
        slo = operator(eng)
        tr = C.element(eng, "trial")
        for w in tr.wf:
            eng.assume(w)
        return {"self": slo, "elems": VList([tr])}
    return [dict(label="", args=build)]


contracts.append(Contract(
    SL + ":SingleLayerOperator._init_elems", props=["C07"], setup=sc_init_elems,
    ensures=[("stores-curve-points-of-the-log-rule",
              "arr2_eq(elems[0]._SingleLayerOperator__log_scheme_y, curve_at(elems[0].gamma_space, elems[0].space_interval[0], "
              "elems[0].space_interval[1], self.log_scheme.points))"),
             ("stores-curve-points-of-the-mirrored-log-rule",
              "arr2_eq(elems[0]._SingleLayerOperator__log_scheme_m_y, curve_at(elems[0].gamma_space, elems[0].space_interval[0], "
              "elems[0].space_interval[1], self.log_scheme_m.points))")]))


REPLAY_C07 = '''
from vlib.core import Check
from bounded import relational
chk = Check("C07", "quick", 0, "other", "replay")
relational.run(chk, "C07", "quick", 0)
observed = [o.name for o in chk.obs if o.status == "failed"][:6]
violated = len(observed) > 0
'''
for _c in contracts:
    if _c.setup is not None:
        _c.replay_on_unknown = lambda mv, sc, ob: REPLAY_C07
