"""C20 (last sentence): piecewise-constant prolongation between nested meshes preserves values -- src.mesh.Prolongate.

Everything is symbolic: the coarse list CO(0..N-1) (pairwise distinct elements), the fine list FI(0..M-1), the parent relation
(PARENT / HASP, arbitrary depth), the coarse vector.  Spec functions (definitions, not assumptions):

  INCO(e)     <=>  e is an item of the coarse list          (Skolemised through CIDX, the index of e in the coarse list)
  NEAREST(e)   =   e if INCO(e) else NEAREST(PARENT(e))      (nearest ancestor-or-self in the coarse list)
  NESTED(e)   <=>  INCO(e) or (HASP(e) and NESTED(PARENT(e))) (precondition: the meshes are nested)

The outer loop carries a quantified invariant over the prefix of the result, the inner while the invariant
NEAREST(elem_coarse) == NEAREST(elem_fine) and NESTED(elem_coarse); the dictionary comprehension over the symbolic list is
the engine's SeqDict (last binding wins)."""
import z3

from pyvc.engine import Contract, LoopContract, Ref, SymSeq, to_z3
from pyvc import extio

MESH = "src.mesh"
I, R, B = z3.IntSort(), z3.RealSort(), z3.BoolSort()

CO = z3.Function("CO", I, I)
FI = z3.Function("FI", I, I)
PARENT = z3.Function("PARENT", I, I)
HASP = z3.Function("HASP", I, B)
INCO = z3.Function("INCO", I, B)
CIDX = z3.Function("CIDX", I, I)
NEAREST = z3.Function("NEAREST", I, I)
NESTED = z3.Function("NESTED", I, B)
N, M = z3.Ints("N M")


def elem_ref(term):
    return Ref("Elem", term, attrs={
        "parent": lambda e, r: Ref("Elem", PARENT(term), attrs=dict(elem_ref(PARENT(term)).attrs, none=z3.Not(HASP(term)))),
    })


def install(eng):
    e, i = z3.Ints("e!ax i!ax")
    eng.axioms += [
        # definition of INCO / CIDX for a list of pairwise distinct elements
        z3.ForAll([i], z3.Implies(z3.And(0 <= i, i < N), z3.And(INCO(CO(i)), CIDX(CO(i)) == i)), patterns=[CO(i)]),
        z3.ForAll([e], INCO(e) == z3.And(0 <= CIDX(e), CIDX(e) < N, CO(CIDX(e)) == e), patterns=[INCO(e)]),
        # recursive spec functions
        z3.ForAll([e], NEAREST(e) == z3.If(INCO(e), e, NEAREST(PARENT(e))), patterns=[NEAREST(e)]),
        z3.ForAll([e], NESTED(e) == z3.Or(INCO(e), z3.And(HASP(e), NESTED(PARENT(e)))), patterns=[NESTED(e)]),
    ]
    eng.spec_funcs.update({
        "NEAREST": lambda eng, x: elem_ref(NEAREST(x.term)), "NESTED": lambda eng, x: NESTED(x.term),
        "INCO": lambda eng, x: INCO(x.term), "CIDX": lambda eng, x: CIDX(x.term),
        "PARENT": lambda eng, x: elem_ref(PARENT(x.term)),
    })
    from .assembly import forall_n
    eng.spec_funcs["forall1"] = forall_n(1)
    eng.used_assumptions.add("Prolongate: the coarse list holds pairwise distinct elements (a mesh's element list); the meshes are nested "
                             "(every fine element has an ancestor-or-self in the coarse list: precondition NESTED); elements are hashed "
                             "by identity (Element defines no __eq__/__hash__)")


def sc_prolongate(eng):
    def build(eng):
        eng.assume(z3.And(N >= 0, M >= 0))
        co = SymSeq(N, lambda k: elem_ref(CO(to_z3(k))), "elems_coarse")
        fi = SymSeq(M, lambda k: elem_ref(FI(to_z3(k))), "elems_fine")
        vc = extio.fresh_arr(eng, "vec_coarse", N)
        j = z3.Int("j!pre")
        eng.assume(z3.ForAll([j], z3.Implies(z3.And(0 <= j, j < M), NESTED(FI(j)))))
        return {"vec_coarse": vc, "elems_coarse": co, "elems_fine": fi}
    return [dict(label="", args=build)]


POST = "forall1(lambda p: implies(And(0 <= p, p < len(elems_fine)), result[p] == vec_coarse[CIDX(NEAREST(elems_fine[p]))]))"

def replay_prolongate(mv, sc, ob):
    return ("from bounded import estimator_rel as E\nres = E.run_prolongate(None, 'quick', 0, report=False)\n"
            "observed = [(c, d) for c, ok, d in res if not ok][:3]\nviolated = len(observed) > 0\n")


contracts = [Contract(
    MESH + ":Prolongate", props=["C20"], setup=sc_prolongate,
    ensures=[
        ("length", "len(result) == len(elems_fine)"),
        ("value-of-the-nearest-coarse-ancestor", POST),
        ("an-element-of-both-meshes-keeps-its-value",
         "forall1(lambda p: implies(And(0 <= p, p < len(elems_fine), INCO(elems_fine[p])), "
         "result[p] == vec_coarse[CIDX(elems_fine[p])]))"),
        ("a-child-of-a-coarse-element-gets-the-parent's-value",
         "forall1(lambda p: implies(And(0 <= p, p < len(elems_fine), Not(INCO(elems_fine[p])), INCO(PARENT(elems_fine[p]))), "
         "result[p] == vec_coarse[CIDX(PARENT(elems_fine[p]))]))"),
        ("a-grandchild-gets-the-grandparent's-value",
         "forall1(lambda p: implies(And(0 <= p, p < len(elems_fine), Not(INCO(elems_fine[p])), Not(INCO(PARENT(elems_fine[p]))), "
         "INCO(PARENT(PARENT(elems_fine[p])))), result[p] == vec_coarse[CIDX(PARENT(PARENT(elems_fine[p])))]))"),
    ],
    replay=replay_prolongate,
    loops={
        0: LoopContract(index="kj", invariant=[
            ("prefix", "forall1(lambda p: implies(And(0 <= p, p < kj), vec_fine[p] == vec_coarse[CIDX(NEAREST(elems_fine[p]))]))"),
            ("length", "len(vec_fine) == len(elems_fine)")],
            modifies={"vec_fine": lambda e, b: extio.fresh_arr(e, "vec_fine"), "j": "Int", "i": "Int",
                      "elem_fine": lambda e, b: elem_ref(e.fresh("ef", "Int")),
                      "elem_coarse": lambda e, b: elem_ref(e.fresh("ec", "Int"))}),
        1: LoopContract(index="kw", invariant=[
            ("same-nearest-coarse-ancestor", "NEAREST(elem_coarse) is NEAREST(elem_fine)"),
            ("still-below-the-coarse-mesh", "NESTED(elem_coarse)")],
            modifies={"elem_coarse": lambda e, b: elem_ref(e.fresh("ec", "Int"))}),
    })]
contracts[0].replay_on_unknown = replay_prolongate
