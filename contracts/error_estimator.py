"""C09 — Sobolev / weighted-L2 indicators: patch selection, ordering, scalings (DESIGN 4.C09)."""
import z3

from pyvc.engine import (Contract, LoopContract, Obj, Ref, Vec, VList, Ext, OutsideSubset, to_z3, to_real, b_and, b_or, b_not,
                         b_implies, num_cmp)
from pyvc import externals as X
from pyvc import extio
from pyvc.arrays import NArr, named_array
from . import common as C

EE = "src.error_estimator"
MESH = "src.mesh"
NORMS = "src.norms"
I, R = z3.IntSort(), z3.RealSort()

PS = z3.Function("PIECE_START", I, R)      # parameter range of a curve piece
PE = z3.Function("PIECE_END", I, R)


def mk_elem(eng, name, L):
    t0, t1, x0, x1 = z3.Reals("{0}_t0 {0}_t1 {0}_x0 {0}_x1".format(name))
    vs = [Obj("Vertex", {"__module__": MESH, "t": t, "x": x, "idx": -1}) for (t, x) in ((t0, x0), (t0, x1), (t1, x1), (t1, x0))]
    piece = C.piece(eng, name + "_piece")
    e = Obj("Element", {"__module__": MESH, "vertices": VList(vs), "time_interval": (t0, t1), "space_interval": (x0, x1),
                        "gamma_space": piece, "glob_idx": z3.Int(name + "_idx"), "h_t": t1 - t0, "h_x": x1 - x0}, label=name)
    # well-formed element on a curve of length L: inside its piece's parameter range (C18 piece assignment)
    eng.assume(z3.And(t0 < t1, x0 < x1, 0 <= x0, x1 <= L, PS(piece.term) <= x0, x1 <= PE(piece.term),
                      0 <= PS(piece.term), PE(piece.term) <= L, PS(piece.term) < PE(piece.term)))
    e.box = (t0, t1, x0, x1)
    return e


def curve_axioms(eng, a, b, L):
    """C18 facts used: distinct pieces have disjoint parameter ranges; the curve is continuous at break points and closed"""
    pa, pb = a.fields["gamma_space"].term, b.fields["gamma_space"].term
    eng.assume(z3.Implies(pa != pb, z3.Or(PE(pa) <= PS(pb), PE(pb) <= PS(pa))))
    eng.assume(z3.Implies(pa == pb, z3.And(PS(pa) == PS(pb), PE(pa) == PE(pb))))
    for (l, r) in ((a, b), (b, a)):
        lx1, rx0 = l.box[3], r.box[2]
        pl, pr = l.fields["gamma_space"].term, r.fields["gamma_space"].term
        meet = z3.And(C.GX(pl, lx1) == C.GX(pr, rx0), C.GY(pl, lx1) == C.GY(pr, rx0))
        eng.assume(z3.Implies(z3.Or(lx1 == rx0, z3.And(lx1 == L, rx0 == 0)), meet))
    eng.used_assumptions.add("C18 (proved/bounded there): elements lie inside their piece's parameter range, distinct pieces have disjoint "
                             "ranges, the curve is continuous at break points and closed")


def s_connected(eng, left, right, L):
    """the two space intervals form a connected arc left -> right (through the seam on a closed curve)"""
    if right is None or left is None:
        return True
    lx1, rx0 = left.fields["space_interval"][1], right.fields["space_interval"][0]
    return b_or(num_cmp("==", lx1, rx0), b_and(num_cmp("==", lx1, L), num_cmp("==", rx0, 0)))


def estimator(eng):
    L = z3.Real("gamma_len")
    n = z3.Int("n_gauss")
    gauss = Obj("QuadScheme1D", {"__module__": "src.quadrature", "points": named_array("g_pts", n), "weights": named_array("g_wts", n)})
    gauss2d = Obj("QuadScheme2D", {"__module__": "src.quadrature", "points": Vec([named_array("g2_px", z3.Int("n2")), named_array("g2_py", z3.Int("n2"))]),
                                   "weights": named_array("g2_w", z3.Int("n2"))})
    slo = Obj("Slobodeckij", {"__module__": NORMS})
    o = Obj("ErrorEstimator", {"__module__": EE, "gamma_len": L, "gauss": gauss, "gauss_2d": gauss2d, "slobodeckij": slo,
                               "__lazy_state__": True}, label="EE")
    eng.ghost["computed_here"] = []
    eng.assume(z3.And(L > 0, n >= 1))
    eng.externals["GAMMA_LEN"] = L
    return o


# ------------------------------------------------------------------------------------------
contracts = []

contracts.append(Contract(
    NORMS + ":Slobodeckij.seminorm_h_1_2", prop="C14",
    requires=[("interval-non-degenerate-and-ordered[a < b]", "a < b"),
              ("arc-inside-the-piece's-parameter-range", "Or(gamma is None, arc_in_piece(gamma, a, b))")]))
contracts.append(Contract(
    NORMS + ":Slobodeckij.seminorm_h_1_2_pw", prop="C14", precondition_asserts=0,
    requires=[("a_1 < b_1", "a_1 < b_1"), ("a_2 < b_2", "a_2 < b_2"),
              ("pieces-meet: gamma_1(b_1) == gamma_2(a_2)", "vec_eq(gamma_1(b_1), gamma_2(a_2))"),
              ("arcs-inside-their-pieces", "And(arc_in_piece(gamma_1, a_1, b_1), arc_in_piece(gamma_2, a_2, b_2))")]))
contracts.append(Contract(NORMS + ":Slobodeckij.seminorm_h_1_4", prop="C14", requires=[("a < b", "a < b")]))


REPLAY_SEAM = '''
import numpy as np, io, contextlib
from src.mesh import MeshParametrized
from src.parametrization import Circle
from src.error_estimator import ErrorEstimator
with contextlib.redirect_stdout(io.StringIO()):
    mesh = MeshParametrized(Circle())
    mesh.uniform_refine_space(); mesh.uniform_refine_space()          # 16 leaves around the circle
    ee = ErrorEstimator(mesh, N_poly=11)
leaves = sorted(mesh.leaf_elements, key=lambda e: e.space_interval[0])
n = len(leaves)
res = lambda t, x_hat, gamma: gamma(x_hat)[0]      # first embedded coordinate; its point reflection only flips the sign
f = ee._ErrorEstimator__integrate_h_1_2
seam = f(res, 0.0, 1.0, leaves[-1], leaves[0])                  # pair adjacent through the closing seam
twin = f(res, 0.0, 1.0, leaves[n // 2 - 1], leaves[n // 2])     # the same pair rotated by pi (interior of the parametrisation)
observed = dict(seam_patch=float(seam), rotated_twin=float(twin))
violated = abs(seam - twin) > 1e-3 * abs(twin)
'''


def sc_integrate_h_1_2(eng):
    def build(eng):
        ee = estimator(eng)
        L = ee.fields["gamma_len"]
        left = mk_elem(eng, "left", L)
        which = eng.choose(2, "right")
        right = None
        if which == 1:
            right = mk_elem(eng, "right", L)
            curve_axioms(eng, left, right, L)
        ta, tb = z3.Reals("t_a t_b")
        res = Ext("residual", lambda e, t, x_hat, x: NArr(z3.Int("m"), lambda i: z3.Real("res_i")))
        return {"self": ee, "residual": res, "t_a": ta, "t_b": tb, "elem_left": left, "elem_right": right}
    return [dict(label="", args=build)]


contracts.append(Contract(
    EE + ":ErrorEstimator.__integrate_h_1_2", props=["C09"], setup=sc_integrate_h_1_2, result_term=lambda e, env: h12_term(e, env),
    requires=[("time-interval", "t_a < t_b"),
              ("union-is-a-connected-arc[left then right, through the seam on a closed curve]",
               "Or(elem_right is None, connected(elem_left, elem_right, self.gamma_len))")],
    replay=lambda mv, sc, ob: REPLAY_SEAM,
    loops={0: LoopContract(index="ki", invariant=[("val-has-one-slot-per-time-node", "len(val) == len(self.gauss.weights)")],
                           modifies={"val": lambda e, b: extio.fresh_arr(e, "val"), "i": "Int", "t": "Real"})}))


def nbrs_result(eng, base):
    """C10 contract of Edge.neighbour_elements as seen from an element (ghost: owner, side): 0..2 leaves across that side"""
    env = eng.ghost_call_env
    edge = env.lookup("self")
    owner, side = edge.fields["ghost_owner"], edge.fields["ghost_side"]
    L = eng.externals["GAMMA_LEN"]
    t0, t1, x0, x1 = owner.box
    k = eng.choose(3, "nbrs@" + side)
    out = []
    for j in range(k):
        nb = mk_elem(eng, "nbr_{}{}".format(side, j), L)
        nt0, nt1, nx0, nx1 = nb.box
        curve_axioms(eng, owner, nb, L)
        if side == "right":
            eng.assume(z3.Or(nx0 == x1, z3.And(x1 == L, nx0 == 0)))
            eng.assume(z3.And(nt0 < t1, t0 < nt1))
        elif side == "left":
            eng.assume(z3.Or(nx1 == x0, z3.And(x0 == 0, nx1 == L)))
            eng.assume(z3.And(nt0 < t1, t0 < nt1))
        elif side == "top":
            eng.assume(z3.And(nt0 == t1, nx0 < x1, x0 < nx1, nb.fields["gamma_space"].term == owner.fields["gamma_space"].term))
        else:
            eng.assume(z3.And(nt1 == t0, nx0 < x1, x0 < nx1, nb.fields["gamma_space"].term == owner.fields["gamma_space"].term))
        eng.assume(nb.fields["glob_idx"] != owner.fields["glob_idx"])
        out.append(nb)
    return VList(out)


def sc_sobolev(eng):
    def build(eng):
        ee = estimator(eng)
        L = ee.fields["gamma_len"]
        elem = mk_elem(eng, "elem", L)
        edges = []
        for side in ("bottom", "right", "top", "left"):
            edges.append(Obj("Edge", {"__module__": MESH, "ghost_owner": elem, "ghost_side": side}, label="edge_" + side))
        elem.fields["edges"] = VList(edges)
        res = Ext("residual", lambda e, *a: None)
        eng.used_assumptions.add("C10 (bounded there): neighbour_elements() returns the 0..2 leaves sharing a positive-length piece of that "
                                 "edge (seam identified); elements at least three around the curve, so a seam neighbour is a different element")
        # at least three elements around the closed curve: an element never spans the whole curve
        eng.assume(z3.Not(z3.And(elem.box[2] == 0, elem.box[3] == L)))
        return {"self": ee, "elem": elem, "residual": res, "nbrs_symmetry": z3.Bool("nbrs_symmetry")}
    return [dict(label="", args=build)]


contracts.append(Contract(MESH + ":Edge.neighbour_elements", prop="C10", result=nbrs_result))
H14 = z3.Function("H14", R, R, R, R, I, R)
H12 = z3.Function("H12", R, R, I, I, R)


def h14_term(eng, env):
    t = H14(*[to_real(env.lookup(n)) for n in ("t_a", "t_b", "x_a", "x_b")], env.lookup("gamma").term)
    eng.ghost["computed_here"].append(t)
    return t


def h12_term(eng, env):
    l, r = env.lookup("elem_left"), env.lookup("elem_right")
    t = H12(to_real(env.lookup("t_a")), to_real(env.lookup("t_b")), l.fields["glob_idx"], r.fields["glob_idx"] if r is not None else z3.IntVal(-1))
    eng.ghost["computed_here"].append(t)
    return t


def s_values_computed_in_this_call(eng, result):
    """every patch value returned was computed by this call from this call's residual (no value from an earlier call)"""
    total, ips = result
    here = eng.ghost["computed_here"]
    vals = [v for _, v in eng.iter_concrete(ips)]
    ok = all(any(z3.is_expr(v) and v.eq(h) for h in here) for v in vals)
    if not ok:
        return False
    s = z3.RealVal(0)
    for v in vals:
        s = s + v
    return to_real(total) == s


contracts.append(Contract(
    EE + ":ErrorEstimator.__integrate_h_1_4", prop="C09", result_term=h14_term,
    requires=[("time-union", "t_a < t_b"), ("space-intersection-non-empty", "x_a < x_b"),
              ("inside-the-piece", "arc_in_piece(gamma, x_a, x_b)")]))

contracts.append(Contract(
    EE + ":ErrorEstimator.sobolev_space", props=["C09"], setup=sc_sobolev,
    ensures=[("indicator == sum of the patch seminorms computed by this call for this residual", "values_computed_in_this_call(result)")]))
contracts.append(Contract(
    EE + ":ErrorEstimator.sobolev_time", props=["C09"], setup=sc_sobolev,
    ensures=[("indicator == sum of the patch seminorms computed by this call for this residual", "values_computed_in_this_call(result)")]))


# weighted L2 --------------------------------------------------------------------------------

def sc_weighted(eng):
    def build(eng):
        ee = estimator(eng)
        elem = mk_elem(eng, "elem", ee.fields["gamma_len"])
        n2 = z3.Int("n2")
        RES = z3.Function("RES", R, R, R)
        res = Ext("residual", lambda e, t, x_hat, gamma: NArr(n2, lambda i: RES(to_real(t.elem(i)), to_real(x_hat.elem(i)))))
        eng.ghost["RES"] = RES
        return {"self": ee, "elem": elem, "residual": res}
    return [dict(label="", args=build)]


def s_weighted_spec(eng, result, ee, elem):
    """(h_t^(-1/2), h_x^(-1)) * ||r||^2_{L2(elem)} with ||r||^2 = h_t h_x * sum_i w_i r(t_i, x_i)^2 on the mapped tensor Gauss points"""
    from pyvc.arrays import DOT
    t0, t1, x0, x1 = elem.box
    ht, hx = t1 - t0, x1 - x0
    g2 = ee.fields["gauss_2d"]
    n2 = z3.Int("n2")
    RES = eng.ghost["RES"]
    px, py = g2.fields["points"].items
    sq = NArr(n2, lambda i: RES(t0 + ht * to_real(px.elem(i)), x0 + hx * to_real(py.elem(i))) * RES(t0 + ht * to_real(px.elem(i)), x0 + hx * to_real(py.elem(i))))
    S = DOT(n2, sq.lam(), g2.fields["weights"].lam())
    l2 = ht * hx * S
    s = X.SQRT(ht)
    r0, r1 = eng.iter_concrete(result)
    # h_t^(-1/2) * l2 == sqrt(h_t) * h_x * S   and   h_x^(-1) * l2 == h_t * S
    return z3.And(to_real(r0) * s == l2, to_real(r1) * hx == l2)


contracts.append(Contract(
    EE + ":ErrorEstimator.weighted_l2", props=["C09"], setup=sc_weighted,
    ensures=[("(h_t^-1/2, h_x^-1) * squared L2 norm on the element", "weighted_spec(result, self, elem)")]))


def s_arc_in_piece(eng, gamma, a, b):
    if gamma is None:
        return True
    return b_and(num_cmp("<=", PS(gamma.term), a), num_cmp("<=", b, PE(gamma.term)))


def s_vec_eq(eng, u, v):
    return b_and(*[num_cmp("==", x, y) for x, y in zip(u.items, v.items)])


def install(eng):
    eng.spec_funcs["values_computed_in_this_call"] = s_values_computed_in_this_call
    eng.spec_funcs["connected"] = s_connected
    eng.spec_funcs["arc_in_piece"] = s_arc_in_piece
    eng.spec_funcs["vec_eq"] = s_vec_eq
    eng.spec_funcs["weighted_spec"] = s_weighted_spec
    np = eng.externals["np"].fn

    def allclose(e, u, v, **k):
        e.used_assumptions.add("X-ALLCLOSE: np.allclose(u, v) holds when u == v (reflexive; only that instance is used)")
        AC = z3.Function("ALLCLOSE", R, R, R, R, z3.BoolSort())
        t = AC(*[to_real(x) for x in list(u.items) + list(v.items)])
        e.assume(z3.Implies(s_vec_eq(e, u, v) if not isinstance(s_vec_eq(e, u, v), bool) else z3.BoolVal(s_vec_eq(e, u, v)), t))
        return t
    np["allclose"] = Ext("np.allclose", allclose)
    np["repeat"] = Ext("np.repeat", lambda e, v, m, axis=None: v)   # only the shapes matter inside residual_t / slo
    eng.externals["math"] = X.Ext("math", dict(eng.externals["math"].fn))
    eng.attr_hooks[("NArr", "shape")] = None


# ------------------------------------------------------------------------------------------
# estimate_sobolev: the symmetric accumulation ("each pair is evaluated once, by the element with the smaller index, and added
# to both") for three elements on a path graph 0 ~ 1 ~ 2, for every assignment of distinct global indices

import itertools as _it

PT = z3.Function("PATCH_TIME", I, I, R)       # patch value of the unordered pair (smaller glob_idx, larger glob_idx)
PSP = z3.Function("PATCH_SPACE", I, I, R)
NBRS = {0: [1], 1: [0, 2], 2: [1]}


def sc_estimate_sobolev(eng):
    scen = []
    for perm in _it.permutations((3, 5, 8)):
        def build(eng, perm=perm):
            elems = [Obj("Element", {"__module__": MESH, "glob_idx": perm[k], "ghost_k": k}, label="E%d" % k) for k in range(3)]
            ee = Obj("ErrorEstimator", {"__module__": EE, "cache_dir": None}, label="EE")
            eng.ghost.update(dict(elems=elems, perm=perm))
            return {"self": ee, "elems": VList(elems), "residual": Ext("residual", lambda e, *a: None), "use_mp": False}
        scen.append(dict(label="glob_idx={}".format(perm), args=build))
    return scen


def shortcut_result(fn):
    """contract of sobolev_time / sobolev_space with nbrs_symmetry=True: the pairs (self and neighbours) whose other index is
    not smaller than the element's own, each with its patch value; first component their sum"""
    def res(eng, base):
        env = eng.ghost_call_env
        e = env.lookup("elem")
        if env.lookup("nbrs_symmetry") is not True:
            raise OutsideSubset("accumulation contract expects nbrs_symmetry=True")
        elems = eng.ghost["elems"]
        k = e.fields["ghost_k"]
        gi = e.fields["glob_idx"]
        ips = []
        for j in [k] + NBRS[k]:
            gj = elems[j].fields["glob_idx"]
            if gi > gj:
                continue
            ips.append((gj, fn(z3.IntVal(min(gi, gj)), z3.IntVal(max(gi, gj)))))
        tot = z3.RealVal(0)
        for _, v in ips:
            tot = tot + v
        return (tot, VList(ips))
    return res


def s_accumulated(eng, result):
    """sobolev[i] == (sum over the element and its time neighbours... of the time patches, same for space): every pair counted
    once for each of its two elements, whatever the order of the global indices"""
    elems = eng.ghost["elems"]
    out = []
    for k in range(3):
        gi = elems[k].fields["glob_idx"]
        want_t, want_s = z3.RealVal(0), z3.RealVal(0)
        for j in [k] + NBRS[k]:
            gj = elems[j].fields["glob_idx"]
            a, b = z3.IntVal(min(gi, gj)), z3.IntVal(max(gi, gj))
            want_t, want_s = want_t + PT(a, b), want_s + PSP(a, b)
        row = result.rows[k]
        out += [to_real(row[0]) == want_t, to_real(row[1]) == want_s]
    return z3.And(*out)


accumulation_contracts = [
    Contract(EE + ":ErrorEstimator.sobolev_time", prop="C09", result=shortcut_result(PT)),
    Contract(EE + ":ErrorEstimator.sobolev_space", prop="C09", result=shortcut_result(PSP)),
    Contract(EE + ":ErrorEstimator.estimate_sobolev", props=["C09"], setup=sc_estimate_sobolev,
             ensures=[("every indicator is the sum over the element and its neighbours of the pair's patch value (symmetry shortcut is "
                       "transparent for every order of the global indices)", "accumulated(result)")]),
]


def install_accumulation(eng):
    from . import estimators as EST
    EST.install(eng)
    eng.spec_funcs["accumulated"] = s_accumulated
    np = eng.externals["np"].fn

    def zeros(e, shape):
        if isinstance(shape, tuple) and len(shape) == 2 and all(isinstance(x, int) for x in shape):
            return EST.MatC([[0] * shape[1] for _ in range(shape[0])])
        if isinstance(shape, int):
            return Vec([0] * shape)
        raise OutsideSubset("np.zeros shape")
    np["zeros"] = Ext("np.zeros", zeros)
