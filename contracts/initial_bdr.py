"""C16 — one descent step of InitialMesh.refine_msh_bdr (cut verification of the body of its `while True:` loop).

State at the cut: `children` are the four quadrants that `self.refine(parent)` returned in the previous step (contract of
InitialMesh.refine, proved in contracts/initial_mesh_local.py), the segment v0--v1 lies on one side of that parent and inside
one half of it.  Coordinates are integers in units of the segment's length (A-LATTICE as in C01: the segment is a dyadic
sub-interval of a root edge, so at every level it is [s, s + 1] against sides of even length 2P; `isclose` is equality on the
lattice and the tolerance eps is the argument 0).  Clauses:

  P == 1: the step returns the child whose edge on that line IS the segment;
  P  > 1: no return, `assert parent` holds, `parent` is the child with an edge on that line containing the segment, and
          `children` are the quadrants of that child (side P < 2P: the descent terminates after log2 steps).

The first sweep over all leaves (a leaf with an edge containing the segment exists: tiling of the domain) and the floating-point
tolerances are the bounded explorer's part."""
import ast as _ast

import z3

from pyvc.engine import Contract, Obj, Vec, VList, OutsideSubset, to_z3, b_and, b_or, num_cmp
from . import initial_mesh_local as L

IM = "src.initial_mesh"


def vtx(name, x, y):
    return Obj("Vertex", {"__module__": IM, "x": x, "y": y, "xy": (x, y), "xy_np": Vec([x, y]), "idx": -1}, label=name)


def square(name, x0, y0, h, parent=None, level=None):
    vs = (vtx(name + ".v0", x0, y0), vtx(name + ".v1", x0 + h, y0), vtx(name + ".v2", x0 + h, y0 + h), vtx(name + ".v3", x0, y0 + h))
    return Obj("Element", {"__module__": IM, "vertices": vs, "parent": parent, "level": level, "box": (x0, y0, h)}, label=name)


def quadrants(name, sq):
    x0, y0, h = sq.fields["box"]
    hh = z3.Int(name + "_half")
    return hh, [square(name + ".SW", x0, y0, hh, sq), square(name + ".SE", x0 + hh, y0, hh, sq),
                square(name + ".NE", x0 + hh, y0 + hh, hh, sq), square(name + ".NW", x0, y0 + hh, hh, sq)]


def refine_result(eng, base):
    """callee contract of InitialMesh.refine (proved separately): the four quadrants SW, SE, NE, NW of the element"""
    el = eng.ghost_call_env.lookup("element")
    hh, kids = quadrants("kid_of_" + el.label, el)
    x0, y0, h = el.fields["box"]
    eng.assume(z3.And(hh >= 1, 2 * hh == to_z3(h)))
    eng.ghost["refined"] = (el, kids)
    return VList(kids)


def select_loop_body(stmts):
    for st in stmts:
        if isinstance(st, _ast.While):
            return list(st.body)
    raise OutsideSubset("refine_msh_bdr: `while True:` loop not found")


SIDES = ("bottom", "right", "top", "left")


def sc_step(eng):
    scen = []
    for side in SIDES:
        def build(eng, side=side):
            x0, y0, P, s = z3.Ints("x0 y0 P s")
            eng.assume(P >= 1)
            par = square("parent", x0, y0, 2 * P)
            kids = [square("SW", x0, y0, P, par), square("SE", x0 + P, y0, P, par), square("NE", x0 + P, y0 + P, P, par),
                    square("NW", x0, y0 + P, P, par)]
            # the segment [s, s + 1] on the given side of the parent, inside the side
            if side in ("bottom", "top"):
                axis, c, lo = 1, (y0 if side == "bottom" else y0 + 2 * P), x0
                v0, v1 = Vec([s, c]), Vec([s + 1, c])
            else:
                axis, c, lo = 0, (x0 if side == "left" else x0 + 2 * P), y0
                v0, v1 = Vec([c, s]), Vec([c, s + 1])
            eng.assume(z3.And(lo <= s, s + 1 <= lo + 2 * P))
            m = Obj("InitialMesh", {"__module__": IM}, label="mesh")
            eng.ghost.update(dict(kids=kids, side=side, P=P, s=s, c=c, axis=axis, lo=lo))
            return {"self": m, "v0": v0, "v1": v1, "eps": 0, "axis": axis, "n_axis": 1 - axis, "children": VList(kids)}
        scen.append(dict(label=side, args=build))
    return scen


def _edge_on_line(eng, el, g):
    """(lo, hi) of the edge of square `el` lying on the segment's line, or None"""
    x0, y0, h = el.fields["box"]
    if g["axis"] == 1:      # horizontal line y == c: bottom edge if y0 == c, top edge if y0 + h == c
        return x0, x0 + h, z3.Or(y0 == g["c"], y0 + h == g["c"])
    return y0, y0 + h, z3.Or(x0 == g["c"], x0 + h == g["c"])


def s_step_post(eng, part, result, parent, children):
    g = eng.ghost
    P, s = g["P"], g["s"]
    kids = g["kids"]
    if part == "returns-the-child-whose-edge-is-the-segment":
        if result is None:
            return P > 1
        if not any(result is k for k in kids):
            return False
        lo, hi, on = _edge_on_line(eng, result, g)
        return z3.And(P == 1, on, lo == s, hi == s + 1)
    if part == "descends-into-the-child-containing-the-segment":
        if result is not None:
            return P == 1
        if parent is None or not any(parent is k for k in kids):
            return False
        lo, hi, on = _edge_on_line(eng, parent, g)
        ref = g.get("refined")
        ok = ref is not None and ref[0] is parent and [k for k in eng.iter_concrete(children)] == ref[1]
        return z3.And(P > 1, on, lo <= s, s + 1 <= hi, z3.BoolVal(bool(ok)))
    raise OutsideSubset(part)


contracts = [
    Contract(IM + ":InitialMesh.refine", prop="C16", result=refine_result),
    Contract(IM + ":InitialMesh.refine_msh_bdr", props=["C16"], setup=sc_step, body_select=select_loop_body,
             ensures=[("side of length 2: the step returns the child whose edge on that line is the segment",
                       "bdr_step_post('returns-the-child-whose-edge-is-the-segment', result, parent, children)"),
                      ("longer side: `assert parent` holds, parent := the child with an edge containing the segment, children := its quadrants",
                       "bdr_step_post('descends-into-the-child-containing-the-segment', result, parent, children)")]),
]


def install(eng):
    L.install(eng)
    eng.spec_funcs["bdr_step_post"] = s_step_post
    iscl = __import__("pyvc.externals", fromlist=["Ext"]).Ext("isclose", lambda e, a, b, **k: num_cmp("==", a, b))
    eng.externals["isclose"] = iscl
    eng.externals["math.isclose"] = iscl
    eng.used_assumptions.add("refine_msh_bdr descent step: integer lattice coordinates in units of the segment's length (dyadic segment), "
                             "isclose == equality on the lattice, eps = 0, children = quadrants of the previous parent (contract of "
                             "InitialMesh.refine); the first sweep over all leaves and the float tolerances are bounded only")
