"""C16 — local contracts of src/initial_mesh.py (bisect_edge, child construction in refine) with enumerated heap shapes."""
import ast as _ast

import z3

from pyvc.engine import Contract, Obj, Vec, VList, Ext, OutsideSubset, to_z3, to_real, b_and, b_or, num_cmp
from . import common as C

IM = "src.initial_mesh"


def vtx(name, x=None, y=None, idx=-1):
    x = x if x is not None else z3.Real(name + "_x")
    y = y if y is not None else z3.Real(name + "_y")
    return Obj("Vertex", {"__module__": IM, "x": x, "y": y, "xy": (x, y), "xy_np": None, "idx": idx}, label=name)


def mesh_obj(vertices):
    return Obj("InitialMesh", {"__module__": IM, "vertices": VList(list(vertices)), "_InitialMesh__bisect_edge": {}, "parent_edge": {},
                               "elements": VList([]), "leaf_elements": set(), "nbrs": {}}, label="mesh")


def sc_bisect_edge(eng):
    scen = []
    for shape in ("fresh", "reverse-already-bisected"):
        for axis in ("horizontal", "vertical"):
            def build(eng, shape=shape, axis=axis):
                a, b = vtx("a"), vtx("b")
                if axis == "horizontal":
                    eng.assume(z3.And(a.fields["y"] == b.fields["y"], a.fields["x"] != b.fields["x"]))
                else:
                    eng.assume(z3.And(a.fields["x"] == b.fields["x"], a.fields["y"] != b.fields["y"]))
                m = mesh_obj([a, b])
                shared = None
                if shape == "reverse-already-bisected":
                    shared = vtx("mid", (to_real(a.fields["x"]) + to_real(b.fields["x"])) / 2, (to_real(a.fields["y"]) + to_real(b.fields["y"])) / 2, idx=2)
                    m.fields["vertices"].items.append(shared)
                    m.fields["_InitialMesh__bisect_edge"][(b, a)] = shared
                eng.ghost.update(dict(a=a, b=b, mesh=m, shared=shared, n0=len(m.fields["vertices"].items)))
                return {"self": m, "a": a, "b": b}
            scen.append(dict(label="{}/{}".format(shape, axis), args=build))
    return scen


def s_bisect_post(eng, result, part):
    g = eng.ghost
    a, b, m, shared = g["a"], g["b"], g["mesh"], g["shared"]
    if part == "midpoint":
        return b_and(num_cmp("==", result.fields["x"], (to_real(a.fields["x"]) + to_real(b.fields["x"])) / 2),
                     num_cmp("==", result.fields["y"], (to_real(a.fields["y"]) + to_real(b.fields["y"])) / 2))
    if part == "shared":
        vs = m.fields["vertices"].items
        if shared is not None:
            return result is shared and len(vs) == g["n0"]
        return len(vs) == g["n0"] + 1 and vs[-1] is result and result.fields["idx"] == g["n0"]
    if part == "maps":
        be, pe = m.fields["_InitialMesh__bisect_edge"], m.fields["parent_edge"]
        return be.get((a, b)) is result and pe.get((a, result)) == (a, b) and pe.get((result, b)) == (a, b)
    raise OutsideSubset(part)


contracts = []
contracts.append(Contract(
    IM + ":InitialMesh.bisect_edge", props=["C16"], setup=sc_bisect_edge,
    ensures=[("midpoint of the edge", "ibisect_post(result, 'midpoint')"),
             ("midpoint shared with the reversed edge if that was bisected, else a new vertex with idx == old length", "ibisect_post(result, 'shared')"),
             ("bisection and parent-edge maps record (a, b)", "ibisect_post(result, 'maps')")]))


def select_after_balance(stmts):
    for k, st in enumerate(stmts):
        if isinstance(st, _ast.For):
            return stmts[k + 1:]
    raise OutsideSubset("InitialMesh.refine: balance loop not found")


def sc_refine(eng):
    scen = []
    # which of the four edges were already bisected from the other side (neighbour refined earlier): all 16 subsets
    for mask in range(16):
        def build(eng, mask=mask):
            x0, y0, h = z3.Reals("x0 y0 h")
            eng.assume(h > 0)
            vs = [vtx("v0", x0, y0, 0), vtx("v1", x0 + h, y0, 1), vtx("v2", x0 + h, y0 + h, 2), vtx("v3", x0, y0 + h, 3)]
            m = mesh_obj(vs)
            lvl = z3.Int("level")
            el = Obj("Element", {"__module__": IM, "vertices": tuple(vs), "parent": None, "level": lvl}, label="elem")
            other = Obj("Element", {"__module__": IM, "vertices": (), "level": lvl}, label="other")
            m.fields["elements"].items.extend([other, el])
            m.fields["leaf_elements"].update([other, el])
            shared = {}
            for i in range(4):
                if mask & (1 << i):
                    a, b = vs[i], vs[(i + 1) % 4]
                    mid = vtx("mid%d" % i, (to_real(a.fields["x"]) + to_real(b.fields["x"])) / 2,
                              (to_real(a.fields["y"]) + to_real(b.fields["y"])) / 2, idx=len(m.fields["vertices"].items))
                    m.fields["vertices"].items.append(mid)
                    m.fields["_InitialMesh__bisect_edge"][(b, a)] = mid
                    shared[i] = mid
            eng.ghost.update(dict(el=el, mesh=m, other=other, box=(x0, y0, h), shared=shared))
            return {"self": m, "element": el}
        scen.append(dict(label="shared-midpoints-mask={:04b}".format(mask), args=build))
    return scen


def s_refine_post(eng, result, part):
    g = eng.ghost
    el, m, (x0, y0, h) = g["el"], g["mesh"], g["box"]
    kids = eng.iter_concrete(result)
    if len(kids) != 4:
        return False
    hh = h / 2
    want = [(x0, y0), (x0 + hh, y0), (x0 + hh, y0 + hh), (x0, y0 + hh)]      # SW, SE, NE, NW quadrants, in this order
    if part == "quadrants":
        out = []
        for c, (cx, cy) in zip(kids, want):
            v = eng.iter_concrete(c.fields["vertices"])
            out += [num_cmp("==", v[0].fields["x"], cx), num_cmp("==", v[0].fields["y"], cy),
                    num_cmp("==", v[2].fields["x"], cx + hh), num_cmp("==", v[2].fields["y"], cy + hh)]
        return b_and(*out)
    if part == "tree":
        return b_and(*[b_and(c.fields["parent"] is el, num_cmp("==", c.fields["level"], el.fields["level"] + 1)) for c in kids])
    if part == "bookkeeping":
        leaves = m.fields["leaf_elements"]
        ok = (el not in leaves and g["other"] in leaves and all(c in leaves for c in kids) and len(leaves) == 5
              and all(any(c is e for e in m.fields["elements"].items) for c in kids))
        nb = m.fields["nbrs"]
        for c in kids:
            v = eng.iter_concrete(c.fields["vertices"])
            for i in range(4):
                if nb.get((v[i], v[(i + 1) % 4])) is not c:
                    ok = False
        return ok
    if part == "shared":
        # midpoints already created from the neighbouring side are reused: no two vertices with the same coordinates
        vs = m.fields["vertices"].items
        mids = g["shared"]
        ok = True
        for i, mid in mids.items():
            uses = [c for c in kids if any(v is mid for v in eng.iter_concrete(c.fields["vertices"]))]
            ok = ok and len(uses) == 2
        return ok and len(vs) == 4 + len(mids) + (4 - len(mids)) + 1
    raise OutsideSubset(part)


contracts.append(Contract(
    IM + ":InitialMesh.refine", props=["C16"], setup=sc_refine, body_select=select_after_balance,
    ensures=[("four children are the quadrants (SW, SE, NE, NW) around the centre", "irefine_post(result, 'quadrants')"),
             ("children: parent = element, level + 1", "irefine_post(result, 'tree')"),
             ("leaf set / element list / edge->element map updated for exactly the children", "irefine_post(result, 'bookkeeping')"),
             ("edge midpoints created earlier from the neighbouring side are reused (vertex uniqueness)", "irefine_post(result, 'shared')")]))


def _py_container_attr(eng, base, attr):
    if isinstance(base, set) and attr in ("remove", "update", "add"):
        def call(e, *args):
            if attr == "update":
                base.update(e.iter_concrete(args[0]))
            elif attr == "remove":
                if args[0] not in base:
                    e.oblige("set.remove/member-present", False)
                base.remove(args[0])
            else:
                base.add(args[0])
        return Ext("set." + attr, call)
    return NotImplemented


def install(eng):
    eng.spec_funcs["ibisect_post"] = s_bisect_post
    eng.spec_funcs["irefine_post"] = s_refine_post
    cls = type(eng)
    if _py_container_attr not in cls.getattr_hooks:
        cls.getattr_hooks = list(cls.getattr_hooks) + [_py_container_attr]
    eng.externals["isclose"] = eng.externals["math.isclose"]
    eng.used_assumptions.add("InitialMesh.refine is verified from the statement after the 2:1-balance loop (cut), for every subset of edges whose "
                             "midpoint already exists from the neighbouring side; the parent is an exact square (ideal arithmetic); balance and "
                             "boundary targeting are the bounded explorer's part")
