"""C20 — the hierarchical and the h-h/2 estimator for element lists of ARBITRARY length N (removes the 'N = 2, loops unrolled'
restriction of contracts/estimators.py; that version stays as the fully unfolded cross-check).

Ghost vocabulary: the coarse list is EL(0..N-1), the density PHI(0..N-1).  The virtual quartering creates fresh objects, so a
quarter is identified by its position 4 i + k in the flattened list (kind 1), a coarse element by EL(i) (kind 0).
BILh(kind_trial, id_trial, kind_test, id_test) names bilform (pure, A-DET), GLF / M0F the data linforms per quarter.

  HIER0(p), HIER1(p)   definition (instantiated at the loop's current index, conservative extension):
      data(r) = [GLF(r)] - [M0F(r)]            vphi(r) = sum_c BILh(0, EL(c), 1, r) PHI(c)    (= DOT over the coarse list)
      e_psi   = |sum_k psi_k (data - vphi)(4p + k)|^2 / sum_{a,b} psi_a psi_b BILh(1, 4p + b, 1, 4p + a)
      HIER0(p) = e_time + e_ts / 2,  HIER1(p) = e_space + e_ts / 2,
      psi_time = (+,+,-,-), psi_space = (+,-,+,-), psi_ts = (+,-,-,+)  on the quarters (time half k // 2, space half k % 2)

The outer loop carries the quantified invariant  forall p < ki: estims[p] == (HIER0(p), HIER1(p))."""
import z3

from pyvc.engine import Contract, LoopContract, Obj, Ref, Vec, VList, SymSeq, SList, Ext, OutsideSubset, to_z3, to_real
from pyvc import extio, externals as X
from pyvc.arrays import NArr, DOT, mk_lambda
from .estimators import MatC, _matmul as small_matmul

HE = "src.hierarchical_error_estimator"
HH = "src.h_h2_error_estimator"
I, R = z3.IntSort(), z3.RealSort()
EL = z3.Function("ELh", I, I)
PHI = z3.Function("PHIh", I, R)
BILh = z3.Function("BILh", I, I, I, I, R)
GLF = z3.Function("GLFh", I, I, R)
M0F = z3.Function("M0Fh", I, I, R)
HT, HX, T0, X0 = (z3.Function(n, I, R) for n in ("HTh", "HXh", "T0h", "X0h"))
PIECE = z3.Function("PIECEh", I, I)
HIER = [z3.Function("HIER0", I, R), z3.Function("HIER1", I, R)]
N = z3.Int("N")
Pair = z3.Datatype("PairRR")
Pair.declare("mk", ("fst", R), ("snd", R))
Pair = Pair.create()
PATTERNS = ([1, 1, -1, -1], [1, -1, 1, -1], [1, -1, -1, 1])


def celem(term):
    return Ref("Elem", term, attrs={"h_t": HT(term), "h_x": HX(term), "time_interval": (T0(term), T0(term) + HT(term)),
                                    "space_interval": (X0(term), X0(term) + HX(term)), "gamma_space": Ref("Piece", PIECE(term))})


def delem(t):
    """quarter at position t of the flattened list: quarter t % 4 of coarse element t // 4 (geometry as proved for
    DummyElement.uniform_refinement in contracts/estimators.py)"""
    t = to_z3(t)
    i = t / 4
    k = t - 4 * i
    par = EL(i)
    ht, hx = HT(par) / 2, HX(par) / 2
    ta = T0(par) + z3.If(k >= 2, ht, z3.RealVal(0))
    xa = X0(par) + z3.If(z3.Or(k == 1, k == 3), hx, z3.RealVal(0))
    return Ref("DElem", t, attrs={"h_t": ht, "h_x": hx, "time_interval": (ta, ta + ht), "space_interval": (xa, xa + hx),
                                  "gamma_space": Ref("Piece", PIECE(par))})


def kind(ref):
    if not isinstance(ref, Ref) or ref.sort not in ("Elem", "DElem"):
        raise OutsideSubset("bilform / linform on %r" % (ref,))
    return z3.IntVal(0 if ref.sort == "Elem" else 1)


def bil(tr, te):
    return BILh(kind(tr), tr.term, kind(te), te.term)


def quarter_result(eng, base):
    env = eng.ghost_call_env
    elems = env.lookup("elems")
    calls = eng.ghost.setdefault("quarter_calls", [])
    if calls and calls[0] is not elems:
        raise OutsideSubset("a second virtual quartering of a different list")
    calls.append(elems)
    if not isinstance(elems, SymSeq):
        raise OutsideSubset("virtual quartering of a concrete list in the any-N contract")
    return SymSeq(elems.length, lambda i: VList([delem(4 * to_z3(i) + k) for k in range(4)]), "elem_2_children")


def _as_seq(v):
    return v if isinstance(v, SymSeq) and getattr(v, "items", None) is None else None


def bilform_matrix_result(eng, base):
    env = eng.ghost_call_env
    test = env.lookup("elems_test")
    trial = env.lookup("elems_trial") if env.lookup("elems_trial") is not None else test
    st, sr = _as_seq(test), _as_seq(trial)
    if st is None and sr is None:
        te, tr = eng.iter_concrete(test), eng.iter_concrete(trial)
        m = MatC([[bil(b, a) for b in tr] for a in te])
        if len(te) == 4 and len(tr) == 4 and all(a.sort == b.sort and to_z3(a.term).eq(to_z3(b.term)) for a, b in zip(te, tr)):
            # C13 (assumed): positive two-level energies of a 4 x 4 block of quarters
            for pat in PATTERNS:
                q = z3.RealVal(0)
                for a in range(4):
                    for b in range(4):
                        q = q + pat[a] * pat[b] * m.rows[a][b]
                eng.assume(q > 0)
        return m
    if st is None or sr is None:
        raise OutsideSubset("bilform_matrix of one concrete and one symbolic list")
    return extio.Mat(st.length, sr.length, lambda i, j: bil(sr.elem(to_z3(j)), st.elem(to_z3(i))), "SLmat")


def lin_vec(F):
    def f(eng, es):
        s = _as_seq(es)
        if s is None:
            return Vec([F(kind(e), e.term) for e in eng.iter_concrete(es)])
        return NArr(s.length, lambda i: F(kind(s.elem(to_z3(i))), s.elem(to_z3(i)).term), F.name())
    return f


def linform_vector_result(eng, base):
    return lin_vec(M0F)(eng, eng.ghost_call_env.lookup("elems"))


def _big_matmul(eng, op, a, b):
    """X-DOT: Mat @ vector, vector @ Mat, vector @ vector as DOT terms over the shared dimension"""
    if op != "@":
        return NotImplemented
    if isinstance(a, extio.Mat) and isinstance(b, NArr):
        if not eng.spec_mode:
            eng.oblige("matmul-shapes-agree", to_z3(a.M) == to_z3(b.length))
        return NArr(a.N, lambda r: DOT(to_z3(a.M), _lam(lambda c: a.elem(r, c)), b.lam()), "matvec")
    if isinstance(a, NArr) and isinstance(b, extio.Mat):
        if not eng.spec_mode:
            eng.oblige("matmul-shapes-agree", to_z3(a.length) == to_z3(b.N))
        return NArr(b.M, lambda c: DOT(to_z3(b.N), a.lam(), _lam(lambda r: b.elem(r, c))), "vecmat")
    if isinstance(a, NArr) and isinstance(b, NArr):
        if not eng.spec_mode:
            eng.oblige("matmul-shapes-agree", to_z3(a.length) == to_z3(b.length))
        return DOT(to_z3(a.length), a.lam(), b.lam())
    return NotImplemented


def _lam(f):
    return mk_lambda(f)


def _getattr_hook(eng, base, attr):
    if isinstance(base, NArr) and attr == "T":
        return base
    return NotImplemented


def pair_list(eng, base):
    f = z3.Function("{}!{}".format(base, next(eng.fresh_counter)), I, Pair)
    n = eng.fresh(base + "_len", "Int")
    eng.assume(n >= 0)
    return SList(n, lambda i: f(to_z3(i)), lambda t: (Pair.fst(t), Pair.snd(t)),
                 lambda v: Pair.mk(to_real(v[0]), to_real(v[1])), label=base)


def sc_hier(eng):
    def build(eng):
        eng.assume(N >= 0)
        elems = SymSeq(N, lambda i: celem(EL(to_z3(i))), "elems")
        phi = NArr(N, lambda i: PHI(to_z3(i)), "Phi")
        which = eng.choose(4, "data")
        g = Ext("g", lin_vec(GLF)) if which in (0, 1) else None
        M0 = Obj("InitialOperator", {"__module__": "src.initial_potential"}, label="M0") if which in (0, 2) else None
        SLo = Obj("SingleLayerOperator", {"__module__": "src.single_layer"}, label="SL")
        eng.ghost["which"] = which
        return {"SL": SLo, "M0": M0, "g": g, "elems": elems, "Phi": phi}

    def hier(eng):
        a = build(eng)
        slf = Obj("HierarchicalErrorEstimator", {"__module__": HE, "SL": a["SL"], "M0": a["M0"], "g": a["g"]}, label="H")
        return {"self": slf, "elems": a["elems"], "Phi": a["Phi"]}
    return [dict(label="", args=hier)]


def sc_hh2(eng):
    def build(eng):
        eng.assume(N >= 1)
        elems = SymSeq(N, lambda i: celem(EL(to_z3(i))), "elems")
        phi = NArr(N, lambda i: PHI(to_z3(i)), "Phi")
        which = eng.choose(4, "data")
        g = Ext("g", lin_vec(GLF)) if which in (0, 1) else None
        M0 = Obj("InitialOperator", {"__module__": "src.initial_potential"}, label="M0") if which in (0, 2) else None
        SLo = Obj("SingleLayerOperator", {"__module__": "src.single_layer"}, label="SL")
        eng.ghost["which"] = which
        slf = Obj("HH2ErrorEstimator", {"__module__": HH, "SL": SLo, "M0": M0, "g": g, "use_mp": z3.Bool("use_mp")}, label="HH2")
        return {"self": slf, "elems": elems, "Phi": phi}
    return [dict(label="", args=build)]


def data_at(eng, r):
    which = eng.ghost["which"]
    d = z3.RealVal(0)
    if which in (0, 1):
        d = d + GLF(z3.IntVal(1), r)
    if which in (0, 2):
        d = d - M0F(z3.IntVal(1), r)
    return d


def hier_def(eng, p, part):
    p = to_z3(p)
    one, zero = z3.IntVal(1), z3.IntVal(0)
    phi_lam = _lam(lambda c: PHI(c))

    def vphi(r):
        return DOT(N, _lam(lambda c: BILh(zero, EL(c), one, r)), phi_lam)
    es = []
    for pat in PATTERNS:
        num = z3.RealVal(0)
        vnum = z3.RealVal(0)
        for k in range(4):
            num = num + data_at(eng, 4 * p + k) * pat[k]
            vnum = vnum + vphi(4 * p + k) * pat[k]
        num = num - vnum
        den = z3.RealVal(0)
        for a in range(4):
            for b in range(4):
                den = den + pat[a] * pat[b] * BILh(one, 4 * p + b, one, 4 * p + a)
        absn = z3.If(num >= 0, num, -num)
        es.append(absn * absn / den)
    return es[part] + es[2] / 2


def s_HIER(eng, p, part):
    return HIER[part](to_z3(p))


def s_HIERDEF(eng, p):
    """the ground instance at p of the definition of HIER0 / HIER1"""
    p = to_z3(p)
    return z3.And(HIER[0](p) == hier_def(eng, p, 0), HIER[1](p) == hier_def(eng, p, 1))


def s_AT(eng, lst, p, c):
    """component c of item p of a list of pairs; on a concrete (python) list an if-then-else over its items, arbitrary outside"""
    if isinstance(lst, SymSeq) and getattr(lst, "items", None) is None:
        return lst.elem(to_z3(p))[c]
    out = eng.fresh("outside", "Real")
    for k, it in reversed(list(enumerate(eng.iter_concrete(lst)))):
        out = z3.If(to_z3(p) == k, to_real(eng.iter_concrete(it)[c]), out)
    return out


def solve_ext(eng, A, b):
    eng.used_assumptions.add("X-SOLVE: np.linalg.solve(A, b) returns x with A x = b (A non-singular: C13, assumed)")
    if not (isinstance(A, extio.Mat) and isinstance(b, NArr)):
        raise OutsideSubset("np.linalg.solve on %r, %r" % (type(A).__name__, type(b).__name__))
    if not eng.spec_mode:
        eng.oblige("np.linalg.solve/square-system-matching-rhs", z3.And(to_z3(A.N) == to_z3(A.M), to_z3(A.N) == to_z3(b.length)))
    x = extio.fresh_arr(eng, "xsol", b.length)
    eng.ghost["solve_args"] = (A, b, x)
    return x


def s_hh2_spec(eng, result, part):
    """h-h/2 value == sqrt((d^T A) d) with A[r, s] = bilform(trial quarter s, test quarter r) on the 4N quarters, d = y - E Phi,
    y the solution of A y = g - M0u0 on the quarters, (E Phi)[r] = Phi[r // 4]"""
    if "solve_args" not in eng.ghost:
        return z3.BoolVal(False)
    A, b, x = eng.ghost["solve_args"]
    one = z3.IntVal(1)
    if part == "system":
        # arbitrary row / column (fresh constants): validity of the instance is validity of the universally quantified clause, and a
        # failing instance comes with a model
        r, s = eng.fresh("row", "Int"), eng.fresh("col", "Int")
        return z3.And(to_z3(A.N) == 4 * N, to_z3(A.M) == 4 * N, to_z3(b.length) == 4 * N,
                      z3.Implies(z3.And(0 <= r, r < 4 * N, 0 <= s, s < 4 * N),
                                 z3.And(to_real(A.elem(r, s)) == BILh(one, s, one, r), to_real(b.elem(r)) == data_at(eng, r))))
    d = lambda q: to_real(x.elem(q)) - PHI(to_z3(q) / 4)
    dl = _lam(d)
    row = lambda c: DOT(4 * N, dl, _lam(lambda q: BILh(one, c, one, q)))
    want = X.SQRT(DOT(4 * N, _lam(row), dl))
    return to_real(result) == want


def replay_c20(mv, sc, ob):
    """abstract counter-models (uninterpreted element lists) have no concrete pre-image: the replay drives the real estimators
    on really bisected meshes (the bounded comparison) and reports what fails there"""
    return ("from bounded import estimator_rel as E\nfrom vlib.core import Check\nchk = Check('C20', 'quick', 0, 'proof', 'replay')\n"
            "E.run_c20(chk, 'quick', 0)\nobserved = [o.name for o in chk.obs if o.status == 'failed'][:5]\n"
            "violated = len(observed) > 0\n")


OUTER_MODIFIES = {"estims": pair_list, "i": "Int", "elem_coarse": lambda e, b: celem(e.fresh("ec", "Int"))}
for _n in ("S", "children", "estim_loc", "k", "coefs", "rhs_estim", "V_estim", "j", "c", "scaling_estim"):
    OUTER_MODIFIES[_n] = (lambda e, b: None)

INV = ("forall1(lambda p: implies(And(0 <= p, p < ki), "
       "And(AT(estims, p, 0) == HIER(p, 0), AT(estims, p, 1) == HIER(p, 1), AT(estims, p, 0) >= 0, AT(estims, p, 1) >= 0)))")
POST = ("forall1(lambda p: implies(And(0 <= p, p < len(elems)), "
        "And(result[p][0] == HIER(p, 0), result[p][1] == HIER(p, 1))))")
POSTNN = "forall1(lambda p: implies(And(0 <= p, p < len(elems)), And(result[p][0] >= 0, result[p][1] >= 0)))"

hier_contracts = [
    Contract(HE + ":DummyElement.uniform_refinement", prop="C20", result=quarter_result),
    Contract("src.single_layer:SingleLayerOperator.bilform_matrix", prop="C17", result=bilform_matrix_result),
    Contract("src.initial_potential:InitialOperator.linform_vector", prop="C17", result=linform_vector_result),
    Contract(HE + ":HierarchicalErrorEstimator.estimate", props=["C20"], setup=sc_hier,
             ensures=[("any N: one indicator pair per coarse element", "len(result) == len(elems)"),
                      ("any N: element p gets (e_time + e_ts/2, e_space + e_ts/2), e_psi = |<g - M0u0 - V Phi, psi>|^2 / <V psi, psi> on its "
                       "own four quarters", POST),
                      ("any N: indicators non-negative", POSTNN)],
             loops={0: LoopContract(index="ki", invariant=[("prefix equals the definition", INV), ("length", "len(estims) == ki")],
                                    unfold=[("definition of HIER0 / HIER1 at the current element", "HIERDEF(ki)")],
                                    modifies=OUTER_MODIFIES)},
             replay=replay_c20),
]
hier_contracts[-1].replay_on_unknown = replay_c20

hh2_contracts = [
    Contract(HE + ":DummyElement.uniform_refinement", prop="C20", result=quarter_result),
    Contract("src.single_layer:SingleLayerOperator.bilform_matrix", prop="C17", result=bilform_matrix_result),
    Contract("src.initial_potential:InitialOperator.linform_vector", prop="C17", result=linform_vector_result),
    Contract(HH + ":HH2ErrorEstimator.estimate", props=["C20"], setup=sc_hh2,
             ensures=[("any N: the fine system is A[r, s] = <V 1_s, 1_r> on the 4N quarters with load g - M0u0", "hh2n_spec(result, 'system')"),
                      ("any N: value == sqrt(d^T A d), d = fine Galerkin solution - piecewise-constant extension", "hh2n_spec(result, 'value')")],
             replay=replay_c20),
]
hh2_contracts[-1].replay_on_unknown = replay_c20


def install(eng):
    cls = type(eng)
    if small_matmul not in cls.arith_hooks:
        cls.arith_hooks = [small_matmul] + list(cls.arith_hooks)
    if _big_matmul not in cls.arith_hooks:
        cls.arith_hooks = [_big_matmul] + list(cls.arith_hooks)
    if _getattr_hook not in cls.getattr_hooks:
        cls.getattr_hooks = list(cls.getattr_hooks) + [_getattr_hook]
    eng.ref_rebuild_hooks = dict(eng.ref_rebuild_hooks)
    eng.ref_rebuild_hooks["DElem"] = lambda e, term: delem(term)
    from .assembly import forall_n
    eng.spec_funcs.update({"forall1": forall_n(1), "HIER": s_HIER, "HIERDEF": s_HIERDEF, "AT": s_AT, "hh2n_spec": s_hh2_spec})
    np = eng.externals["np"].fn

    def array(e, v, *a, **k):
        if isinstance(v, SymSeq) and getattr(v, "items", None) is None:
            return v
        return Vec(e.iter_concrete(v))
    np["array"] = Ext("np.array", array)
    np["linalg"] = Ext("linalg", {"solve": Ext("solve", solve_ext)})
    eng.used_assumptions.add("C13 (assumed, not_applicable): the two-level energies <V psi, psi> of every 4x4 block of quarters are "
                             "positive; the fine Galerkin matrix is non-singular")
    eng.used_assumptions.add("any-N estimator contracts: bilform / linform / g-linform are uninterpreted functions of element identity "
                             "(a quarter is identified by its position 4 i + k in the flattened list: the quartering creates fresh objects); "
                             "HIER0/HIER1 are introduced by their definition, instantiated at the loop's current index")
