"""C03 — ErrorEstimator.residual for an element list of ARBITRARY length (removes the 'two elements' restriction of the driver
contract for the residual): the closure returned by `residual(elems, Phi, SL, M0u0, g, SL_exact_eval)` evaluated on a batch of two
arbitrary points of an arbitrary piece equals, entry by entry,

    PS(N; t, x_hat) + M0u0(t, gamma(x_hat)) - g(t, gamma(x_hat)),
    PS(0; t, x) = 0,   PS(k + 1; t, x) = PS(k; t, x) + Phi[k] * (EVAL(elems[k], t, x) if t > T0(elems[k]) else 0)

(a recursive spec function = the definition of sum_j Phi_j (V 1_j)(t, x) in the element order of the list; its definition is
instantiated where a clause mentions it, so the queries are quantifier-free).  The inner loop over
the trial elements carries the invariant VPhi == PS(kj; t, x_hat)."""
import z3

from pyvc.engine import Contract, LoopContract, Obj, Ref, Vec, VList, Ext, SymSeq, to_real, to_z3
from pyvc import extio
from . import common as C

I, R = z3.IntSort(), z3.RealSort()
EL = z3.Function("EL", I, I)                      # the element list
PHI = z3.Function("PHI", I, R)                    # the density
T0 = z3.Function("T0n", I, R)
T1 = z3.Function("T1n", I, R)
PIECE = z3.Function("PIECEn", I, I)
EVAL = z3.Function("EVALn", I, R, R, R)           # (V 1_e)(t, gamma(x_hat))
M0U0 = z3.Function("M0U0n", R, R, R, R)
GFUN = z3.Function("GFUNn", R, R, R, R)
PS = z3.Function("PS", I, R, R, R)
N = z3.Int("N")


def elem_ref(term):
    return Ref("Elem", term, attrs={"time_interval": (T0(term), T1(term)),
                                    "gamma_space": Ref("Piece", PIECE(term), call=point_call)})


def point_call(eng, ref, args):
    xh = args[0]
    pts = [Vec([C.GX(ref.term, to_real(x)), C.GY(ref.term, to_real(x))]) for x in eng.iter_concrete(xh)]
    return Obj("PointArray", {"T": VList(pts)})


def eval_result(eng, env):
    e, t = env.lookup("elem_trial"), env.lookup("t")
    xh = env.lookup("x_hat") if env.has("x_hat") else env.lookup("x")
    return EVAL(e.term, to_real(t), to_real(xh))


def sc_residual(eng):
    scen = []
    for data in ("M0+g", "M0-only", "g-only", "none"):
        def build(eng, data=data):
            eng.assume(N >= 0)
            elems = SymSeq(N, lambda i: elem_ref(EL(to_z3(i))), "elems")
            phi = extio.NArr(N, lambda i: PHI(to_z3(i)), "Phi")
            has_m0, has_g = data in ("M0+g", "M0-only"), data in ("M0+g", "g-only")
            M0u0 = Ext("M0u0", lambda e, t, x: M0U0(to_real(t), to_real(x.items[0]), to_real(x.items[1]))) if has_m0 else None
            g = Ext("g", lambda e, t, x: GFUN(to_real(t), to_real(x.items[0]), to_real(x.items[1]))) if has_g else None
            SL = Obj("SingleLayerOperator", {"__module__": "src.single_layer"}, label="SL")
            ee = Obj("ErrorEstimator", {"__module__": "src.error_estimator"}, label="EE")
            eng.ghost.update(dict(has_m0=has_m0, has_g=has_g))
            return dict(self=ee, elems=elems, Phi=phi, SL=SL, M0u0=M0u0, g=g, SL_exact_eval=z3.Bool("SL_exact_eval"))
        scen.append(dict(label=data, args=build))
    return scen


def s_residual_spec(eng, residual):
    g = eng.ghost
    saved = eng.spec_mode
    eng.spec_mode = 0
    try:
        tqs = [eng.fresh("tq", "Real"), eng.fresh("tq", "Real")]
        xqs = [eng.fresh("xq", "Real"), eng.fresh("xq", "Real")]
        gam = Ref("Piece", eng.fresh("piece", "Int"), call=point_call)
        eng.externals["POINT_PIECE"] = gam
        r = eng.call(residual, [Vec(tqs), Vec(xqs), gam])
        out = []
        for k, (tq, xq) in enumerate(zip(tqs, xqs)):
            want = PS(N, tq, xq)
            gx, gy = C.GX(gam.term, xq), C.GY(gam.term, xq)
            if g["has_m0"]:
                want = want + M0U0(tq, gx, gy)
            if g["has_g"]:
                want = want - GFUN(tq, gx, gy)
            val = r.items[k] if hasattr(r, 'items') else r.elem(z3.IntVal(k))
            out.append(to_real(val) == want)
        return z3.And(*out)
    finally:
        eng.spec_mode = saved


contracts = [
    Contract("src.single_layer:SingleLayerOperator._init_elems", prop="C07", result=lambda e, b: None),
    Contract("src.single_layer:SingleLayerOperator.evaluate", prop="C07", result_term=eval_result,
             literal_cases=[("t <= elem_trial.time_interval[0]", 0)]),
    Contract("src.single_layer:SingleLayerOperator.evaluate_exact", prop="C07", result_term=eval_result,
             requires=[("point-on-the-same-straight-piece-as-the-trial-element", "elem_trial.gamma_space is POINT_PIECE")],
             literal_cases=[("t <= elem_trial.time_interval[0]", 0)]),
    Contract("src.error_estimator:ErrorEstimator.residual", props=["C03"], setup=sc_residual,
             ensures=[("for element lists of any length: every entry of a two-point batch == sum_j Phi_j (V 1_j) + M0u0 - g at its own point, "
                       "list order, causality skip harmless", "residual_spec(result)")],
             loops={1: LoopContract(index="kj", invariant=[("partial sum in list order", "VPhi == PS(kj, t, x_hat)")],
                                    modifies={"VPhi": "Real", "j": "Int", "elem_trial": lambda e, b: elem_ref(e.fresh("et", "Int"))})}),
]


def replay_residual(mv, sc, ob):
    """the abstract counter-model (uninterpreted element list) has no concrete pre-image; the replay drives the real driver and
    residual on the shipped problem x domain combinations and looks for an element with non-zero residual mean"""
    return ("from bounded import potential_rel as P\nfrom vlib.core import Check\nchk = Check('C03', 'quick', 0, 'other', 'replay')\n"
            "P.run(chk, 'C03', 'quick', 0)\nobserved = [o.name for o in chk.obs if o.status == 'failed'][:5]\n"
            "violated = len(observed) > 0\n")


def install(eng):
    eng.spec_funcs["residual_spec"] = s_residual_spec
    def s_PS(e, k, t, x):
        """unfold-on-use: every mention of PS(k; t, x) in a clause adds the instance of its recursive definition at k (a ground
        instance of the definition, so that the queries stay quantifier-free and failed obligations come with a model)"""
        k, t, x = to_z3(k), to_real(t), to_real(x)
        step = PHI(k - 1) * z3.If(t > T0(EL(k - 1)), EVAL(EL(k - 1), t, x), z3.RealVal(0))
        e.assume(z3.And(z3.Implies(k == 0, PS(k, t, x) == 0), z3.Implies(k >= 1, PS(k, t, x) == PS(k - 1, t, x) + step)))
        return PS(k, t, x)
    eng.spec_funcs["PS"] = s_PS


contracts[-1].replay = replay_residual


# ------------------------------------------------------------------------------------------------------
# the driver statements of example.py (extracted by contracts.driver.extract_driver) for an element list of arbitrary length

BILSn = z3.Function("BILSn", I, I, R)             # bilform(trial, test)
M0Ln = z3.Function("M0Ln", I, R)
GLn = z3.Function("GLn", I, R)


def bilform_matrix_result(eng, base):
    env = eng.ghost_call_env
    test = env.lookup("elems_test")
    trial = env.lookup("elems_trial") if env.lookup("elems_trial") is not None else test
    return extio.Mat(test.length, trial.length, lambda i, j: BILSn(trial.elem(to_z3(j)).term, test.elem(to_z3(i)).term), "SLmat")


def linform_vector_result(eng, base):
    es = eng.ghost_call_env.lookup("elems")
    return extio.NArr(es.length, lambda i: M0Ln(es.elem(to_z3(i)).term), "M0vec")


def solve_ext(eng, A, b):
    eng.used_assumptions.add("X-SOLVE: np.linalg.solve(A, b) returns x with A x = b (A non-singular: C13, assumed)")
    x = extio.fresh_arr(eng, "xsol", b.length)
    eng.ghost["solve_args"] = (A, b, x)
    return x


def residual_call_result(eng, base):
    env = eng.ghost_call_env
    eng.ghost["residual_args"] = {k: env.lookup(k) for k in ("elems", "Phi", "SL", "M0u0", "g", "SL_exact_eval")}
    return Ref("ResidualClosure", eng.fresh("res", "Int"))


def sc_driver_n(eng):
    from . import driver as D
    scen = []
    for data in ("M0+g", "M0-only", "g-only"):
        def build(eng, data=data):
            D.extract_driver(eng)
            eng.assume(N >= 1)
            elems = SymSeq(N, lambda i: elem_ref(EL(to_z3(i))), "elems")
            SL = Obj("SingleLayerOperator", {"__module__": "src.single_layer"}, label="SL")
            has_m0, has_g = data != "g-only", data != "M0-only"
            M0 = Obj("InitialOperator", {"__module__": "src.initial_potential"}, label="M0") if has_m0 else None
            M0u0 = Ext("M0u0", lambda e, t, x: M0U0(to_real(t), to_real(x.items[0]), to_real(x.items[1]))) if has_m0 else None
            g = Ext("g", lambda e, t, x: GFUN(to_real(t), to_real(x.items[0]), to_real(x.items[1]))) if has_g else None
            glin = Ext("g_linform", lambda e, es: extio.NArr(es.length, lambda i: GLn(es.elem(to_z3(i)).term), "gvec")) if has_g else None
            args = Obj("Namespace", {"single_layer_exact": z3.Bool("single_layer_exact")})
            ee = Obj("ErrorEstimator", {"__module__": "src.error_estimator"}, label="EE")
            eng.ghost.update(dict(elems=elems, has_m0=has_m0, has_g=has_g, SL=SL, M0u0=M0u0, g=g, args=args))
            return dict(SL=SL, M0=M0, M0u0=M0u0, g=g, g_linform=glin, elems=elems, N=N, args=args, error_estimator=ee)
        scen.append(dict(label=data, args=build))
    return scen


def s_driver_n_spec(eng, result, part):
    mat, rhs, Phi, residual = result
    g = eng.ghost
    p, q = z3.Ints("p!d q!d")
    if part == "rhs":
        want = z3.RealVal(0)
        if g["has_m0"]:
            want = want - M0Ln(EL(p))
        if g["has_g"]:
            want = want + GLn(EL(p))
        return z3.And(to_z3(rhs.length) == N, z3.ForAll([p], z3.Implies(z3.And(0 <= p, p < N), to_real(rhs.elem(p)) == want)))
    if part == "mat":
        return z3.And(to_z3(mat.N) == N, to_z3(mat.M) == N,
                      z3.ForAll([p, q], z3.Implies(z3.And(0 <= p, p < N, 0 <= q, q < N), to_real(mat.elem(p, q)) == BILSn(EL(q), EL(p)))))
    if part == "solve":
        A, b, x = g["solve_args"]
        return z3.BoolVal(A is mat and b is rhs and x is Phi)
    if part == "residual":
        ra = g.get("residual_args")
        if ra is None:
            return z3.BoolVal(False)
        ok = ra["elems"] is g["elems"] and ra["Phi"] is Phi and ra["SL"] is g["SL"] and ra["M0u0"] is g["M0u0"] and ra["g"] is g["g"]
        return z3.And(z3.BoolVal(bool(ok)), to_z3(eng.truth(ra["SL_exact_eval"])) == g["args"].fields["single_layer_exact"])
    raise ValueError(part)


driver_contracts = [
    Contract("src.single_layer:SingleLayerOperator.bilform_matrix", prop="C17", result=bilform_matrix_result),
    Contract("src.initial_potential:InitialOperator.linform_vector", prop="C17", result=linform_vector_result),
    Contract("src.error_estimator:ErrorEstimator.residual", prop="C03", result=residual_call_result),
    Contract("example:__driver__", props=["C03"], setup=sc_driver_n,
             ensures=[("any N: rhs[i] == -<M0 u0, 1_i> + <g, 1_i>", "driver_n_spec(result, 'rhs')"),
                      ("any N: mat[i, j] == <V 1_j, 1_i> (rows test, columns trial)", "driver_n_spec(result, 'mat')"),
                      ("Phi = np.linalg.solve(mat, rhs) with exactly these two objects", "driver_n_spec(result, 'solve')"),
                      ("the residual is requested for the same element list (order), this Phi, SL, M0u0, g and the straight-panel switch",
                       "driver_n_spec(result, 'residual')")]),
]


def install_driver(eng):
    eng.spec_funcs["driver_n_spec"] = s_driver_n_spec
    eng.externals["np"].fn["linalg"] = Ext("linalg", {"solve": Ext("solve", solve_ext)})
