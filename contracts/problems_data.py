"""C03 (A3 for the data-driven problems): `problems.problem_helper(problem, domain)` for problem in {Dirichlet, MildSingular}
returns Dirichlet data g and its element integrals `g-linform` that are consistent with each other for element lists of any
length:   g-linform(elems)[p] == h_x(e_p) * (A(t1(e_p)) - A(t0(e_p))),   g(t, xy) == A'(t),
with (A, A') = (t, 1) for Dirichlet and (t^3 / 3, t^2) for MildSingular (the element is [t0, t1] x an arc of length h_x of an
arc-length parametrised curve and g does not depend on the point).  The closed forms of the other two problems (Smooth, Singular:
u0, M0u0 with erf / exp series) stay bounded-only."""
import z3

from pyvc.engine import Contract, Ref, SymSeq, Vec, Closure, to_real, to_z3

I, R = z3.IntSort(), z3.RealSort()
ELp = z3.Function("ELp", I, I)
HT = z3.Function("HTp", I, R)
HX = z3.Function("HXp", I, R)
T0 = z3.Function("T0p", I, R)
N = z3.Int("Np")


def elem_ref(term):
    return Ref("Elem", term, attrs={"h_t": HT(term), "h_x": HX(term), "time_interval": (T0(term), T0(term) + HT(term))})


def sc_problem(eng):
    scen = []
    for problem in ("Dirichlet", "MildSingular"):
        for domain in ("UnitSquare", "PiSquare", "LShape", "Circle"):
            def build(eng, problem=problem, domain=domain):
                eng.ghost["problem"] = problem
                return {"problem": problem, "domain": domain}
            scen.append(dict(label="{}/{}".format(problem, domain), args=build))
    return scen


def s_data_spec(eng, result, part):
    problem = eng.ghost["problem"]
    if hasattr(result, "items") and not isinstance(result, dict):       # the engine's association-list dictionary
        result = {k: v for k, v in result.items if isinstance(k, str)}
    if not isinstance(result, dict) or "g" not in result or "g-linform" not in result:
        return False
    saved = eng.spec_mode
    eng.spec_mode = 0
    try:
        if part == "g":
            t, x, y = eng.fresh("t", "Real"), eng.fresh("x", "Real"), eng.fresh("y", "Real")
            val = eng.call(result["g"], [t, Vec([x, y])])
            return to_real(val) == (z3.RealVal(1) if problem == "Dirichlet" else t * t)
        eng.assume(N >= 0)
        elems = SymSeq(N, lambda i: elem_ref(ELp(to_z3(i))), "elems")
        vec = eng.call(result["g-linform"], [elems])
        p = z3.Int("p!data")
        e = ELp(p)
        t0, t1 = T0(e), T0(e) + HT(e)
        want = HX(e) * ((t1 - t0) if problem == "Dirichlet" else (t1 * t1 * t1 - t0 * t0 * t0) / 3)
        n = eng.call(eng.externals["len"], [vec])
        return z3.And(to_z3(n) == N, z3.ForAll([p], z3.Implies(z3.And(0 <= p, p < N), to_real(vec.elem(p)) == want)))
    finally:
        eng.spec_mode = saved


contracts = [
    Contract("problems:problem_helper", props=["C03"], setup=sc_problem,
             ensures=[("g is the Dirichlet datum of the problem (1 resp. t^2)", "data_spec(result, 'g')"),
                      ("g-linform(elems)[p] is the exact integral of that g over element p, for lists of any length",
                       "data_spec(result, 'linform')")]),
]


def install(eng):
    eng.spec_funcs["data_spec"] = s_data_spec
