"""C01 / C11 / C12 — ideal-arithmetic refinement contracts for the singular panel splitting.

Over the reals, with every leaf quadrature call replaced by its contract (A-RULE) and the exact integral an
uninterpreted additive functional (A-INT), the real code of SingleLayerOperator.__integrate / bilform and of
spacetime_integrated_kernel computes exactly the integral over the right rectangle with the right rule graded to
the right corner.  Coordinates live on a lattice (A-LATTICE: all interval end points are integer multiples of a
unit u > max(1e-8, 1e-9 * curve length) -- true for dyadic meshes down to that size), so the verification runs the
real code on integer lattice coordinates: `abs(h_x - h_y) < 1e-10` is equality, `h > 1e-8` holds for non-empty
intervals and math.isclose(p, q) is p == q.
"""
import z3

from pyvc.engine import Contract, Obj, Ref, Vec, Closure, OutsideSubset, to_z3, to_real, b_and, b_or, b_not, num_cmp, is_sym
from pyvc import externals as X
from . import common as C

SL = "src.single_layer"
SLE = "src.single_layer_exact"
QUAD = "src.quadrature"


class Piece:
    """the exact integral INT2(f, a, b, c, d) of integrand f over [a,b] x [c,d] (A-INT: additive functional)"""
    def __init__(self, f, rect, kind="abs"):
        self.f = f
        self.rect = rect
        self.kind = kind


class PieceSum:
    def __init__(self, pieces):
        self.pieces = list(pieces)


def _piece_arith(eng, op, a, b):
    if isinstance(a, (Piece, PieceSum)) or isinstance(b, (Piece, PieceSum)):
        if op != "+" or not isinstance(a, (Piece, PieceSum)) or not isinstance(b, (Piece, PieceSum)):
            raise OutsideSubset("only + of integral pieces is modelled")
        pa = a.pieces if isinstance(a, PieceSum) else [a]
        pb = b.pieces if isinstance(b, PieceSum) else [b]
        return PieceSum(pa + pb)
    return NotImplemented


def install(eng):
    cls = type(eng)
    if _piece_arith not in cls.arith_hooks:
        cls.arith_hooks = [_piece_arith] + list(cls.arith_hooks)
    eng.spec_funcs["tiles"] = s_tiles
    eng.spec_funcs["tiles_rel"] = s_tiles_rel
    eng.spec_funcs["graded_for"] = s_graded_for
    eng.spec_funcs["same_integral"] = s_same_integral
    eng.spec_funcs["is_piece"] = lambda e, v: isinstance(v, (Piece, PieceSum))
    eng.spec_funcs["val_eq"] = lambda e, v, w: False if isinstance(v, (Piece, PieceSum)) or v is None else num_cmp("==", v, w)
    eng.spec_funcs["stk_tiles"] = s_stk_tiles
    # A-LATTICE: isclose on lattice coordinates is equality
    iscl = X.Ext("isclose", lambda e, a, b, **k: num_cmp("==", a, b))
    eng.externals["math"] = X.Ext("math", dict(eng.externals["math"].fn, isclose=iscl))
    eng.externals["math.isclose"] = iscl
    eng.used_assumptions.add("A-LATTICE: interval end points are integer multiples of a unit u > max(1e-8, 1e-9*L); the real code is "
                             "executed on integer lattice coordinates (isclose == equality, thresholds 1e-8/1e-10 decided by integrality)")
    eng.used_assumptions.add("A-INT: the exact integral is additive under splitting a rectangle at an interior point of one side and "
                             "invariant under exchanging the two variables together with the two sides")
    eng.used_assumptions.add("A-RULE: a 2-D rule applied to [a,b]x[c,d] returns the exact integral if the set where the two parameter "
                             "intervals are closest (through the seam when glued) is contained in the rule's graded set (numerical "
                             "analysis, not decided here; the digits are the bounded relational contracts)")


def rect_eq(r, s):
    return b_and(*[num_cmp("==", x, y) for x, y in zip(r, s)])


def split_of(r1, r2, R):
    """r1, r2 tile R by one cut parallel to a side (either order)"""
    a, b, c, d = R

    def xcut(p, q):
        m = p[1]
        return b_and(num_cmp("==", p[0], a), num_cmp("==", q[1], b), num_cmp("==", q[0], m), num_cmp("<", a, m), num_cmp("<", m, b),
                     num_cmp("==", p[2], c), num_cmp("==", p[3], d), num_cmp("==", q[2], c), num_cmp("==", q[3], d))

    def ycut(p, q):
        m = p[3]
        return b_and(num_cmp("==", p[2], c), num_cmp("==", q[3], d), num_cmp("==", q[2], m), num_cmp("<", c, m), num_cmp("<", m, d),
                     num_cmp("==", p[0], a), num_cmp("==", p[1], b), num_cmp("==", q[0], a), num_cmp("==", q[1], b))
    return b_or(xcut(r1, r2), xcut(r2, r1), ycut(r1, r2), ycut(r2, r1))


def s_tiles(eng, result, f, a, b, c, d):
    """result (a sum of integral pieces of the same integrand f) equals INT2(f, a, b, c, d) by A-INT"""
    pieces = result.pieces if isinstance(result, PieceSum) else [result] if isinstance(result, Piece) else None
    if pieces is None:
        return False
    if any(p.f is not f for p in pieces):
        return False
    R = (a, b, c, d)
    if len(pieces) == 1:
        return rect_eq(pieces[0].rect, R)
    if len(pieces) == 2:
        return split_of(pieces[0].rect, pieces[1].rect, R)
    return False


def s_tiles_rel(eng, result, xa, xb, ya, yb):
    """closed-form pieces (relative coordinates) tile [xa,xb] x [ya,yb]; the kernel depends on x - y only, so a piece
    kind4(h,k,l) = [0,h]x[k,l], kind1(h) = [0,h]^2, kind2(h,k) = [-h,0]x[0,k] may be translated along the diagonal;
    'swapped' pieces have the two variables exchanged (symmetric kernel)"""
    pieces = result.pieces if isinstance(result, PieceSum) else [result] if isinstance(result, Piece) else None
    if pieces is None:
        return False
    R = (xa, xb, ya, yb)

    def absrect(p):
        return p.rect
    if len(pieces) == 1:
        return rect_eq(absrect(pieces[0]), R)
    if len(pieces) == 2:
        return split_of(absrect(pieces[0]), absrect(pieces[1]), R)
    return False


def needs(a, b, c, d, L, glue):
    """which graded set the rule applied to [a,b] x [c,d] must contain: returns list of (condition, tag or None)"""
    g_direct = to_z3(c) - to_z3(b)
    g_seam = to_z3(L) - to_z3(d) + to_z3(a)
    same = b_and(num_cmp("==", a, c), num_cmp("==", b, d))
    touch10 = b_and(num_cmp("==", b, c), b_not(same))
    touch01 = b_and(num_cmp("==", a, d), b_not(same))
    seam01 = b_and(glue, num_cmp("==", a, 0), num_cmp("==", d, L), num_cmp("<", b, c))
    disjoint = b_and(num_cmp("<", b, c), b_not(seam01))
    return dict(same=same, touch10=touch10, touch01=touch01, seam01=seam01, disjoint=disjoint,
                direct_nearer=b_or(b_not(glue), g_direct < g_seam), seam_nearer=b_and(glue, g_seam < g_direct),
                tie=b_and(glue, g_direct == g_seam))


def s_graded_for(eng, rule, a, b, c, d, L, glue):
    """A-RULE premise for applying `rule` to the panel [a,b] x [c,d]"""
    tags = rule.fields.get("graded")
    if tags is None:
        return False
    n = needs(a, b, c, d, L, eng.truth(glue))
    has = lambda t: t in tags
    return b_or(
        b_and(n["same"], has("DIAG")),
        b_and(n["touch10"], has("C10")),
        b_and(n["touch01"], has("C01")),
        b_and(n["seam01"], has("C01")),
        b_and(n["disjoint"], b_or(b_and(n["direct_nearer"], has("C10")), b_and(n["seam_nearer"], has("C01")),
                                  b_and(n["tie"], has("C10") or has("C01")))))


MIRROR_X = {"DIAG": "ADIAG", "ADIAG": "DIAG", "C00": "C10", "C10": "C00", "C01": "C11", "C11": "C01"}
MIRROR_Y = {"DIAG": "ADIAG", "ADIAG": "DIAG", "C00": "C01", "C01": "C00", "C10": "C11", "C11": "C10"}


def rule2d(label, tags):
    return Obj("QuadScheme2D", {"__module__": QUAD, "graded": frozenset(tags), "_mirror_x": None, "_mirror_y": None}, label=label)


def mirror_result(table):
    def res(eng, base):
        env = eng.ghost_call_env
        r = env.lookup("self")
        return rule2d(r.label + ".m", [table[t] for t in r.fields["graded"]])
    return res


def integrate_result(eng, base):
    env = eng.ghost_call_env
    return Piece(env.lookup("f"), tuple(env.lookup(k) for k in "abcd"))


def sl_int(eng):
    L = z3.Int("L")
    o = Obj("SingleLayerOperator", {
        "__module__": SL, "gamma_len": L, "glue_space": z3.Bool("glue_space"),
        # ghost tags (section 3 of DESIGN): DuffyScheme2D(ProductScheme2D(log, log), symmetric=False) is graded to the
        # diagonal and to (0,0); ProductScheme2D(log, log) to the corner (0,0)
        "duff_log_log": rule2d("duff_log_log", ["DIAG", "C00"]), "log_log": rule2d("log_log", ["C00"]),
        "gauss_2d": rule2d("gauss_2d", []),
    }, label="SL")
    o.wf = [L > 0]
    # ghost "globals" of the clause language: the operator's curve length and glue flag, visible to the rule contracts
    eng.externals["GAMMA_LEN"] = L
    eng.externals["GLUE"] = o.fields["glue_space"]
    return o


def sc_integrate(eng):
    def build(eng):
        slo = sl_int(eng)
        a, b, c, d = z3.Ints("a b c d")
        for w in slo.wf:
            eng.assume(w)
        eng.assume(z3.And(0 <= a, b <= slo.fields["gamma_len"], 0 <= c, d <= slo.fields["gamma_len"]))
        f = Ref("Fun", z3.Int("f_id"))
        return {"self": slo, "f": f, "a": a, "b": b, "c": c, "d": d}
    return [dict(label="", args=build)]


PRE_INTEGRATE = [("a<b", "a < b"), ("c<d", "c < d"), ("ordered", "Or(a < c, And(a == c, b <= d))"),
                 ("touch-in-at-most-one-end[C18: >= 3 elements around the curve]",
                  "Not(And(b == c, a == 0, d == self.gamma_len, self.glue_space))"),
                 ("inside-parameter-range", "And(0 <= a, b <= self.gamma_len, 0 <= c, d <= self.gamma_len)"),
                 ("nested-or-interior-disjoint[leaves of one mesh / leaf and its children]",
                  "Or(b <= c, d <= a, And(a <= c, d <= b), And(c <= a, b <= d))"),
                 ("no-element-spans-the-closed-curve[C18]",
                  "Not(And(self.glue_space, Or(And(a == 0, b == self.gamma_len), And(c == 0, d == self.gamma_len))))")]

contracts = []

contracts.append(Contract(QUAD + ":QuadScheme2D.mirror_x", prop="C15", result=mirror_result(MIRROR_X)))
contracts.append(Contract(QUAD + ":QuadScheme2D.mirror_y", prop="C15", result=mirror_result(MIRROR_Y)))
contracts.append(Contract(
    QUAD + ":QuadScheme2D.integrate", prop="C15",
    requires=[("panel-non-degenerate", "And(b - a > 1e-7, d - c > 1e-7)"),
              ("A-RULE-premise: rule graded where the panels are closest",
               "graded_for(self, a, b, c, d, GAMMA_LEN, GLUE)")],
    result=integrate_result))

contracts.append(Contract(
    SL + ":SingleLayerOperator.__integrate", props=["C01", "C11", "C12"], setup=sc_integrate,
    requires=PRE_INTEGRATE, precondition_asserts=0,
    result=lambda eng, base: Piece(eng.ghost_call_env.lookup("f"), tuple(eng.ghost_call_env.lookup(k) for k in "abcd")),
    ensures=[("equals-exact-integral-over-the-panel[A-INT tiling]", "tiles(result, f, a, b, c, d)")]))


# ------------------------------------------------------------------------------------------
# bilform: orientation / swap of the integration variables, time arguments

def s_same_integral(eng, result, spec, x0, x1, y0, y1):
    """result == INT2(spec, x0, x1, y0, y1): either the same rectangle with a pointwise equal integrand, or the
    exchanged rectangle with the exchanged integrand (A-INT swap)"""
    if not isinstance(result, Piece):
        return False
    u, v = eng.fresh("u", "Real"), eng.fresh("v", "Real")
    r = result.rect
    want = eng.call(spec, [u, v])
    direct = b_and(rect_eq(r, (x0, x1, y0, y1)), num_cmp("==", eng.call(result.f, [Vec([u, v])]), want))
    swapped = b_and(rect_eq(r, (y0, y1, x0, x1)), num_cmp("==", eng.call(result.f, [Vec([v, u])]), want))
    return b_or(direct, swapped)


def sc_bilform_ideal(eng):
    def build(eng):
        slo = sl_int(eng)
        slo.fields["pw_exact"] = z3.Bool("pw_exact")
        for w in slo.wf:
            eng.assume(w)
        tr, te = C.element(eng, "trial"), C.element(eng, "test")
        # space intervals on the lattice
        for e, n in ((tr, "trial"), (te, "test")):
            x0, x1 = z3.Int(n + "_ix0"), z3.Int(n + "_ix1")
            e.fields["space_interval"] = (x0, x1)
            eng.assume(z3.And(0 <= x0, x0 < x1, x1 <= slo.fields["gamma_len"]))
            t0, t1 = e.fields["time_interval"]
            eng.assume(t0 < t1)
        return {"self": slo, "elem_trial": tr, "elem_test": te}
    return [dict(label="", args=build)]


STKF = z3.Function("STK", *([z3.RealSort()] * 9))

KPAIR = ("lambda u, v: K2(elem_test.time_interval[0], elem_test.time_interval[1], elem_trial.time_interval[0], "
         "elem_trial.time_interval[1], sumsq(elem_test.gamma_space(u) - elem_trial.gamma_space(v)) / 4)")

contracts.append(Contract(SL + ":double_time_integrated_kernel", prop="C04",
                          requires=["a < b", "c < d"],
                          returns_closure=dict(params=["x"], ghosts=dict(r="sumsq(x) / 4"), ensures=["result == K2(a, b, c, d, r)"])))
contracts.append(Contract(SLE + ":spacetime_integrated_kernel", prop="C01",
                          result_term=lambda eng, env: STKF(*[to_real(env.lookup(n)) for n in
                                                              ("t_a", "t_b", "s_a", "s_b", "x_a", "x_b", "y_a", "y_b")])))

contracts.append(Contract(
    SL + ":SingleLayerOperator.bilform", props=["C01", "C12"], setup=sc_bilform_ideal,
    requires=[("nested-or-interior-disjoint",
               "Or(elem_test.space_interval[1] <= elem_trial.space_interval[0], elem_trial.space_interval[1] <= elem_test.space_interval[0], "
               "And(elem_test.space_interval[0] <= elem_trial.space_interval[0], elem_trial.space_interval[1] <= elem_test.space_interval[1]), "
               "And(elem_trial.space_interval[0] <= elem_test.space_interval[0], elem_test.space_interval[1] <= elem_trial.space_interval[1]))"),
              ("no-element-spans-the-closed-curve[C18]",
               "Not(And(self.glue_space, Or(And(elem_test.space_interval[0] == 0, elem_test.space_interval[1] == self.gamma_len), "
               "And(elem_trial.space_interval[0] == 0, elem_trial.space_interval[1] == self.gamma_len))))"),
              ("touch-in-at-most-one-end[C18]",
               "Not(And(self.glue_space, Or(And(elem_test.space_interval[1] == elem_trial.space_interval[0], elem_test.space_interval[0] == 0, "
               "elem_trial.space_interval[1] == self.gamma_len), And(elem_trial.space_interval[1] == elem_test.space_interval[0], "
               "elem_trial.space_interval[0] == 0, elem_test.space_interval[1] == self.gamma_len))))")],
    ensures=[("causal-quadrature-path: entry == INT2 of K2(test.t, trial.t, |gamma_test(x) - gamma_trial(y)|^2/4) over test x trial",
              "implies(And(elem_test.time_interval[1] > elem_trial.time_interval[0], "
              "Not(And(self.pw_exact, elem_test.gamma_space is elem_trial.gamma_space))), "
              "same_integral(result, " + KPAIR + ", elem_test.space_interval[0], elem_test.space_interval[1], "
              "elem_trial.space_interval[0], elem_trial.space_interval[1]))"),
             ("causal-closed-form-path: entry == closed form with (test.t, trial.t, test.x, trial.x)",
              "implies(And(elem_test.time_interval[1] > elem_trial.time_interval[0], self.pw_exact, "
              "elem_test.gamma_space is elem_trial.gamma_space), "
              "val_eq(result, STKs(elem_test.time_interval[0], elem_test.time_interval[1], elem_trial.time_interval[0], "
              "elem_trial.time_interval[1], elem_test.space_interval[0], elem_test.space_interval[1], "
              "elem_trial.space_interval[0], elem_trial.space_interval[1])))"),
             ("same-preconditions-for-callee", "True")]))


def install_bilform_spec(eng):
    eng.spec_funcs["STKs"] = lambda e, *a: STKF(*[to_real(x) for x in a])


# ------------------------------------------------------------------------------------------
# spacetime_integrated_kernel: the recursion tiles the rectangle, each leaf closed form gets its geometric premise

def stk_leaf(k, rect_of, premise):
    names = {1: ["h"], 2: ["h", "k"], 3: ["h", "k"], 4: ["h", "k", "l"]}[k]

    def res(eng, base):
        env = eng.ghost_call_env
        vals = [env.lookup(n) for n in names]
        return Piece("K", tuple(vals), kind="rel%d" % k)
    return Contract("{}:spacetime_integrated_kernel_{}".format(SLE, k), prop="C01", requires=premise, result=res)


def sc_stk(eng):
    def build(eng):
        xa, xb, ya, yb = z3.Ints("x_a x_b y_a y_b")
        ta, tb, sa, sb = z3.Reals("t_a t_b s_a s_b")
        eng.assume(z3.And(xa < xb, ya < yb, ta < tb, sa < sb))
        return dict(t_a=ta, t_b=tb, s_a=sa, s_b=sb, x_a=xa, x_b=xb, y_a=ya, y_b=yb)
    return [dict(label="", args=build)]


def rect_eq_rel(r, R):
    """equal up to a translation along the diagonal (the closed-form kernel depends on x - y only)"""
    return b_and(*[num_cmp("==", to_z3(r[i]) - to_z3(r[0]), to_z3(R[i]) - to_z3(R[0])) for i in (1, 2, 3)])


def split_of_rel(r1, r2, R):
    a, b, c, d = [to_z3(v) for v in R]
    w1 = to_z3(r1[1]) - to_z3(r1[0])
    h1 = to_z3(r1[3]) - to_z3(r1[2])
    xcut = b_and(rect_eq_rel(r1, (a, a + w1, c, d)), rect_eq_rel(r2, (a + w1, b, c, d)), w1 > 0, a + w1 < b)
    ycut = b_and(rect_eq_rel(r1, (a, b, c, c + h1)), rect_eq_rel(r2, (a, b, c + h1, d)), h1 > 0, c + h1 < d)
    return b_or(xcut, ycut)


def s_stk_tiles(eng, result, ta, tb, sa, sb, xa, xb, ya, yb):
    """result is the sum of closed-form pieces that tile [xa,xb] x [ya,yb] (up to exchanging the variables: symmetric
    kernel; each closed-form piece up to a diagonal translation)"""
    pieces = result.pieces if isinstance(result, PieceSum) else [result] if isinstance(result, Piece) else None
    if pieces is None:
        return False
    rects = [p.rect for p in pieces]
    R, Rs = (xa, xb, ya, yb), (ya, yb, xa, xb)
    if len(rects) == 1:
        return b_or(rect_eq_rel(rects[0], R), rect_eq_rel(rects[0], Rs))
    if len(rects) == 2:
        return b_or(split_of_rel(rects[0], rects[1], R), split_of_rel(rects[1], rects[0], R),
                    split_of_rel(rects[0], rects[1], Rs), split_of_rel(rects[1], rects[0], Rs))
    return False


def stk_rec_result(eng, base):
    env = eng.ghost_call_env
    return Piece("K", tuple(env.lookup(n) for n in ("x_a", "x_b", "y_a", "y_b")))


def leaf_abs(k):
    """contract of the k-th closed form as called from spacetime_integrated_kernel: the relative arguments must describe the
    rectangle [x_a,x_b] x [y_a,y_b] of the caller; the result is the integral over that rectangle"""
    prem = {
        4: [("0<h<k<l", "And(0 < h, h < k, k < l)")],
        1: [("h>0", "h > 0")],
        2: [("h>0,k>0", "And(h > 0, k > 0)")],
    }[k]

    def res(eng, base):
        env = eng.ghost_call_env
        h = env.lookup("h")
        if k == 4:
            rect = (0, h, env.lookup("k"), env.lookup("l"))           # [0,h] x [k,l]
        elif k == 1:
            rect = (0, h, 0, h)                                        # [0,h]^2
        else:
            rect = (eng.arith("-", 0, h), 0, 0, env.lookup("k"))       # [-h,0] x [0,k]
        return Piece("K", rect)
    return Contract("{}:spacetime_integrated_kernel_{}".format(SLE, k), prop="C01",
                    requires=[("time-intervals", "And(a < b, c < d)")] + prem, result=res)


stk_contracts = [leaf_abs(1), leaf_abs(2), leaf_abs(4)]
stk_contracts.append(Contract(
    SLE + ":spacetime_integrated_kernel", props=["C01", "C11"], setup=sc_stk,
    requires=[("x-interval", "x_a < x_b"), ("y-interval", "y_a < y_b"), ("time", "And(t_a < t_b, s_a < s_b)")],
    result=stk_rec_result,
    ensures=[("recursion-tiles-the-rectangle-with-matching-closed-forms", "stk_tiles(result, t_a, t_b, s_a, s_b, x_a, x_b, y_a, y_b)")]))
