"""C09 — ErrorEstimator.__init__ hands every quadrature order to the routine it is meant for:
N_poly = (weighted L2, outer Gauss, H^1/4 seminorm in time, H^1/2 seminorm in space); a single integer is used four times.

The constructors of the rules are replaced by contracts that record, BY PARAMETER NAME of the callee, which order reached
which routine (so a changed parameter order of a callee with an unchanged positional call site fails the postcondition)."""
import z3

from pyvc.engine import Contract, Obj, Ref, to_z3

EE = "src.error_estimator"
NORMS = "src.norms"
QUAD = "src.quadrature"


def slobodeckij_result(eng, base):
    env = eng.ghost_call_env
    o = env.lookup("self")
    n14 = env.lookup("N_poly_1_4")
    n12 = env.lookup("N_poly_1_2") if env.has("N_poly_1_2") else None
    o.fields["order_1_4"] = n14
    o.fields["order_1_2"] = n14 if n12 is None else n12
    return None


def gauss_result(eng, base):
    return Obj("QuadScheme1D", {"__module__": QUAD, "order": eng.ghost_call_env.lookup("N_poly")})


def product_result(eng, base):
    env = eng.ghost_call_env
    o = env.lookup("self")
    o.fields["base_x"] = env.lookup("scheme_x")
    return None


def sc_init(eng):
    scen = []
    for kind in ("tuple", "int"):
        def build(eng, kind=kind):
            a, b, c, d = z3.Ints("N_l2 N_outer N_time N_space")
            mesh = Obj("MeshParametrized", {"__module__": "src.mesh", "glue_space": True,
                                            "gamma_space": Obj("Curve", {"gamma_length": z3.Real("L")})})
            slf = Obj("ErrorEstimator", {"__module__": EE}, label="EE")
            if kind == "int":
                eng.ghost["orders"] = (a, a, a, a)
                return {"self": slf, "mesh": mesh, "N_poly": a}
            eng.ghost["orders"] = (a, b, c, d)
            return {"self": slf, "mesh": mesh, "N_poly": (a, b, c, d)}
        scen.append(dict(label=kind, args=build))
    return scen


def s_init_spec(eng, slf):
    a, b, c, d = eng.ghost["orders"]
    f = slf.fields
    try:
        return z3.And(to_z3(f["slobodeckij"].fields["order_1_4"]) == c, to_z3(f["slobodeckij"].fields["order_1_2"]) == d,
                      to_z3(f["gauss"].fields["order"]) == b, to_z3(f["gauss_2d"].fields["base_x"].fields["order"]) == a)
    except (KeyError, AttributeError):
        return False


contracts = [
    Contract(NORMS + ":Slobodeckij.__init__", prop="C14", result=slobodeckij_result),
    Contract(QUAD + ":gauss_quadrature_scheme", prop="C05", result=gauss_result),
    Contract(QUAD + ":ProductScheme2D.__init__", prop="C15", result=product_result),
    Contract(EE + ":ErrorEstimator.__init__", props=["C09"], setup=sc_init,
             ensures=[("orders reach their routines: H^1/4 <- time order, H^1/2 <- space order, outer Gauss, weighted-L2 tensor rule",
                       "init_spec(self)")]),
]


def install(eng):
    eng.spec_funcs["init_spec"] = s_init_spec
    from pyvc.engine import Ext
    eng.externals["print"] = Ext("print", lambda e, *a, **k: None)
    eng.externals["str"] = Ext("str", lambda e, x: "<str>")
