"""Sidecar contracts for src/single_layer.py and src/single_layer_exact.py.

Top-level postconditions are written from the property statements (C04: exact zeros, four-term
kernel; C01: value), helper preconditions from the code and its call sites.
"""
import z3

from pyvc.engine import Contract, LoopContract, Obj, Ref, Vec, to_real
from pyvc import externals as X
from pyvc.arrays import NArr, named_array
from . import common as C

SL = "src.single_layer"
SLE = "src.single_layer_exact"
R = z3.RealSort()

FINT = {k: z3.Function("FINT%d" % k, *([R] * n + [R])) for k, n in ((1, 3), (2, 4), (3, 4), (4, 5))}


def reals(*names):
    return {n: z3.Real(n) for n in names}


def sc_reals(*names, assume=()):
    def setup(eng):
        args = reals(*names)
        return [dict(label="", args=args, assume=[a(args) if callable(a) else a for a in assume])]
    return setup


def fl(v):
    return "None" if v is None else repr(float(v))


# ------------------------------------------------------------------------------------------
# replays: concretise the SMT model into a call of the real function

def replay_dtik(mv, sc, ob):
    a, b, c, d = (mv.get(k) for k in "abcd")
    x0, x1 = mv.get("arg_x_0"), mv.get("arg_x_1")
    if None in (a, b, c, d):
        return None
    x0 = 0.3 if x0 is None else float(x0)
    x1 = 0.1 if x1 is None else float(x1)
    return '''
import numpy as np
from scipy.special import expi
from src.single_layer import double_time_integrated_kernel, FPI_INV
a, b, c, d = {a}, {b}, {c}, {d}
x = np.array([[{x0}], [{x1}]])
G = double_time_integrated_kernel(a, b, c, d)
got = G(x)
r = float(np.sum(x**2) / 4)
def Phi(z):
    return 0.0 if z <= 0 else FPI_INV * (z * np.exp(-r / z) + (r + z) * expi(-r / z))
want = Phi(b - d) - Phi(b - c) + Phi(a - c) - Phi(a - d)
lit_zero = (type(got) is int and got == 0)
observed = dict(got=repr(got), want=want, acausal=(b <= c), literal_zero=lit_zero)
scale = abs(Phi(b - d)) + abs(Phi(b - c)) + abs(Phi(a - c)) + abs(Phi(a - d)) + 1e-300
violated = (b <= c and not lit_zero) or abs(float(np.ravel(got)[0]) - want) > 1e-9 * scale
'''.format(a=fl(a), b=fl(b), c=fl(c), d=fl(d), x0=x0, x1=x1)


def replay_scalar_guard(fname, module, argnames, acausal):
    def rp(mv, sc, ob):
        vals = [mv.get(n) for n in argnames]
        if any(v is None for v in vals):
            return None
        return '''
from {module} import {f}
args = [{args}]
got = {f}(*args)
lit_zero = (type(got) is int and got == 0)
observed = dict(args=args, got=repr(got))
a = dict(zip({names!r}, args))
violated = ({acausal}) and not lit_zero
'''.format(module=module, f=fname, args=", ".join(fl(v) for v in vals), names=argnames, acausal=acausal)
    return rp


# ------------------------------------------------------------------------------------------
# src.single_layer: scalar kernels

VEC2 = lambda eng, base: Vec([z3.Real(base + "_0"), z3.Real(base + "_1")])

contracts = []

contracts.append(Contract(
    SL + ":kernel", prop="C04",
    setup=sc_reals("t", "x"), precondition_asserts=1,
    ensures=[("acausal-literal-zero", "implies(t <= 0, ZERO(result))"),
             ("heat-kernel", "implies(t > 0, result == FPI_INV * 1 / t * EXPs(-x * x / (4 * t)))")],
    replay=replay_scalar_guard("kernel", SL, ["t", "x"], "a['t'] <= 0")))

contracts.append(Contract(
    SL + ":g", prop="C04",
    setup=sc_reals("a", "b"),
    returns_closure=dict(params=["x"], param_types=[VEC2],
                         ensures=[("acausal-literal-zero", "implies(a <= b, ZERO(result))"),
                                  ("g_z", "result == GZs(a - b, sumsq(x))")])))

contracts.append(Contract(
    SL + ":time_integrated_kernel", prop="C04",
    setup=sc_reals("t", "a", "b"), requires=["a < b"], precondition_asserts=1,
    returns_closure=dict(params=["x"], param_types=[VEC2],
                         ensures=[("acausal-literal-zero", "implies(t <= a, ZERO(result))"),
                                  ("K1", "result == K1(t, a, b, sumsq(x))")])))

contracts.append(Contract(
    SL + ":double_time_integrated_kernel", prop="C04",
    setup=sc_reals("a", "b", "c", "d"), requires=["a < b", "c < d"], precondition_asserts=1,
    returns_closure=dict(params=["x"], param_types=[VEC2], ghosts=dict(r="sumsq(x) / 4"),
                         ensures=[("acausal-literal-zero", "implies(b <= c, ZERO(result))"),
                                  ("four-term-K2", "result == K2(a, b, c, d, r)")]),
    replay=replay_dtik))


# ------------------------------------------------------------------------------------------
# src.single_layer_exact: closed forms

def fint_contract(k, extra):
    names = ["a", "b"] + extra
    return Contract(
        "{}:fint_{}".format(SLE, k), prop="C04",
        setup=sc_reals(*names, assume=[lambda A, e=extra: z3.And(*[A[n] > 0 for n in e])]),
        ensures=[("acausal-literal-zero", "implies(a <= b, ZERO(result))")],
        literal_cases=[("a <= b", 0)],
        result_term=lambda eng, env, k=k, names=names: FINT[k](*[to_real(env.lookup(n)) for n in names]),
        replay=replay_scalar_guard("fint_%d" % k, SLE, names, "a['a'] <= a['b']"))


for k, extra in ((1, ["h"]), (2, ["h", "k"]), (3, ["h", "k"]), (4, ["h", "k", "l"])):
    contracts.append(fint_contract(k, extra))


def stk_contract(k, extra):
    names = ["a", "b", "c", "d"] + extra
    ex = ", ".join(extra)
    return Contract(
        "{}:spacetime_integrated_kernel_{}".format(SLE, k), prop="C04",
        setup=sc_reals(*names, assume=[lambda A, e=extra: z3.And(*[A[n] > 0 for n in e])]),
        requires=["a < b", "c < d", "h > 0"], precondition_asserts=1,
        ensures=[("acausal-literal-zero", "implies(b <= c, ZERO(result))"),
                 ("four-term", "result == FV{k}(b, d, {ex}) - FV{k}(b, c, {ex}) + FV{k}(a, c, {ex}) - FV{k}(a, d, {ex})".format(k=k, ex=ex))],
        replay=replay_scalar_guard("spacetime_integrated_kernel_%d" % k, SLE, names, "a['b'] <= a['c']"))


for k, extra in ((1, ["h"]), (2, ["h", "k"]), (3, ["h", "k"]), (4, ["h", "k", "l"])):
    contracts.append(stk_contract(k, extra))

contracts.append(Contract(
    SLE + ":spacetime_evaluated_1", prop="C04",
    setup=sc_reals("t", "a", "b", "h", assume=[lambda A: A["h"] > 0, lambda A: A["a"] < A["b"]]),
    ensures=[("acausal-literal-zero", "implies(t <= a, ZERO(result))")],
    replay=replay_scalar_guard("spacetime_evaluated_1", SLE, ["t", "a", "b", "h"], "a['t'] <= a['a']")))

contracts.append(Contract(
    SLE + ":sign", prop="C01",
    setup=sc_reals("x", "y"),
    ensures=["result == ite(x == y, 0, ite(x < y, -1, 1))"]))


def install_spec(eng):
    def FV(k):
        def f(eng, a, b, *rest):
            a, b = to_real(a), to_real(b)
            return z3.If(a > b, FINT[k](a, b, *[to_real(r) for r in rest]), z3.RealVal(0))
        return f
    for k in (1, 2, 3, 4):
        eng.spec_funcs["FV%d" % k] = FV(k)
    eng.spec_funcs["GZs"] = lambda eng, z, s: C.GZ(z, s)
    eng.spec_funcs["EXPs"] = lambda eng, x: X.EXP(to_real(x))


# ------------------------------------------------------------------------------------------
# SingleLayerOperator: scenarios

STK = z3.Function("STK", *([R] * 9))
QUAD = "src.quadrature"


def scheme1d(eng, name):
    n = z3.Int(name + "_n")
    o = Obj("QuadScheme1D", {"__module__": QUAD, "points": named_array(name + "_pts", n),
                             "weights": named_array(name + "_wts", n), "_mirror": None}, label=name)
    o.n = n
    return o


def scheme2d(eng, name):
    n = z3.Int(name + "_n")
    o = Obj("QuadScheme2D", {"__module__": QUAD,
                             "points": Vec([named_array(name + "_px", n), named_array(name + "_py", n)]),
                             "weights": named_array(name + "_wts", n), "_mirror_x": None, "_mirror_y": None}, label=name)
    o.n = n
    return o


def sl_operator(eng):
    log = scheme1d(eng, "log")
    logm = scheme1d(eng, "logm")
    o = Obj("SingleLayerOperator", {
        "__module__": SL, "pw_exact": z3.Bool("pw_exact"),
        "gauss_scheme": scheme1d(eng, "gauss"), "log_scheme": log, "log_scheme_m": logm,
        "gauss_2d": scheme2d(eng, "gauss2d"), "log_log": scheme2d(eng, "loglog"), "duff_log_log": scheme2d(eng, "duff"),
        "gamma_len": z3.Real("gamma_len"), "glue_space": z3.Bool("glue_space"), "cache_dir": None,
    }, label="SL")
    o.wf = [o.fields["gamma_len"] > 0, log.n >= 1, logm.n == log.n]
    return o


def init_elem_arrays(eng, slo, elem, name):
    """the fields written by _init_elems (mangled names), as arbitrary 2 x n arrays"""
    n = slo.fields["log_scheme"].n
    elem.fields["_SingleLayerOperator__log_scheme_y"] = Vec([named_array(name + "_ly0", n), named_array(name + "_ly1", n)])
    elem.fields["_SingleLayerOperator__log_scheme_m_y"] = Vec([named_array(name + "_lmy0", n), named_array(name + "_lmy1", n)])


def sc_bilform(eng):
    slo = sl_operator(eng)
    tr, te = C.element(eng, "trial"), C.element(eng, "test")
    return [dict(label="", args={"self": slo, "elem_trial": tr, "elem_test": te}, assume=slo.wf + tr.wf + te.wf)]


def replay_elem_pair(fn_expr, acausal_expr):
    def rp(mv, sc, ob):
        if "replay-required" in ob.name:
            return REPLAY_CAUSAL_ZERO
        tr, te = C.model_elem(mv, "trial"), C.model_elem(mv, "test")
        return '''
import numpy as np
from src.mesh import MeshParametrized
from src.parametrization import UnitSquare
from src.single_layer import SingleLayerOperator
from src.hierarchical_error_estimator import DummyElement
from src.mesh import Vertex
mesh = MeshParametrized(UnitSquare())
def mk(t0, t1, x0, x1):
    # element with the model's time interval; space interval clipped into the first side of the unit square
    vs = [Vertex(t0, x0, -1), Vertex(t0, x1, -1), Vertex(t1, x1, -1), Vertex(t1, x0, -1)]
    return DummyElement(vs, mesh.gamma_space.pw_gamma[0])
trial = mk({tr})
test = mk({te})
observed = []
violated = False
for pw in (False, True):
    SL = SingleLayerOperator(mesh, pw_exact=pw)
    got = {fn}
    lit_zero = (type(got) is int and got == 0)
    observed.append((pw, repr(got)))
    if ({ac}) and not lit_zero:
        violated = True
'''.format(tr=elem_args(tr), te=elem_args(te), fn=fn_expr, ac=acausal_expr)
    return rp


def elem_args(m):
    t0 = float(m["t0"]) if m["t0"] is not None else 0.0
    t1 = float(m["t1"]) if m["t1"] is not None else t0 + 0.5
    # keep the time data of the model, put the space interval on the first side
    x0, x1 = 0.25, 0.5
    return "{!r}, {!r}, {!r}, {!r}".format(t0, t1, x0, x1)


contracts.append(Contract(SLE + ":spacetime_integrated_kernel", prop="C01",
                          result_term=lambda eng, env: STK(*[to_real(env.lookup(n)) for n in
                                                             ("t_a", "t_b", "s_a", "s_b", "x_a", "x_b", "y_a", "y_b")])))
contracts.append(Contract(SL + ":SingleLayerOperator.__integrate", prop="C01"))
contracts.append(Contract(QUAD + ":QuadScheme1D.integrate", prop="C15"))
contracts.append(Contract(QUAD + ":QuadScheme2D.integrate", prop="C15"))

contracts.append(Contract(
    SL + ":SingleLayerOperator.bilform", prop="C04", setup=sc_bilform,
    ensures=[("acausal-literal-zero", "implies(elem_test.time_interval[1] <= elem_trial.time_interval[0], ZERO(result))"),
             ("replay-required: causal entries are computed, never the literal 0", "implies(elem_test.time_interval[1] > elem_trial.time_interval[0], Not(ZERO(result)))")],
    replay=replay_elem_pair("SL.bilform(trial, test)", "test.time_interval[1] <= trial.time_interval[0]")))


def sc_point_eval(with_xhat):
    def setup(eng):
        slo = sl_operator(eng)
        tr = C.element(eng, "trial")
        init_elem_arrays(eng, slo, tr, "trial")
        args = {"self": slo, "elem_trial": tr, "t": z3.Real("t"), "x": Vec([z3.Real("x_0"), z3.Real("x_1")])}
        if with_xhat:
            args["x_hat"] = z3.Real("x_hat")
        return [dict(label="", args=args, assume=slo.wf + tr.wf)]
    return setup


REPLAY_CAUSAL_ZERO = '''
import numpy as np, io, contextlib
from scipy.special import exp1
from src.mesh import MeshParametrized
from src import parametrization as P
from src.single_layer import SingleLayerOperator
FPI = 1 / (4 * np.pi)
observed = []
violated = False
for curve in ("UnitSquare", "LShape", "Circle"):
    with contextlib.redirect_stdout(io.StringIO()):
        mesh = MeshParametrized(getattr(P, curve)())
        mesh.uniform_refine(); mesh.uniform_refine()
        SL = SingleLayerOperator(mesh)
    elems = list(mesh.leaf_elements)
    SL._init_elems(elems)
    L = mesh.gamma_space.gamma_length
    for trial in elems[::3]:
        t0, t1 = trial.time_interval
        for dt in (1e-4, 1e-3, 1e-2, 0.1, 0.5):
            t = t0 + dt * (t1 - t0)
            for x_hat in np.linspace(0, L, 41):
                x = mesh.gamma_space.eval(np.array([x_hat]))
                vals = dict(evaluate=SL.evaluate(trial, t, float(x_hat), x))
                for te in elems[::5]:
                    if te.time_interval[1] > t0:
                        vals["bilform"] = SL.bilform(trial, te)
                        break
                # lower bound of the exact value: panel length times the time-integrated kernel at the largest distance to the panel
                ys = trial.gamma_space(np.linspace(*trial.space_interval, 9))
                dmax2 = float(np.max(np.sum((x - ys) ** 2, axis=0)))
                lower = trial.h_x * FPI * exp1(dmax2 / (4 * (t - t0))) if t <= t1 else None
                for name, got in vals.items():
                    lit_zero = (type(got) is int and got == 0) or float(got) == 0.0
                    if lit_zero and (name == "bilform" or (lower is not None and lower > 1e-250)):
                        violated = True
                        observed.append((curve, name, repr(trial), float(t), float(x_hat), lower))
observed = observed[:5]
'''


def replay_point(fn_expr):
    def rp(mv, sc, ob):
        if "replay-required" in ob.name:
            return REPLAY_CAUSAL_ZERO
        tr = C.model_elem(mv, "trial")
        t = mv.get("t")
        if t is None:
            return None
        return '''
import numpy as np
from src.mesh import MeshParametrized, Vertex
from src.parametrization import UnitSquare
from src.single_layer import SingleLayerOperator
from src.hierarchical_error_estimator import DummyElement
mesh = MeshParametrized(UnitSquare())
SL = SingleLayerOperator(mesh)
def mk(t0, t1, x0, x1):
    vs = [Vertex(t0, x0, -1), Vertex(t0, x1, -1), Vertex(t1, x1, -1), Vertex(t1, x0, -1)]
    return DummyElement(vs, mesh.gamma_space.pw_gamma[0])
trial = mk({tr})
SL._init_elems([trial])
t = {t!r}
observed = []
violated = False
for x_hat in (0.1, 0.3, 0.25, 0.5, 0.9):
    x = mesh.gamma_space.eval(x_hat)
    got = {fn}
    lit_zero = (type(got) is int and got == 0)
    observed.append((x_hat, repr(got)))
    if t <= trial.time_interval[0] and not lit_zero:
        violated = True
'''.format(tr=elem_args(tr), t=float(t), fn=fn_expr)
    return rp


contracts.append(Contract(
    SL + ":SingleLayerOperator.potential", prop="C04", setup=sc_point_eval(False), precondition_asserts=1,
    ensures=[("acausal-literal-zero", "implies(t <= elem_trial.time_interval[0], ZERO(result))"),
             ("replay-required: causal values are computed, never the literal 0", "implies(t > elem_trial.time_interval[0], Not(ZERO(result)))")],
    replay=replay_point("SL.potential(trial, t, x + np.array([[0.0], [0.3]]))")))

contracts.append(Contract(
    SL + ":SingleLayerOperator.evaluate", prop="C04", setup=sc_point_eval(True),
    ensures=[("acausal-literal-zero", "implies(t <= elem_trial.time_interval[0], ZERO(result))"),
             ("replay-required: causal values are computed, never the literal 0", "implies(t > elem_trial.time_interval[0], Not(ZERO(result)))")],
    replay=replay_point("SL.evaluate(trial, t, x_hat, x)")))


def sc_eval_exact(eng):
    slo = sl_operator(eng)
    tr = C.element(eng, "trial")
    return [dict(label="", args={"self": slo, "elem_trial": tr, "t": z3.Real("t"), "x": z3.Real("x")},
                 assume=slo.wf + tr.wf)]


contracts.append(Contract(
    SL + ":SingleLayerOperator.evaluate_exact", prop="C04", setup=sc_eval_exact,
    ensures=[("acausal-literal-zero", "implies(t <= elem_trial.time_interval[0], ZERO(result))"),
             ("replay-required: causal values are computed, never the literal 0", "implies(t > elem_trial.time_interval[0], Not(ZERO(result)))"),
             ("total-case-split", "result is not None")],
    replay=replay_point("SL.evaluate_exact(trial, t, x_hat)")))
