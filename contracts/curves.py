"""C18 — curves are arc-length / closed / piecewise consistent; elements sit on one piece; three elements per slab."""
import ast

import z3

from pyvc.engine import (Contract, LoopContract, Obj, Ref, Vec, VList, SymSeq, Ext, Closure, OutsideSubset, to_z3, to_real, b_and,
                         b_or, num_cmp)
from pyvc import externals as X
from . import common as C

PAR = "src.parametrization"
MESH = "src.mesh"


# ------------------------------------------------------------------------------------------
# line(a, b, x_start)

def sc_line(eng):
    def build(eng):
        a = Vec([z3.Real("a_0"), z3.Real("a_1")])
        b = Vec([z3.Real("b_0"), z3.Real("b_1")])
        eng.assume(z3.Or(a.items[0] != b.items[0], a.items[1] != b.items[1]))
        return {"a": a, "b": b, "x_start": z3.Real("x_start")}
    return [dict(label="", args=build)]


def s_line_spec(eng, result, a, b, x_start, part):
    fun, norm = result
    n = to_real(norm)
    dx, dy = to_real(b.items[0]) - to_real(a.items[0]), to_real(b.items[1]) - to_real(a.items[1])
    if part == "norm":
        return z3.And(n > 0, n * n == dx * dx + dy * dy)
    if part == "unit-direction":
        return (dx / n) * (dx / n) + (dy / n) * (dy / n) == 1
    saved = eng.spec_mode
    eng.spec_mode = 0
    try:
        if part == "start":
            p = eng.call(fun, [x_start])
            return b_and(num_cmp("==", p.items[0], a.items[0]), num_cmp("==", p.items[1], a.items[1]))
        if part == "end":
            p = eng.call(fun, [eng.arith("+", x_start, norm)])
            return b_and(num_cmp("==", p.items[0], b.items[0]), num_cmp("==", p.items[1], b.items[1]))
        if part == "arclength":
            x, y = eng.fresh("x", "Real"), eng.fresh("y", "Real")
            p, q = eng.call(fun, [x]), eng.call(fun, [y])
            ex, ey = to_real(p.items[0]) - to_real(q.items[0]), to_real(p.items[1]) - to_real(q.items[1])
            return ex * ex + ey * ey == (x - y) * (x - y)
    finally:
        eng.spec_mode = saved
    raise OutsideSubset(part)


contracts = []
contracts.append(Contract(
    PAR + ":line", props=["C18"], setup=sc_line,
    ensures=[("length-is-euclidean-distance", "line_spec(result, a, b, x_start, 'norm')"),
             ("starts-at-a", "line_spec(result, a, b, x_start, 'start')"),
             ("ends-at-b-after-its-length", "line_spec(result, a, b, x_start, 'end')"),
             ("direction (b - a) / |b - a| is a unit vector", "line_spec(result, a, b, x_start, 'unit-direction')"),
             ("parametrised-by-arc-length: |fun(x) - fun(y)| == |x - y|", "line_spec(result, a, b, x_start, 'arclength')")]))


# ------------------------------------------------------------------------------------------
# MeshParametrized.__init__: piece assignment loop and three-elements guard (cuts of the constructor)

def select_piece_loop(stmts):
    """the `for elem in self.roots:` statement of MeshParametrized.__init__"""
    out = [st for st in stmts if isinstance(st, ast.For)]
    if len(out) != 1:
        raise OutsideSubset("MeshParametrized.__init__: expected exactly one top-level for loop (piece assignment)")
    return out


def select_guard(stmts):
    """the last top-level statement: the minimum-three-elements guard"""
    last = stmts[-1]
    if not isinstance(last, ast.If):
        raise OutsideSubset("MeshParametrized.__init__: last statement is not the three-elements guard")
    return [last]


def sc_piece_loop(eng):
    scen = []
    for npieces in (1, 2, 4, 6):
        def build(eng, npieces=npieces):
            ps = [z3.RealVal(0)] + [z3.Real("ps_%d" % i) for i in range(1, npieces + 1)]
            for i in range(npieces):
                eng.assume(ps[i] < ps[i + 1])
            pieces = [C.piece(eng, "piece_%d" % i) for i in range(npieces)]
            gamma = Obj("PiecewiseParametrization", {"__module__": PAR, "pw_start": VList(ps), "pw_gamma": VList(pieces),
                                                     "gamma_length": ps[-1]})
            x0, x1 = z3.Reals("x0 x1")
            v0 = Obj("Vertex", {"__module__": MESH, "x": x0, "t": z3.Real("t0")})
            root = Obj("Element", {"__module__": MESH, "vertices": VList([v0]), "gamma_space": None, "space_interval": (x0, x1)})
            eng.assume(z3.And(0 <= x0, x0 < x1, x1 <= ps[-1]))
            # the property's precondition: the initial space grid contains the break points (no break point strictly inside a root)
            for p in ps[1:-1]:
                eng.assume(z3.Not(z3.And(x0 < p, p < x1)))
            slf = Obj("MeshParametrized", {"__module__": MESH, "roots": VList([root]), "gamma_space": gamma})
            eng.ghost["root"], eng.ghost["ps"], eng.ghost["pieces"] = root, ps, pieces
            return {"self": slf, "gamma_space": gamma}
        scen.append(dict(label="pieces=%d" % npieces, args=build))
    return scen


def s_piece_assigned(eng):
    root, ps, pieces = eng.ghost["root"], eng.ghost["ps"], eng.ghost["pieces"]
    g = root.fields["gamma_space"]
    if g is None:
        return False
    x0, x1 = root.fields["space_interval"]
    alts = []
    for i, pc in enumerate(pieces):
        alts.append(b_and(eng.identical(g, pc), num_cmp("<=", ps[i], x0), num_cmp("<=", x1, ps[i + 1])))
    return b_or(*alts)


contracts.append(Contract(
    MESH + ":MeshParametrized.__init__", props=["C18"], setup=sc_piece_loop, body_select=select_piece_loop,
    ensures=[("root-carries-the-piece-containing-its-whole-interval", "piece_assigned()")]))


# three-elements guard --------------------------------------------------------------------

def refine_space_model(eng, base):
    """model of Mesh.refine_space(elem) justified by refine_axis's frame (C02): when no leaf has a lower space level the
    closure is empty and elem is replaced by two children of the same time slab"""
    env = eng.ghost_call_env
    slf, elem = env.lookup("self"), env.lookup("elem")
    leaves = slf.fields["leaf_elements"]
    if not any(l is elem for l in leaves.items):
        eng.oblige("refine_space/elem-is-a-leaf", False)
    lv = elem.fields["level_space"]
    if any(l.fields["level_space"] < lv for l in leaves.items):
        raise OutsideSubset("refine_space model: closure would be non-trivial")
    kids = [Obj("Element", {"__module__": MESH, "slab": elem.fields["slab"], "level_space": lv + 1, "children": ()}) for _ in range(2)]
    elem.fields["children"] = tuple(kids)
    leaves.items[:] = [l for l in leaves.items if l is not elem] + kids
    return tuple(kids)


def sc_guard_small(eng):
    scen = []
    for (nt, nx) in ((1, 1), (1, 2), (2, 1), (1, 3), (3, 1), (2, 2), (3, 2), (2, 3)):
        for glue in (True, False):
            def build(eng, nt=nt, nx=nx, glue=glue):
                roots = [Obj("Element", {"__module__": MESH, "slab": j, "level_space": 0, "children": ()}) for j in range(nt) for i in range(nx)]
                slf = Obj("MeshParametrized", {"__module__": MESH, "glue_space": glue, "roots": VList(list(roots)),
                                               "leaf_elements": VList(list(roots))})
                eng.ghost["mesh"], eng.ghost["nt"] = slf, nt
                return {"self": slf, "gamma_space": None, "initial_space_mesh": VList([z3.Real("xs_%d" % i) for i in range(nx + 1)])}
            scen.append(dict(label="Nt={},Nx={},glue={}".format(nt, nx, glue), args=build))
    return scen


def s_three_per_slab(eng):
    slf, nt = eng.ghost["mesh"], eng.ghost["nt"]
    if not slf.fields["glue_space"]:
        return True
    counts = [0] * nt
    for l in slf.fields["leaf_elements"].items:
        counts[l.fields["slab"]] += 1
    return all(c >= 3 for c in counts)


contracts.append(Contract(MESH + ":Mesh.refine_space", prop="C02", result=refine_space_model))
contracts.append(Contract(
    MESH + ":MeshParametrized.__init__", props=["C18"], setup=sc_guard_small, body_select=select_guard,
    ensures=[("closed-curve: every time slab has at least three elements around the curve", "three_per_slab()")]))


def sc_guard_symbolic(eng):
    def build(eng):
        nt, nx = z3.Ints("N_t N_x")
        eng.assume(z3.And(nt >= 1, nx >= 1))
        roots = SymSeq(nt * nx, lambda i: Ref("Elem", z3.Int("root")), "roots")
        slf = Obj("MeshParametrized", {"__module__": MESH, "glue_space": z3.Bool("glue_space"), "roots": roots, "leaf_elements": roots})
        eng.ghost["nx"] = nx
        eng.ghost["glue"] = slf.fields["glue_space"]
        return {"self": slf, "gamma_space": None, "initial_space_mesh": SymSeq(nx + 1, lambda i: z3.Real("xs"), "space_grid")}
    return [dict(label="guard-not-taken", args=build)]


def s_slab_count_symbolic(eng):
    # when the guard is not taken nothing is refined: every slab keeps its N_x root elements around the curve
    return z3.Implies(eng.ghost["glue"], eng.ghost["nx"] >= 3)


guard_symbolic = Contract(
    MESH + ":MeshParametrized.__init__", props=["C18"], setup=sc_guard_symbolic, body_select=select_guard,
    # the guard-taken paths (loops over all roots / leaves) are covered by the concrete small-grid scenarios above
    loops={k: LoopContract(abort=True) for k in range(2, 8)},
    ensures=[("guard-not-taken: closed curve still has >= 3 elements per slab (N_x >= 3)", "slab_count_symbolic()")],
    replay=lambda mv, sc, ob: '''
import io, contextlib
from src.mesh import MeshParametrized
from src.parametrization import Circle
nt = {nt}
with contextlib.redirect_stdout(io.StringIO()):
    mesh = MeshParametrized(Circle(), initial_time_mesh=[k / nt for k in range(nt + 1)])
per_slab = {{}}
for e in mesh.leaf_elements:
    per_slab.setdefault(e.time_interval, 0)
    per_slab[e.time_interval] += 1
observed = dict(per_slab={{str(k): v for k, v in per_slab.items()}})
violated = any(v < 3 for v in per_slab.values())
'''.format(nt=int(mv.get("N_t") or 3)))


def install(eng):
    eng.spec_funcs["line_spec"] = s_line_spec
    eng.spec_funcs["piece_assigned"] = lambda e: s_piece_assigned(e)
    eng.spec_funcs["three_per_slab"] = lambda e: s_three_per_slab(e)
    eng.spec_funcs["slab_count_symbolic"] = lambda e: s_slab_count_symbolic(e)
    np = eng.externals["np"].fn

    def norm(e, v, **k):
        e.used_assumptions.add("X-NORM: np.linalg.norm of a 2-vector is sqrt(x^2 + y^2) (SQRT axioms: s >= 0, s*s == arg)")
        s = 0
        for it in v.items:
            s = e.arith("+", s, e.arith("*", it, it))
        t = X.x_sqrt.fn(e, s)
        # the argument is a sum of squares, hence >= 0: the SQRT axiom instance holds unconditionally
        e.assume(z3.And(t >= 0, t * t == to_real(s)))
        return t
    np["linalg"] = Ext("linalg", {"norm": Ext("norm", norm)})
    np["copy"] = Ext("np.copy", lambda e, v: v)
    eng.used_assumptions.add("cut verification: MeshParametrized.__init__ is verified at two program points (piece-assignment loop, "
                             "three-elements guard) with the state established by Mesh.__init__ as mid-condition (N_t x N_x roots, all leaves, "
                             "space level 0); Mesh.refine_space is replaced by a model justified by refine_axis's frame (closure empty when no "
                             "leaf has a lower space level)")


# ------------------------------------------------------------------------------------------
# PiecewisePolygon.__init__ (cut: everything before the call of the base-class constructor) and PiecewiseParametrization.eval

def select_before_super(stmts):
    out = []
    for st in stmts:
        if isinstance(st, ast.Expr) and isinstance(st.value, ast.Call) and isinstance(st.value.func, ast.Attribute) \
                and isinstance(st.value.func.value, ast.Call) and getattr(st.value.func.value.func, "id", None) == "super":
            return out
        out.append(st)
    raise OutsideSubset("PiecewisePolygon.__init__: base-class constructor call not found")


def sc_polygon(eng):
    scen = []
    for nv, closed in ((2, False), (4, True), (5, True), (7, True)):
        def build(eng, nv=nv, closed=closed):
            vs = [Vec([z3.Real("vx_%d" % i), z3.Real("vy_%d" % i)]) for i in range(nv - 1 if closed else nv)]
            if closed:
                vs.append(vs[0])
            for p, q in zip(vs, vs[1:]):
                eng.assume(z3.Or(p.items[0] != q.items[0], p.items[1] != q.items[1]))
            eng.ghost.update(dict(vs=vs, closed=closed))
            return {"self": Obj("PiecewisePolygon", {"__module__": PAR}), "vertices": VList(vs), "closed": closed}
        scen.append(dict(label="vertices={},closed={}".format(nv, closed), args=build))
    return scen


def s_polygon_post(eng, pw_start, pw_gamma, part):
    g = eng.ghost
    vs, closed = g["vs"], g["closed"]
    starts = eng.iter_concrete(pw_start)
    gammas = eng.iter_concrete(pw_gamma)
    n = len(vs) - 1
    if len(starts) != n + 1 or len(gammas) != n:
        return False
    saved = eng.spec_mode
    eng.spec_mode = 0
    try:
        if part.startswith("cumulative-side-lengths"):
            out = [num_cmp("==", starts[0], 0)]
            only = int(part.split(":")[1])
            for i in range(n):
                if i != only:
                    continue
                dx, dy = to_real(vs[i + 1].items[0]) - to_real(vs[i].items[0]), to_real(vs[i + 1].items[1]) - to_real(vs[i].items[1])
                li = to_real(starts[i + 1]) - to_real(starts[i])
                out += [li > 0, li * li == dx * dx + dy * dy]
            return b_and(*out)
        if part == "pieces-map-onto-sides":
            out = []
            for i in range(n):
                p0, p1 = eng.call(gammas[i], [starts[i]]), eng.call(gammas[i], [starts[i + 1]])
                out += [num_cmp("==", p0.items[k], vs[i].items[k]) for k in range(2)]
                out += [num_cmp("==", p1.items[k], vs[i + 1].items[k]) for k in range(2)]
            return b_and(*out)
        if part == "continuous-and-closed":
            out = []
            for i in range(n - 1):
                p, q = eng.call(gammas[i], [starts[i + 1]]), eng.call(gammas[i + 1], [starts[i + 1]])
                out += [num_cmp("==", p.items[k], q.items[k]) for k in range(2)]
            if closed:
                p, q = eng.call(gammas[-1], [starts[-1]]), eng.call(gammas[0], [starts[0]])
                out += [num_cmp("==", p.items[k], q.items[k]) for k in range(2)]
            return b_and(*out)
    finally:
        eng.spec_mode = saved
    raise OutsideSubset(part)


polygon_contract = Contract(
    PAR + ":PiecewisePolygon.__init__", props=["C18"], setup=sc_polygon, body_select=select_before_super,
    ensures=[("pw_start[{0}+1] - pw_start[{0}] is the length of side {0}".format(i), "polygon_post(pw_start, pw_gamma, 'cumulative-side-lengths:{}')".format(i))
             for i in range(6)] + [
             ("piece i maps [pw_start[i], pw_start[i+1]] onto side i (end points)", "polygon_post(pw_start, pw_gamma, 'pieces-map-onto-sides')"),
             ("continuous at every break point; returns to its start when closed", "polygon_post(pw_start, pw_gamma, 'continuous-and-closed')")])


def sc_eval(eng):
    scen = []
    for npieces in (1, 2, 4, 6):
        def build(eng, npieces=npieces):
            ps = [z3.RealVal(0)] + [z3.Real("ps_%d" % i) for i in range(1, npieces + 1)]
            for i in range(npieces):
                eng.assume(ps[i] < ps[i + 1])
            pieces = [C.piece(eng, "piece_%d" % i) for i in range(npieces)]
            x = z3.Real("x_hat")
            # continuity at the break points (established by the constructor, previous contract)
            for i in range(npieces - 1):
                eng.assume(z3.And(C.GX(pieces[i].term, ps[i + 1]) == C.GX(pieces[i + 1].term, ps[i + 1]),
                                  C.GY(pieces[i].term, ps[i + 1]) == C.GY(pieces[i + 1].term, ps[i + 1])))
            gam = Obj("PiecewiseParametrization", {"__module__": PAR, "pw_start": VList(ps), "pw_gamma": VList(pieces), "gamma_length": ps[-1]})
            eng.ghost.update(dict(ps=ps, pieces=pieces, x=x))
            return {"self": gam, "x_hat": x}
        scen.append(dict(label="pieces=%d" % npieces, args=build))
    return scen


def s_eval_post(eng, result):
    g = eng.ghost
    ps, pieces, x = g["ps"], g["pieces"], g["x"]
    out = []
    for i, pc in enumerate(pieces):
        inside = z3.And(ps[i] <= x, x <= ps[i + 1])
        out.append(z3.Implies(inside, z3.And(to_real(result.items[0]) == C.GX(pc.term, x), to_real(result.items[1]) == C.GY(pc.term, x))))
    return z3.And(*out)


def select_ext(eng, condlist, choicelist, default=0):
    """X-SELECT: np.select returns, element-wise, the first choice whose condition holds (default 0 otherwise)"""
    eng.used_assumptions.add("X-SELECT: np.select(condlist, choicelist) returns the first choice whose condition holds")
    conds = eng.iter_concrete(condlist)
    choices = eng.iter_concrete(choicelist)
    res = []
    for k in range(2):
        r = z3.RealVal(0)
        for c, ch in reversed(list(zip(conds, choices))):
            r = z3.If(to_z3(eng.truth(c)), to_real(ch.items[k]), r)
        res.append(r)
    return Vec(res)


eval_contract = Contract(
    PAR + ":PiecewiseParametrization.eval", props=["C18"], setup=sc_eval, precondition_asserts=1,
    requires=[("parameter inside [0, L]", "And(0 <= x_hat, x_hat <= self.gamma_length)")],
    ensures=[("evaluating the whole curve agrees with the piece containing the parameter (at break points both pieces agree)", "eval_post(result)")])


def install_polygon(eng):
    eng.spec_funcs["polygon_post"] = s_polygon_post
    eng.spec_funcs["eval_post"] = lambda e, r: s_eval_post(e, r)
    np = eng.externals["np"].fn
    np["all"] = Ext("np.all", lambda e, v: e.truth(v))
    np["select"] = Ext("np.select", select_ext)
    cls = type(eng)

    def flatten_attr(e, base, attr):
        if isinstance(base, Vec) and attr == "flatten":
            return Ext("flatten", lambda e2, _b=base: _b)
        return NotImplemented
    if not getattr(cls, "_flatten_installed", False):
        cls.getattr_hooks = list(cls.getattr_hooks) + [flatten_attr]
        cls._flatten_installed = True
