"""C19 (exit condition of refine_grading) and C06 (Doerfler marking loops): loop-level contracts over an abstract mesh.

Abstract mesh: the leaf collection of heap version v is the sequence LEAF(v, 0..NL(v)-1) of element ids; element attributes
that never change (h_t, h_x, levels) are functions of the id, `children` depends on the version.  refine_time / refine_space
are replaced by their frame contract: they produce a new version (C02: only refines; attributes of elements are immutable).
"""
import z3

from pyvc.engine import (Contract, LoopContract, Obj, Ref, Vec, VList, SymSeq, SList, Ext, OutsideSubset, to_z3, to_real, b_and,
                         b_or, b_not, b_implies, num_cmp)
from pyvc import externals as X
from pyvc.arrays import NArr, named_array
from . import common as C

MESH = "src.mesh"
I, R, B = z3.IntSort(), z3.RealSort(), z3.BoolSort()

LEAF = z3.Function("LEAF", I, I, I)
NL = z3.Function("NL", I, I)
HT = z3.Function("HT", I, R)
HX = z3.Function("HX", I, R)
LT = z3.Function("LEVEL_T", I, I)
LX = z3.Function("LEVEL_X", I, I)
CH = z3.Function("HAS_CHILDREN", I, I, B)


def elem_ref(eng, term, mesh):
    return Ref("Elem", term, attrs={
        "h_t": HT(term), "h_x": HX(term), "level_time": LT(term), "level_space": LX(term),
        "children": lambda e, r: Ref("Children", term, attrs={"none": z3.Not(CH(mesh.fields["version"], term))}),
    })


def mesh_obj(eng):
    # unknown attributes of the mesh object (e.g. a memo added later) are arbitrary state left by earlier calls
    m = Obj("Mesh", {"__module__": MESH, "version": z3.Int("v0"), "__lazy_state__": True}, label="mesh")
    eng.attr_hooks[("Mesh", "leaf_elements")] = lambda e, o: leaves_seq(e, o)
    eng.ghost["mesh"] = m
    return m


def leaves_seq(eng, mesh):
    v = mesh.fields["version"]
    eng.assume(NL(v) >= 0)
    s = SymSeq(NL(v), lambda i, v=v: elem_ref(eng, LEAF(v, to_z3(i)), mesh), "leaves")
    s.version = v
    return s


def bump_version(eng, base):
    """frame contract of refine_time / refine_space: a new heap version; element attributes are immutable"""
    m = eng.ghost["mesh"]
    m.fields["version"] = eng.fresh("v", "Int")
    return None


def slist_elems(eng, base, initial_true=False):
    n = eng.fresh(base + "_len", "Int")
    eng.assume(n >= 0)
    f = z3.Function("{}!{}".format(base, next(eng.fresh_counter)), I, I)
    m = eng.ghost["mesh"]
    flag = eng.fresh(base + "_initial", "Bool") if initial_true else False
    return SList(n, lambda i: f(to_z3(i)), lambda t: elem_ref(eng, t, m), lambda v: v.term, initial_true=flag, label=base)


def s_window(eng, e, sigma, K):
    hx_s = eng.power(e.attrs["h_x"], sigma)
    ht = e.attrs["h_t"]
    return z3.And(ht / to_real(K) < hx_s, hx_s < to_real(K) * ht)


def s_all_leaves_in_window(eng, mesh, sigma, K):
    v = mesh.fields["version"]
    p = z3.Int("p!win")
    e = elem_ref(eng, LEAF(v, p), mesh)
    return z3.ForAll([p], z3.Implies(z3.And(0 <= p, p < NL(v)), s_window(eng, e, sigma, K)))


def s_prefix_in_window(eng, elems, k, sigma, K):
    p = z3.Int("p!pre")
    return z3.ForAll([p], z3.Implies(z3.And(0 <= p, p < to_z3(k)), s_window(eng, elems.elem(p), sigma, K)))


def s_version(eng, mesh):
    return mesh.fields["version"]


def s_is_initial(eng, lst):
    if isinstance(lst, SList):
        return lst.initial_true
    return lst is True


def s_elems_are_leaves_of(eng, elems, v):
    return b_and(num_cmp("==", elems.length, NL(v)), getattr(elems, "version", None) is not None and elems.version == v)


def s_slen(eng, v):
    if isinstance(v, bool):
        return 0
    return eng.call(eng.externals["len"], [v])


def install(eng):
    eng.spec_funcs["slen"] = s_slen
    eng.spec_funcs.update({
        "window": s_window, "all_leaves_in_window": s_all_leaves_in_window, "prefix_in_window": s_prefix_in_window,
        "version": s_version, "is_initial": s_is_initial, "elems_are_leaves_of": s_elems_are_leaves_of,
    })
    eng.used_assumptions.add("abstract mesh: leaf collection = LEAF(version, i); h_t, h_x, levels are functions of the element; "
                             "refine_time / refine_space only produce a new version (frame contract; C02)")


def sc_grading(eng):
    def build(eng):
        m = mesh_obj(eng)
        sigma, K = z3.Real("sigma"), z3.Real("K")
        eng.assume(z3.And(sigma >= 1, sigma <= 2, K > 1))
        p = z3.Int("p!pos")
        eng.axioms_local = []
        eng.assume(z3.ForAll([p], z3.And(HT(p) > 0, HX(p) > 0)))
        return {"self": m, "sigma": sigma, "K": K}
    return [dict(label="", args=build)]


ELEMS_T = lambda e, b: leaves_seq(e, e.ghost["mesh"])

WHILE_INV = ("Or(And(is_initial(marked_space), is_initial(marked_time)), "
             "implies(And(slen(marked_time) == 0, slen(marked_space) == 0, Not(is_initial(marked_space)), Not(is_initial(marked_time))), "
             "all_leaves_in_window(self, sigma, K)))")

contracts = []
contracts.append(Contract(MESH + ":Mesh.refine_time", prop="C02", result=bump_version))
contracts.append(Contract(MESH + ":Mesh.refine_space", prop="C02", result=bump_version))
contracts.append(Contract(
    MESH + ":Mesh.refine_grading", props=["C19"], setup=sc_grading,
    ensures=[("on-return-every-leaf-is-in-the-window: h_t/K < h_x^sigma < K*h_t", "all_leaves_in_window(self, sigma, K)")],
    loops={
        0: LoopContract(index="kw", label="while-sweep", invariant=[("last-completed-sweep-classified-all-current-leaves", WHILE_INV)],
                        modifies={"marked_space": lambda e, b: slist_elems(e, "marked_space", True),
                                  "marked_time": lambda e, b: slist_elems(e, "marked_time", True),
                                  "elems": ELEMS_T, "elem": lambda e, b: elem_ref(e, e.fresh("el", "Int"), e.ghost["mesh"]),
                                  "__version__": lambda e, b: bump_version(e, b)}),
        1: LoopContract(index="k1", label="classify", invariant=[
            ("nothing-marked-so-far => prefix in window",
             "implies(And(len(marked_time) == 0, len(marked_space) == 0), prefix_in_window(elems, k1, sigma, K))"),
            ("lists-are-lists", "And(Not(is_initial(marked_time)), Not(is_initial(marked_space)))")],
            modifies={"marked_space": lambda e, b: slist_elems(e, "marked_space"), "marked_time": lambda e, b: slist_elems(e, "marked_time"),
                      "elem": lambda e, b: elem_ref(e, e.fresh("el", "Int"), e.ghost["mesh"])}),
        2: LoopContract(index="k2", label="time-sweep", ghost_pre={"v_pre2": "version(self)"},
                        invariant=[("no-iteration => mesh unchanged", "Or(k2 > 0, version(self) == v_pre2)")],
                        modifies={"elem": lambda e, b: elem_ref(e, e.fresh("el", "Int"), e.ghost["mesh"]),
                                  "__version__": lambda e, b: bump_version(e, b)}),
        3: LoopContract(index="k3", label="space-sweep", ghost_pre={"v_pre3": "version(self)"},
                        invariant=[("no-iteration => mesh unchanged", "Or(k3 > 0, version(self) == v_pre3)")],
                        modifies={"elem": lambda e, b: elem_ref(e, e.fresh("el", "Int"), e.ghost["mesh"]),
                                  "__version__": lambda e, b: bump_version(e, b)}),
    }))


# ------------------------------------------------------------------------------------------
# C06: Doerfler marking (isotropic) -- the marking phase is verified as a cut of the function: all statements up to and
# including the assert that follows the marking loop; the refinement phases are covered by the bounded explorer

import ast as _ast

ETA = z3.Function("ETA", I, R)
DESC = z3.Function("DESC", I, I)          # reversed(argsort(eta)): indices in non-increasing order of eta
PSUM = z3.Function("PSUM", I, R)          # prefix sums of eta along DESC


def select_marking_phase(stmts):
    out, n_assert = [], 0
    for st in stmts:
        out.append(st)
        if isinstance(st, _ast.Assert):
            n_assert += 1
            if n_assert == 2:
                return out
    raise OutsideSubset("marking phase: expected two top-level asserts (len(eta) == N, sqrt(cumsum) >= theta*sqrt(total))")


def sc_dorfler_iso(eng):
    def build(eng):
        m = mesh_obj(eng)
        N = NL(m.fields["version"])
        eta = NArr(N, lambda i: ETA(to_z3(i)), "eta_sqr")
        theta = z3.Real("theta")
        k = z3.Int("k!ax")
        eng.assume(z3.And(N >= 1, theta > 0, theta < 1))
        eng.assume(z3.ForAll([k], ETA(k) >= 0))
        # X-ARGSORT-PERM: reversed(argsort(eta)) is a permutation of 0..N-1 along which eta is non-increasing
        eng.assume(z3.ForAll([k], z3.Implies(z3.And(0 <= k, k < N), z3.And(0 <= DESC(k), DESC(k) < N))))
        eng.assume(z3.ForAll([k], z3.Implies(z3.And(0 <= k, k + 1 < N), ETA(DESC(k)) >= ETA(DESC(k + 1)))))
        # prefix sums along that order (definition) and two consequences (induction, not done by the SMT solver)
        eng.assume(PSUM(0) == 0)
        eng.assume(z3.ForAll([k], z3.Implies(z3.And(0 <= k, k < N), PSUM(k + 1) == PSUM(k) + ETA(DESC(k)))))
        eng.assume(z3.ForAll([k], z3.Implies(z3.And(0 <= k, k <= N), PSUM(k) >= 0)))
        eng.ghost["N"], eng.ghost["eta"], eng.ghost["theta"] = N, eta, theta
        eng.used_assumptions.add("X-ARGSORT-PERM: reversed(np.argsort(eta)) enumerates 0..N-1 with eta non-increasing")
        eng.used_assumptions.add("X-SUM: np.sum(eta) equals the sum along any permutation (== PSUM(N)); PSUM >= 0 for eta >= 0 (induction lemma, assumed)")
        return {"self": m, "eta_sqr": eta, "theta": theta}
    return [dict(label="", args=build)]


def argsort_ext(eng, arr):
    N = eng.ghost["N"]
    asc = SymSeq(N, lambda i: DESC(to_z3(N) - 1 - to_z3(i)), "argsort")
    asc.is_argsort = True
    return asc


def reversed_ext(eng, seq):
    if getattr(seq, "is_argsort", False):
        return SymSeq(seq.length, lambda i: DESC(to_z3(i)), "desc")
    n = to_z3(seq.length)
    return SymSeq(seq.length, lambda i: seq.elem(n - 1 - to_z3(i)), "reversed")


def sum_ext(eng, arr, **k):
    return PSUM(to_z3(eng.ghost["N"]))


def s_bulk_prefix(eng, marked, elems, cumsum, theta, total):
    """the property's sentence: marked is the shortest non-empty prefix of the descending order whose sum reaches theta^2 * total"""
    K = to_z3(marked.length) if isinstance(marked, SList) else z3.IntVal(len(marked.items))
    N = to_z3(eng.ghost["N"])
    th2tot = to_real(total) * (to_real(theta) * to_real(theta))
    j, p = z3.Int("j!bulk"), z3.Int("p!bulk")
    pref = z3.ForAll([p], z3.Implies(z3.And(0 <= p, p < K), marked.elem(p).term == elems.elem(DESC(p)).term)) if isinstance(marked, SList) \
        else z3.BoolVal(False)
    return z3.And(K >= 1, K <= N, to_real(cumsum) == PSUM(K), PSUM(K) >= th2tot,
                  z3.ForAll([j], z3.Implies(z3.And(0 < j, j < K), PSUM(j) < th2tot)), pref)


def s_item(eng, lst, p):
    """lst[p] for a symbolic index, on concrete (VList) and symbolic (SList) lists of elements"""
    if isinstance(lst, SList) or isinstance(lst, SymSeq):
        return lst.elem(p)
    items = lst.items
    if not items:
        return Ref("Elem", eng.fresh("no_item", "Int"))
    t = items[-1].term
    for j in range(len(items) - 2, -1, -1):
        t = z3.If(to_z3(p) == j, items[j].term, t)
    return Ref("Elem", t)


def install_dorfler(eng):
    eng.spec_funcs["item"] = s_item
    np = eng.externals["np"].fn
    np["argsort"] = Ext("np.argsort", argsort_ext)
    np["sum"] = Ext("np.sum", sum_ext)
    eng.externals["reversed"] = Ext("reversed", reversed_ext)
    eng.spec_funcs["bulk_prefix"] = s_bulk_prefix
    eng.spec_funcs["PSUM"] = lambda e, k: PSUM(to_z3(k))
    eng.spec_funcs["TOTAL"] = lambda e: PSUM(to_z3(e.ghost["N"]))
    eng.spec_funcs["DESCi"] = lambda e, k: DESC(to_z3(k))


MARK_INV = [
    ("cumsum-is-prefix-sum", "cumsum == PSUM(km)"),
    ("marked-is-prefix-of-the-descending-order",
     "And(len(marked) == km, forall1(lambda p: implies(And(0 <= p, p < km), item(marked, p) is elems[DESCi(p)])))"),
    ("no-shorter-non-empty-prefix-reaches-the-bulk",
     "forall1(lambda j: implies(And(0 < j, j <= km), PSUM(j) < TOTAL() * theta**2))"),
    # the total of the PROPERTY is the sum of the indicators handed in (a spec term), not whatever the program variable holds
    ("the threshold variable is the sum of the given indicators", "eta_tot_sqr == TOTAL()"),
]

contracts.append(Contract(
    MESH + ":Mesh.dorfler_refine_isotropic", props=["C06"], setup=sc_dorfler_iso, body_select=select_marking_phase,
    precondition_asserts=1,
    ensures=[("marked = shortest non-empty prefix of the descending ordering whose sum reaches theta^2 * total",
              "bulk_prefix(marked, elems, cumsum, theta, TOTAL())")],
    post_in_env=True,
    loops={0: LoopContract(index="km", label="marking", invariant=MARK_INV,
                           modifies={"marked": lambda e, b: slist_elems(e, "marked"), "cumsum": "Real", "i": "Int"})}))


# ------------------------------------------------------------------------------------------
# C06: anisotropic marking -- the 2N contributions (value, element, axis tag), sorted descending, shortest prefix

ETA2 = z3.Function("ETA2", I, I, R)       # eta_sqr[i, axis]


class EtaMat:
    def __init__(self, N):
        self.N = N


def _eta_slice_hook(eng, base, sl, env):
    if isinstance(base, EtaMat):
        col = eng.ev(sl.elts[1], env)
        return NArr(base.N, lambda i, col=col: ETA2(to_z3(i), to_z3(col)), "eta[:, %s]" % col)
    return NotImplemented


def _eta_attr_hook(eng, base, attr):
    if isinstance(base, EtaMat) and attr == "shape":
        return (base.N, 2)
    return NotImplemented


def sc_dorfler_aniso(eng):
    def build(eng):
        m = mesh_obj(eng)
        N = NL(m.fields["version"])
        theta = z3.Real("theta")
        i, a = z3.Ints("i!ax a!ax")
        eng.assume(z3.And(N >= 1, theta > 0, theta < 1))
        eng.assume(z3.ForAll([i, a], ETA2(i, a) >= 0))
        eng.ghost["N"], eng.ghost["theta"] = N, theta
        eng.ghost["sum_term"] = None
        return {"self": m, "eta_sqr": EtaMat(N), "theta": theta}
    return [dict(label="", args=build)]


def aniso_sum_ext(eng, arr, **k):
    """X-SUM: np.sum(eta_sqr) equals the sum of the 2N contributions along the sorted order (== PSUM2(2N))"""
    return PSUM2(2 * to_z3(eng.ghost["N"]))


PSUM2 = z3.Function("PSUM2", I, R)


def s_aniso_axioms(eng, errs):
    """prefix sums along the sorted contribution list (definition + non-negativity lemma), stated once the list is sorted"""
    k = z3.Int("k!ps2")
    n2 = to_z3(errs.length)
    val = lambda j: to_real(errs.elem(j)[0])
    return z3.And(PSUM2(0) == 0,
                  z3.ForAll([k], z3.Implies(z3.And(0 <= k, k < n2), PSUM2(k + 1) == PSUM2(k) + val(k))),
                  z3.ForAll([k], z3.Implies(z3.And(0 <= k, k <= n2), PSUM2(k) >= 0)))


def s_aniso_prefix(eng, marked, errs, cumsum, theta, total, k=None):
    """marked[0] / marked[1] together hold exactly the first K contributions, each in the list of its axis tag"""
    m0, m1 = marked.items
    l0 = to_z3(m0.length) if isinstance(m0, SList) else z3.IntVal(len(m0.items))
    l1 = to_z3(m1.length) if isinstance(m1, SList) else z3.IntVal(len(m1.items))
    K = l0 + l1
    th2tot = to_real(total) * (to_real(theta) * to_real(theta))
    j = z3.Int("j!an")
    parts = [K >= 1, K <= to_z3(errs.length), to_real(cumsum) == PSUM2(K), PSUM2(K) >= th2tot,
             z3.ForAll([j], z3.Implies(z3.And(0 < j, j < K), PSUM2(j) < th2tot))]
    return z3.And(*parts)


def s_axis_lists(eng, marked, errs, k):
    """invariant: after k contributions, list a holds the elements of the contributions with tag a among the first k, in order:
    CNT0(k) of them in marked[0], k - CNT0(k) in marked[1]"""
    m0, m1 = marked.items
    l0 = to_z3(m0.length) if isinstance(m0, SList) else z3.IntVal(len(m0.items))
    l1 = to_z3(m1.length) if isinstance(m1, SList) else z3.IntVal(len(m1.items))
    kk = to_z3(k)
    p = z3.Int("p!axl")
    tag = lambda q: to_z3(errs.elem(q)[2])
    el = lambda q: errs.elem(q)[1].term
    it0 = (lambda q: s_item(eng, m0, q).term)
    it1 = (lambda q: s_item(eng, m1, q).term)
    return z3.And(l0 == CNT0(kk), l1 == kk - CNT0(kk), CNT0(0) == 0,
                  z3.ForAll([p], z3.Implies(z3.And(0 <= p, p < kk, tag(p) == 0), it0(CNT0(p)) == el(p))),
                  z3.ForAll([p], z3.Implies(z3.And(0 <= p, p < kk, tag(p) != 0), it1(p - CNT0(p)) == el(p))))


CNT0 = z3.Function("CNT0", I, I)


def s_cnt_axioms(eng, errs):
    k = z3.Int("k!cnt")
    n2 = to_z3(errs.length)
    tag = lambda q: to_z3(errs.elem(q)[2])
    q = z3.Int("q!cnt")
    return z3.And(CNT0(0) == 0,
                  z3.ForAll([k], z3.Implies(z3.And(0 <= k, k < n2), CNT0(k + 1) == CNT0(k) + z3.If(tag(k) == 0, 1, 0))),
                  z3.ForAll([k], z3.Implies(z3.And(0 <= k, k <= n2), z3.And(CNT0(k) >= 0, CNT0(k) <= k))),
                  # monotonicity lemmas (induction over the definition; assumed, listed in the evidence)
                  z3.ForAll([k, q], z3.Implies(z3.And(0 <= k, k <= q, q <= n2), z3.And(CNT0(k) <= CNT0(q), k - CNT0(k) <= q - CNT0(q)))),
                  z3.ForAll([k, q], z3.Implies(z3.And(0 <= k, k < q, q <= n2, tag(k) == 0), CNT0(k) < CNT0(q))),
                  z3.ForAll([k, q], z3.Implies(z3.And(0 <= k, k < q, q <= n2, tag(k) != 0), k - CNT0(k) < q - CNT0(q))))


def s_descending(eng, errs):
    q = z3.Int("q!desc")
    n2 = to_z3(errs.length)
    return z3.ForAll([q], z3.Implies(z3.And(0 <= q, q + 1 < n2), to_real(errs.elem(q)[0]) >= to_real(errs.elem(q + 1)[0])))


def s_tags_are_axes(eng, errs):
    """the list construction pairs eta_sqr[i, a] with elems[i] and tag a, and sorting permutes it: every sorted entry is
    (eta_sqr[i, a], elems[i], a) for some contribution index (checked through the permutation of the sort)"""
    q = z3.Int("q!tag")
    n2 = to_z3(errs.length)
    N = to_z3(eng.ghost["N"])
    v = eng.ghost["mesh"].fields["version"]
    perm = errs.sort_perm
    src = perm(q)
    i_of = z3.If(src < N, src, src - N)
    a_of = z3.If(src < N, 0, 1)
    e = errs.elem(q)
    return z3.And(n2 == 2 * N,
                  z3.ForAll([q], z3.Implies(z3.And(0 <= q, q < n2),
                                            z3.And(to_real(e[0]) == ETA2(i_of, a_of), e[1].term == LEAF(v, i_of), to_z3(e[2]) == a_of))))


def install_aniso(eng):
    cls = type(eng)
    if _eta_slice_hook not in cls.slice_hooks:
        cls.slice_hooks = list(cls.slice_hooks) + [_eta_slice_hook]
        cls.getattr_hooks = list(cls.getattr_hooks) + [_eta_attr_hook]
    cls.ref_rebuild_hooks = dict(cls.ref_rebuild_hooks, Elem=lambda e, t: elem_ref(e, t, e.ghost["mesh"]))
    np = eng.externals["np"].fn
    np["sum"] = Ext("np.sum", aniso_sum_ext)
    eng.spec_funcs["descending"] = s_descending
    eng.spec_funcs.update({"aniso_prefix": s_aniso_prefix, "axis_lists": s_axis_lists, "cnt_axioms": s_cnt_axioms,
                           "aniso_axioms": s_aniso_axioms, "tags_are_axes": s_tags_are_axes, "PSUM2": lambda e, k: PSUM2(to_z3(k)), "TOTAL2": lambda e: PSUM2(2 * to_z3(e.ghost["N"])),
                           "item": s_item})


def select_aniso_marking(stmts):
    return select_marking_phase(stmts)


ANISO_INV = [
    ("cumsum-is-prefix-sum", "cumsum == PSUM2(ka)"),
    ("each marked element sits in the list of its axis tag, in order", "axis_lists(marked, errs, ka)"),
    ("no-shorter-non-empty-prefix-reaches-the-bulk", "forall1(lambda j: implies(And(0 < j, j <= ka), PSUM2(j) < TOTAL2() * theta**2))"),
    ("the threshold variable is the sum of the given indicators", "eta_tot_sqr == TOTAL2()"),
]

aniso_contract = Contract(
    MESH + ":Mesh.dorfler_refine_anisotropic", props=["C06"], setup=sc_dorfler_aniso, body_select=select_aniso_marking,
    precondition_asserts=1,
    ensures=[("the sorted list pairs eta_sqr[i, a] with elems[i] and axis tag a", "tags_are_axes(errs)"),
             ("the contributions are processed in descending order of their values", "descending(errs)"),
             ("marked contributions = shortest non-empty prefix of the descending ordering reaching theta^2 * total",
              "aniso_prefix(marked, errs, cumsum, theta, TOTAL2())")],
    loops={0: LoopContract(index="ka", label="marking", invariant=ANISO_INV,
                           assumes=[("definitions of the prefix sums / tag counts along the sorted list and their induction lemmas",
                                     "And(aniso_axioms(errs), cnt_axioms(errs))")],
                           modifies={"marked": lambda e, b: VList([slist_elems(e, "marked0"), slist_elems(e, "marked1")]),
                                     "cumsum": "Real", "val": "Real", "refine_axis": "Int",
                                     "elem": lambda e, b: elem_ref(e, e.fresh("el", "Int"), e.ghost["mesh"])})})
